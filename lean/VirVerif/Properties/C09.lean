/-
C09 — Joint fitting is order-invariant and fits each interval to exactly its own data.

  "Fitting a joint model to a data matrix gives the same model whatever the order of the
   observations (rows). For each conditional variable the per-interval estimates equal a
   stand-alone fit of the template distribution to exactly those observations whose
   conditioning value falls in the interval, the dependence functions are fitted to the
   (interval reference value, estimate) pairs, and each dimension's fit options (method,
   weights) are applied to that dimension only."

Clause → theorem
  interval k is fitted to exactly the observations whose conditioning value is in interval k,
  in input order                                                   split_data_exact
  row order does not matter: edges (functions of min/max) equal,   listMax_perm, listMin_perm,
  interval contents permutations of each other, estimates equal    split_perm_invariant, estimates_perm_invariant
  for any permutation-invariant estimator
  PointsPerInterval with ties across a chunk boundary: invariance
  is impossible (two valid sort orders, different intervals)       ppi_ties_not_invariant
  dependence functions get (reference, estimate) pairs             dep_fit_inputs
  each dimension gets its own (method, weights) or the default     fitPlan_per_dim, fitPlan_length,
                                                                   fitPlan_default_when_absent, missing_method_reported
  PARTIAL (runtime): float summation noise of the real estimators under permutation (MLE /
  least squares are permutation-invariant only up to rounding) — compared with rtol 1e-6.
-/
import VirVerif.Model.FitPipeline
import Mathlib.Order.Basic
import Mathlib.Order.Defs.LinearOrder
import Mathlib.Data.List.Basic
import Mathlib.Data.List.Perm.Basic
import Mathlib.Tactic.Linarith

namespace VirVerif.C09
open VirVerif

variable {ρ α β : Type}

/-- selecting by a mask computed row by row is filtering the rows -/
theorem maskSelect_map (rows : List ρ) (p : ρ → Bool) (f : ρ → α) :
    maskSelect (rows.map p) (rows.map f) = (rows.filter p).map f := by
  induction rows with
  | nil => rfl
  | cons r rs ih =>
    by_cases h : p r = true
    · simp [maskSelect, h, ih]
    · simp only [Bool.not_eq_true] at h
      simp [maskSelect, h, ih]

/-- **each interval is fitted to exactly its own data**: with masks `mask_k[j] = pred_k(cond_j)`
(alignment, C10 `masks_aligned`), the data handed to the template for interval `k` are the
fitted-dimension values of exactly the rows whose conditioning value satisfies `pred_k`, in
input order. -/
theorem split_data_exact (rows : List ρ) (cond dist : ρ → α) (pred : α → Bool)
    (iv : Interval α) (hmask : iv.mask = (rows.map cond).map pred) :
    maskSelect iv.mask (rows.map dist) = (rows.filter (fun r => pred (cond r))).map dist := by
  rw [hmask, List.map_map]
  exact maskSelect_map rows (pred ∘ cond) dist

/-- **row order does not matter for the interval contents**: for permuted rows the data of an
interval are a permutation of each other. -/
theorem split_perm_invariant (rows rows' : List ρ) (h : rows.Perm rows') (q : ρ → Bool) (f : ρ → α) :
    ((rows.filter q).map f).Perm ((rows'.filter q).map f) :=
  (h.filter q).map f

/-- … hence any permutation-invariant estimator (a stand-alone fit is a function of the
sample as a multiset) returns the same per-interval estimate. -/
theorem estimates_perm_invariant (rows rows' : List ρ) (h : rows.Perm rows') (q : ρ → Bool)
    (f : ρ → α) (est : List α → β) (hest : ∀ l l', l.Perm l' → est l = est l') :
    est ((rows.filter q).map f) = est ((rows'.filter q).map f) :=
  hest _ _ (split_perm_invariant rows rows' h q f)

section order
variable [LinearOrder α]

theorem foldl_max_spec (l : List α) (x : α) :
    (l.foldl (fun m y => if m < y then y else m) x = x ∨
      l.foldl (fun m y => if m < y then y else m) x ∈ l) ∧
    x ≤ l.foldl (fun m y => if m < y then y else m) x ∧
    ∀ y ∈ l, y ≤ l.foldl (fun m y => if m < y then y else m) x := by
  induction l generalizing x with
  | nil => simp
  | cons a as ih =>
    simp only [List.foldl_cons]
    by_cases hx : x < a
    · rw [if_pos hx]
      obtain ⟨h1, h2, h3⟩ := ih a
      refine ⟨Or.inr ?_, le_trans (le_of_lt hx) h2, ?_⟩
      · rcases h1 with h | h
        · rw [h]; simp
        · simp [h]
      · intro y hy
        rcases List.mem_cons.mp hy with rfl | hy'
        · exact h2
        · exact h3 y hy'
    · rw [if_neg hx]
      obtain ⟨h1, h2, h3⟩ := ih x
      refine ⟨?_, h2, ?_⟩
      · rcases h1 with h | h
        · exact Or.inl h
        · exact Or.inr (by simp [h])
      · intro y hy
        rcases List.mem_cons.mp hy with rfl | hy'
        · exact le_trans (not_lt.mp hx) h2
        · exact h3 y hy'

/-- `listMax` is the maximum: a member that bounds all members -/
theorem listMax_spec (l : List α) (m : α) (h : listMax l = some m) : m ∈ l ∧ ∀ y ∈ l, y ≤ m := by
  cases l with
  | nil => simp [listMax] at h
  | cons x xs =>
    simp only [listMax, Option.some.injEq] at h
    obtain ⟨h1, h2, h3⟩ := foldl_max_spec xs x
    rw [h] at h1 h2 h3
    refine ⟨?_, ?_⟩
    · rcases h1 with h1 | h1
      · rw [h1]; simp
      · simp [h1]
    · intro y hy
      rcases List.mem_cons.mp hy with rfl | hy'
      · exact h2
      · exact h3 y hy'

/-- **the data maximum — and with it every edge the Width slicer derives from it — does not
depend on the row order** -/
theorem listMax_perm (l l' : List α) (h : l.Perm l') : listMax l = listMax l' := by
  cases hl : listMax l with
  | none =>
    have : l = [] := by cases l <;> simp [listMax] at hl ⊢
    subst this
    have : l' = [] := h.symm.eq_nil
    subst this; rfl
  | some m =>
    cases hl' : listMax l' with
    | none =>
      have : l' = [] := by cases l' <;> simp [listMax] at hl' ⊢
      subst this
      have : l = [] := h.eq_nil
      subst this; simp [listMax] at hl
    | some m' =>
      obtain ⟨hm, hb⟩ := listMax_spec l m hl
      obtain ⟨hm', hb'⟩ := listMax_spec l' m' hl'
      have h1 : m ≤ m' := hb' m (h.mem_iff.mp hm)
      have h2 : m' ≤ m := hb m' (h.mem_iff.mpr hm')
      rw [le_antisymm h1 h2]

theorem foldl_min_spec (l : List α) (x : α) :
    (l.foldl (fun m y => if y < m then y else m) x = x ∨
      l.foldl (fun m y => if y < m then y else m) x ∈ l) ∧
    l.foldl (fun m y => if y < m then y else m) x ≤ x ∧
    ∀ y ∈ l, l.foldl (fun m y => if y < m then y else m) x ≤ y := by
  induction l generalizing x with
  | nil => simp
  | cons a as ih =>
    simp only [List.foldl_cons]
    by_cases hx : a < x
    · rw [if_pos hx]
      obtain ⟨h1, h2, h3⟩ := ih a
      refine ⟨Or.inr ?_, le_trans h2 (le_of_lt hx), ?_⟩
      · rcases h1 with h | h
        · rw [h]; simp
        · simp [h]
      · intro y hy
        rcases List.mem_cons.mp hy with rfl | hy'
        · exact h2
        · exact h3 y hy'
    · rw [if_neg hx]
      obtain ⟨h1, h2, h3⟩ := ih x
      refine ⟨?_, h2, ?_⟩
      · rcases h1 with h | h
        · exact Or.inl h
        · exact Or.inr (by simp [h])
      · intro y hy
        rcases List.mem_cons.mp hy with rfl | hy'
        · exact le_trans h2 (not_lt.mp hx)
        · exact h3 y hy'

theorem listMin_spec (l : List α) (m : α) (h : listMin l = some m) : m ∈ l ∧ ∀ y ∈ l, m ≤ y := by
  cases l with
  | nil => simp [listMin] at h
  | cons x xs =>
    simp only [listMin, Option.some.injEq] at h
    obtain ⟨h1, h2, h3⟩ := foldl_min_spec xs x
    rw [h] at h1 h2 h3
    refine ⟨?_, ?_⟩
    · rcases h1 with h1 | h1
      · rw [h1]; simp
      · simp [h1]
    · intro y hy
      rcases List.mem_cons.mp hy with rfl | hy'
      · exact h2
      · exact h3 y hy'

theorem listMin_perm (l l' : List α) (h : l.Perm l') : listMin l = listMin l' := by
  cases hl : listMin l with
  | none =>
    have : l = [] := by cases l <;> simp [listMin] at hl ⊢
    subst this
    have : l' = [] := h.symm.eq_nil
    subst this; rfl
  | some m =>
    cases hl' : listMin l' with
    | none =>
      have : l' = [] := by cases l' <;> simp [listMin] at hl' ⊢
      subst this
      have : l = [] := h.eq_nil
      subst this; simp [listMin] at hl
    | some m' =>
      obtain ⟨hm, hb⟩ := listMin_spec l m hl
      obtain ⟨hm', hb'⟩ := listMin_spec l' m' hl'
      have h1 : m' ≤ m := hb' m (h.mem_iff.mp hm)
      have h2 : m ≤ m' := hb m' (h.mem_iff.mpr hm')
      rw [le_antisymm h2 h1]

end order

/-- **PointsPerInterval with ties across a chunk boundary cannot be order-invariant**: for the
conditioning values `[1, 2, 2, 3]` both `[0,1,2,3]` and `[0,2,1,3]` are valid sorting
permutations (which one `argsort` returns depends on the row order); with 2 points per interval
they put different observations into the intervals. -/
theorem ppi_ties_not_invariant :
    let cond : List Int := [1, 2, 2, 3]
    let dist : List Int := [10, 20, 30, 40]
    (ppiSlice 2 true 1 1 [0, 1, 2, 3] cond).toOption.map (fun ivs => splitData ivs dist)
        = some [[10, 20], [30, 40]] ∧
    (ppiSlice 2 true 1 1 [0, 2, 1, 3] cond).toOption.map (fun ivs => splitData ivs dist)
        = some [[10, 30], [20, 40]] := by
  decide

/-- **dependence functions are fitted to the (reference, estimate) pairs** -/
theorem dep_fit_inputs (est : List α → β) (refs : List α) (intervals : List (List α)) :
    (condFitInputs est refs intervals).2 = refs.zip (intervals.map est) ∧
    (condFitInputs est refs intervals).1 = intervals.map est := ⟨rfl, rfl⟩

/-! ### per-dimension fit options -/

theorem fillAux_length (i : Nat) (ds : List FitDescIn) (r : List FitDesc)
    (h : fillFitDescAux i ds = .ok r) : r.length = ds.length := by
  induction ds generalizing i r with
  | nil => simp [fillFitDescAux] at h; subst h; rfl
  | cons d ds ih =>
    cases d with
    | none =>
      simp only [fillFitDescAux] at h
      cases hr : fillFitDescAux (i + 1) ds with
      | error e => simp [hr, Except.map] at h
      | ok r' =>
        simp [hr, Except.map] at h; subst h
        simp [ih (i + 1) r' hr]
    | dict m w =>
      cases m with
      | none => simp [fillFitDescAux] at h
      | some m =>
        simp only [fillFitDescAux] at h
        cases hr : fillFitDescAux (i + 1) ds with
        | error e => simp [hr, Except.map] at h
        | ok r' =>
          simp [hr, Except.map] at h; subst h
          simp [ih (i + 1) r' hr]

theorem fitPlan_length (n : Nat) (ds : Option (List FitDescIn)) (r : List FitDesc)
    (h : fillFitDesc n ds = .ok r) : r.length = n := by
  cases ds with
  | none => simp [fillFitDesc] at h; subst h; simp
  | some ds =>
    simp only [fillFitDesc] at h
    split at h
    · cases h
    · rename_i hl
      have := fillAux_length 0 ds r h
      simp at hl; omega

theorem fillAux_get (i : Nat) (ds : List FitDescIn) (r : List FitDesc)
    (h : fillFitDescAux i ds = .ok r) (k : Nat) (hk : k < ds.length) :
    r[k]? = some (match ds[k] with
      | .none => defaultFitDesc
      | .dict m w => { method := m.getD "", weights := w.getD none }) ∧
    (∀ w, ds[k] ≠ .dict none w) := by
  induction ds generalizing i r k with
  | nil => simp at hk
  | cons d ds ih =>
    have step : ∀ (hd : FitDesc) (r' : List FitDesc), fillFitDescAux (i + 1) ds = .ok r' →
        r = hd :: r' → (k = 0 → True) → True := fun _ _ _ _ _ => trivial
    cases d with
    | none =>
      simp only [fillFitDescAux] at h
      cases hr : fillFitDescAux (i + 1) ds with
      | error e => simp [hr, Except.map] at h
      | ok r' =>
        simp [hr, Except.map] at h; subst h
        cases k with
        | zero => simp
        | succ k =>
          have := ih (i + 1) r' hr k (by simpa using hk)
          simpa using this
    | dict m w =>
      cases m with
      | none => simp [fillFitDescAux] at h
      | some m =>
        simp only [fillFitDescAux] at h
        cases hr : fillFitDescAux (i + 1) ds with
        | error e => simp [hr, Except.map] at h
        | ok r' =>
          simp [hr, Except.map] at h; subst h
          cases k with
          | zero => simp
          | succ k =>
            have := ih (i + 1) r' hr k (by simpa using hk)
            simpa using this

/-- **each dimension gets exactly its own description**: entry `k` of the plan is the default
for `None`, else the method and weights given for dimension `k` (weights `None` if absent) —
never another dimension's options. -/
theorem fitPlan_per_dim (n : Nat) (ds : List FitDescIn) (r : List FitDesc)
    (h : fillFitDesc n (some ds) = .ok r) (k : Nat) (hk : k < ds.length) :
    r[k]? = some (match ds[k] with
      | .none => defaultFitDesc
      | .dict m w => { method := m.getD "", weights := w.getD none }) := by
  simp only [fillFitDesc] at h
  split at h
  · cases h
  · exact (fillAux_get 0 ds r h k hk).1

theorem fitPlan_default_when_absent (n : Nat) :
    fillFitDesc n none = .ok (List.replicate n defaultFitDesc) := rfl

/-- a description without `method` is refused, naming that dimension (the first such) -/
theorem missing_method_reported (pre : List FitDescIn) (w : Option (Option String))
    (post : List FitDescIn) (hpre : ∀ d ∈ pre, ∀ w', d ≠ .dict none w') (i : Nat) :
    fillFitDescAux i (pre ++ .dict none w :: post) = .error (.missingMethod (i + pre.length)) := by
  induction pre generalizing i with
  | nil => simp [fillFitDescAux]
  | cons d ds ih =>
    have hd := hpre d (by simp)
    have ih' := ih (fun d' hd' => hpre d' (by simp [hd'])) (i + 1)
    cases d with
    | none =>
      simp only [List.cons_append, fillFitDescAux, ih', Except.map, List.length_cons]
      congr 2; omega
    | dict m w' =>
      cases m with
      | none => exact absurd rfl (hd w')
      | some m =>
        simp only [List.cons_append, fillFitDescAux, ih', Except.map, List.length_cons]
        congr 2; omega

/-! ### non-vacuity -/
example : fillFitDesc 3 (some [.none, .dict (some "wlsq") (some (some "quadratic")), .dict (some "mle") none])
    = .ok [defaultFitDesc, ⟨"wlsq", some "quadratic"⟩, ⟨"mle", none⟩] := by decide
example : maskSelect [true, false, true] [(1 : Int), 2, 3] = [1, 3] := by decide

end VirVerif.C09
