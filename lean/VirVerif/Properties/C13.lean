/-
C13 — Exponentiated-Weibull least squares = weighted quantile regression, any weights.

  "Least-squares fitting of the exponentiated Weibull distribution returns, for the delta in
   force, the alpha and beta that minimise the weighted squared error of the linearised
   quantile relation log10 x_i = log10 alpha + (1/beta) log10(-ln(1-p_i^(1/delta))) with
   plotting positions p_i = (i-0.5)/n, for every weight specification - none (plain least
   squares), 'linear', 'quadratic', 'cubic' or any positive array - and irrespective of how
   the weights are normalised. Zero observations are ignored, a free delta is a local
   minimiser of the weighted quantile error in x-space, and the result does not depend on
   the order of the data."

Clause → theorem (model: `Model/EwLsq.lean`; `x*`, `p*` are arbitrary field elements, the
numpy leaves log10 / ln / power are uninterpreted functions of `Env`)
  closed form minimises when Σw = 1                      wls_minimises_of_sum_one
  the formula of the code as it was is NOT the minimiser
    when Σw ≠ 1 (weights=None, arrays)                   wls_not_minimiser_if_unnormalised,
                                                         wls_unnormalised_negative_slope_counterexample
  after normalisation it minimises, for any weights ≥ 0  wls_minimises_after_normalisation,
                                                         estimate_minimises (whole `_estimate_alpha_beta`, arbitrary
                                                         points with weights ≥ 0, internal `a_hat`)
  … for the fit: every weight specification yields       prepare_weights_nonneg (SpecNonneg: data ≥ 0 for 'linear',
    weights ≥ 0, so the returned parameters minimise       np.power(x,3) ≥ 0 for 'cubic', entries ≥ 0 for arrays),
                                                         fitFixed_minimises, fitFixed_minimises_returned (in terms of
                                                         the RETURNED alpha_hat, under the leaf contract
                                                         log10(10**a) = a)
  irrespective of how the weights are normalised         wls_scale_invariant, estimate_scale_invariant,
                                                         prepare_scale_invariant (arguments), fit_scale_invariant
                                                         (fit, array weights, c > 0)
  alpha = 10^a, beta = 1/b                               beta_is_inverse_slope
  when the code divides by zero                          regress_ok_iff
  zero observations are ignored                          zeros_ignored (estimate AND x-space error), zeros_ignored_general,
                                                         dropZeros_mem
  plotting positions (i-0.5)/n by rank among all n       positions_keep_rank, position_formula,
                                                         position_strictMono, position_mem_unit
  result independent of the order of the data            order_independent, order_independent_array (arguments),
                                                         fit_order_independent, fit_order_independent_array (fits of
                                                         permuted data; via the congruence lemma fit_eq_of_prepare_eq)
  array weight i stays with datum i                      array_weight_stays_with_datum, prepare_array_pairs
  array weights were paired with the sorted data (#5b)   array_weights_unsorted_counterexample
  free delta is a local minimiser of the x-space error   free_delta_partial
      FULL CLAUSE (not provable about a model: `fmin` is scipy's Nelder-Mead):
        ∃ ε > 0, ∀ δ', |δ' - δ̂| < ε → wlsqError δ̂ ≤ wlsqError δ'.
      PROVEN PART: whatever value the optimiser returns, it was handed the x-space error of
      this data (sorted, positions by rank, weights as specified) and the returned
      (alpha, beta) are the weighted-regression minimisers for that delta.
      Local minimality is observed per run on the real code (harness/c13.py: bounded scalar minimiser of the
      harness' own x-space error around the returned delta, relative gap ≤ 2e-5; samples whose error has no
      interior minimiser in delta are a known finding keyed on the input).
  container type of data / weights (list, tuple, int64),   no theorem (the model starts from the list of observations):
    letter case of `method`, object re-use                 observed per run
-/
import VirVerif.Model.EwLsq
import Mathlib.Algebra.Order.Field.Basic
import Mathlib.Data.List.Basic
import Mathlib.Tactic.Ring
import Mathlib.Tactic.Linarith
import Mathlib.Tactic.LinearCombination
import Mathlib.Tactic.Positivity
import Mathlib.Tactic.NormNum
import Mathlib.Tactic.FieldSimp

set_option linter.unusedSectionVars false

namespace VirVerif.C13
open VirVerif.EwLsq

variable {α : Type} [Field α] [LinearOrder α] [IsStrictOrderedRing α]

/-! ### sums -/

omit [LinearOrder α] [IsStrictOrderedRing α] in
@[simp] theorem sumBy_nil (g : Pt α → α) : sumBy g [] = 0 := rfl

omit [LinearOrder α] [IsStrictOrderedRing α] in
@[simp] theorem sumBy_cons (g : Pt α → α) (t : Pt α) (d : List (Pt α)) :
    sumBy g (t :: d) = g t + sumBy g d := rfl

omit [LinearOrder α] [IsStrictOrderedRing α] in
@[simp] theorem wsum_nil (f : Pt α → α) : wsum f [] = 0 := rfl

omit [LinearOrder α] [IsStrictOrderedRing α] in
@[simp] theorem wsum_cons (f : Pt α → α) (t : Pt α) (d : List (Pt α)) :
    wsum f (t :: d) = t.w * f t + wsum f d := rfl

omit [LinearOrder α] [IsStrictOrderedRing α] in
theorem sumBy_congr {g h : Pt α → α} (e : ∀ t, g t = h t) (d : List (Pt α)) :
    sumBy g d = sumBy h d := by
  have : g = h := funext e
  rw [this]

omit [LinearOrder α] [IsStrictOrderedRing α] in
theorem total_eq_wsum (d : List (Pt α)) : total d = wsum (fun _ => 1) d :=
  sumBy_congr (fun t => (mul_one t.w).symm) d

theorem wsum_nonneg (f : Pt α → α) (d : List (Pt α)) (hw : ∀ t ∈ d, 0 ≤ t.w)
    (hf : ∀ t, 0 ≤ f t) : 0 ≤ wsum f d := by
  induction d with
  | nil => simp
  | cons t d ih =>
    simp only [wsum_cons]
    have := ih (fun s hs => hw s (by simp [hs]))
    have := mul_nonneg (hw t (by simp)) (hf t)
    linarith

omit [LinearOrder α] [IsStrictOrderedRing α] in
/-- the moments of the code, in the `Σ w·f` form the algebra uses -/
theorem moments_eq (d : List (Pt α)) :
    (moments d).pbar = wsum (fun t => t.p) d ∧ (moments d).xbar = wsum (fun t => t.x) d ∧
    (moments d).dividend =
      wsum (fun t => t.p * t.x) d - wsum (fun t => t.p) d * wsum (fun t => t.x) d ∧
    (moments d).divisor =
      wsum (fun t => t.p * t.p) d - wsum (fun t => t.p) d * wsum (fun t => t.p) d := by
  refine ⟨rfl, rfl, ?_, rfl⟩
  show sumBy (fun t => t.w * t.p * t.x) d - _ = _
  rw [sumBy_congr (h := fun t => t.w * (t.p * t.x)) (fun t => mul_assoc _ _ _)]
  rfl

omit [LinearOrder α] [IsStrictOrderedRing α] in
theorem wls_fst (d : List (Pt α)) :
    (wls d).1 = wsum (fun t => t.x) d - (wls d).2 * wsum (fun t => t.p) d := rfl

omit [LinearOrder α] [IsStrictOrderedRing α] in
theorem wls_snd (d : List (Pt α)) :
    (wls d).2 = (moments d).dividend / (moments d).divisor := rfl

omit [LinearOrder α] [IsStrictOrderedRing α] in
/-- expansion of the weighted squared error in the six moments -/
theorem sse_expand (a b : α) (d : List (Pt α)) :
    sse a b d = wsum (fun t => t.x * t.x) d - 2 * a * wsum (fun t => t.x) d
      - 2 * b * wsum (fun t => t.p * t.x) d + a * a * wsum (fun _ => 1) d
      + 2 * a * b * wsum (fun t => t.p) d + b * b * wsum (fun t => t.p * t.p) d := by
  induction d with
  | nil => simp [sse]
  | cons t d ih =>
    simp only [sse, wsum_cons] at ih ⊢
    rw [ih]; ring

omit [LinearOrder α] [IsStrictOrderedRing α] in
theorem wsum_sq_expand (u v : α) (d : List (Pt α)) :
    wsum (fun t => (u + v * t.p) * (u + v * t.p)) d =
      u * u * wsum (fun _ => 1) d + 2 * u * v * wsum (fun t => t.p) d
      + v * v * wsum (fun t => t.p * t.p) d := by
  induction d with
  | nil => simp
  | cons t d ih => simp only [wsum_cons]; rw [ih]; ring

omit [LinearOrder α] [IsStrictOrderedRing α] in
/-- scalar identity behind the minimisation (normal equations with Σw = 1) -/
theorem wls_scalar_identity (Sp Sx Spp Spx Sxx a b bh : α)
    (hb : bh * (Spp - Sp * Sp) = Spx - Sp * Sx) :
    (Sxx - 2 * a * Sx - 2 * b * Spx + a * a * 1 + 2 * a * b * Sp + b * b * Spp)
      - (Sxx - 2 * (Sx - bh * Sp) * Sx - 2 * bh * Spx + (Sx - bh * Sp) * (Sx - bh * Sp) * 1
          + 2 * (Sx - bh * Sp) * bh * Sp + bh * bh * Spp)
      = (a - (Sx - bh * Sp)) * (a - (Sx - bh * Sp)) * 1
        + 2 * (a - (Sx - bh * Sp)) * (b - bh) * Sp + (b - bh) * (b - bh) * Spp := by
  linear_combination (2 * b - 2 * bh) * hb

/-! ### clause 1: the closed form is the weighted least-squares minimiser -/

/-- **C13 core.** With normalised non-negative weights and a non-degenerate design, the
closed form of `_estimate_alpha_beta` minimises the weighted squared error of the
linearised quantile relation. -/
theorem wls_minimises_of_sum_one (d : List (Pt α)) (hw : ∀ t ∈ d, 0 ≤ t.w)
    (hone : total d = 1) (hden : (moments d).divisor ≠ 0)
    (a b : α) : sse (wls d).1 (wls d).2 d ≤ sse a b d := by
  have hone' : wsum (fun _ => 1) d = 1 := by rw [← total_eq_wsum]; exact hone
  obtain ⟨_, _, hnum, hdiv⟩ := moments_eq d
  have hb : (wls d).2 * (wsum (fun t => t.p * t.p) d - wsum (fun t => t.p) d * wsum (fun t => t.p) d)
      = wsum (fun t => t.p * t.x) d - wsum (fun t => t.p) d * wsum (fun t => t.x) d := by
    rw [wls_snd, ← hdiv, ← hnum]; exact div_mul_cancel₀ _ hden
  have hnn : 0 ≤ wsum (fun t => ((a - (wls d).1) + (b - (wls d).2) * t.p)
                   * ((a - (wls d).1) + (b - (wls d).2) * t.p)) d :=
    wsum_nonneg _ d hw (fun t => mul_self_nonneg _)
  have key : sse a b d - sse (wls d).1 (wls d).2 d =
      wsum (fun t => ((a - (wls d).1) + (b - (wls d).2) * t.p)
                   * ((a - (wls d).1) + (b - (wls d).2) * t.p)) d := by
    rw [sse_expand, sse_expand, wsum_sq_expand, hone', wls_fst]
    exact wls_scalar_identity _ _ _ _ _ a b _ hb
  linarith

/-- non-vacuity of `wls_minimises_of_sum_one`: two points, weights 1/2 -/
example : ∃ d : List (Pt ℚ), (∀ t ∈ d, 0 ≤ t.w) ∧ total d = 1 ∧ (moments d).divisor ≠ 0 ∧
    wls d = (0, 1) := by
  refine ⟨[⟨0, 0, 1/2⟩, ⟨1, 1, 1/2⟩], ?_, ?_, ?_, ?_⟩
  · intro t ht; simp at ht; rcases ht with rfl | rfl <;> norm_num
  · norm_num [total, sumBy]
  · norm_num [moments, sumBy]
  · norm_num [wls, moments, sumBy]

/-- **Defect #5 as a theorem.** The formula of the code as it was (no normalisation) is not
the weighted least-squares minimiser when `Σw ≠ 1`: three points with `weights=None`
(`w = 1`), in every ordered field. -/
theorem wls_not_minimiser_if_unnormalised :
    ∃ d : List (Pt α), (∀ t ∈ d, t.w = 1) ∧ (moments d).divisor ≠ 0 ∧
      ∃ a b : α, sse a b d < sse (wls d).1 (wls d).2 d := by
  refine ⟨[⟨0, 0, 1⟩, ⟨1, 1, 1⟩, ⟨2, 3, 1⟩], ?_, ?_, -1/6, 3/2, ?_⟩
  · intro t ht; simp at ht; rcases ht with rfl | rfl | rfl <;> rfl
  · norm_num [moments, sumBy]
  · norm_num [wls, moments, sse, wsum, sumBy]

/-- the symptom of defect #5 (`beta < 0`): three points exactly on the line `x = p - 2`
(slope 1, error 0), unit weights: the unnormalised formula returns a negative slope. -/
theorem wls_unnormalised_negative_slope_counterexample :
    ∃ d : List (Pt α), (∀ t ∈ d, t.w = 1) ∧ sse (-2) 1 d = 0 ∧ (wls d).2 < 0 := by
  refine ⟨[⟨1, -1, 1⟩, ⟨2, 0, 1⟩, ⟨3, 1, 1⟩], ?_, ?_, ?_⟩
  · intro t ht; simp at ht; rcases ht with rfl | rfl | rfl <;> rfl
  · norm_num [sse, wsum, sumBy]
  · norm_num [wls, moments, sumBy]

/-! ### normalisation -/

omit [LinearOrder α] [IsStrictOrderedRing α] in
theorem wsum_map_div (f : Pt α → α) (hf : ∀ (t : Pt α) (v : α), f { t with w := v } = f t)
    (s : α) (d : List (Pt α)) :
    wsum f (d.map fun t => { t with w := t.w / s }) = wsum f d / s := by
  induction d with
  | nil => simp
  | cons t d ih => simp only [List.map_cons, wsum_cons, ih, hf]; ring

omit [LinearOrder α] [IsStrictOrderedRing α] in
theorem wsum_normalise (f : Pt α → α) (hf : ∀ (t : Pt α) (v : α), f { t with w := v } = f t)
    (d : List (Pt α)) :
    wsum f (normalise d) = wsum f d / total d := wsum_map_div f hf _ d

omit [LinearOrder α] [IsStrictOrderedRing α] in
theorem total_normalise (d : List (Pt α)) (h : total d ≠ 0) : total (normalise d) = 1 := by
  rw [total_eq_wsum, wsum_normalise _ (fun _ _ => rfl), ← total_eq_wsum, div_self h]

omit [LinearOrder α] [IsStrictOrderedRing α] in
theorem sse_normalise (a b : α) (d : List (Pt α)) :
    sse a b (normalise d) = sse a b d / total d := wsum_normalise _ (fun _ _ => rfl) d

/-- **Repaired code.** For any non-negative weights with positive sum, the closed form
applied to the normalised weights minimises the weighted squared error *of the given
weights*. -/
theorem wls_minimises_after_normalisation (d : List (Pt α)) (hw : ∀ t ∈ d, 0 ≤ t.w)
    (hpos : 0 < total d) (hden : (moments (normalise d)).divisor ≠ 0) (a b : α) :
    sse (wls (normalise d)).1 (wls (normalise d)).2 d ≤ sse a b d := by
  have hw' : ∀ t ∈ normalise d, 0 ≤ t.w := by
    intro t ht
    simp only [normalise, List.mem_map] at ht
    obtain ⟨s, hs, rfl⟩ := ht
    exact div_nonneg (hw s hs) hpos.le
  have h := wls_minimises_of_sum_one (normalise d) hw' (total_normalise d hpos.ne') hden a b
  rw [sse_normalise, sse_normalise] at h
  exact (div_le_div_iff_of_pos_right hpos).mp h

/-- non-vacuity: `weights=None` on the witness of `wls_not_minimiser_if_unnormalised`;
after normalisation the formula returns the true least-squares line `(-1/6, 3/2)`. -/
example : ∃ d : List (Pt ℚ), (∀ t ∈ d, 0 ≤ t.w) ∧ 0 < total d ∧
    (moments (normalise d)).divisor ≠ 0 ∧ wls (normalise d) = (-1/6, 3/2) := by
  refine ⟨[⟨0, 0, 1⟩, ⟨1, 1, 1⟩, ⟨2, 3, 1⟩], ?_, ?_, ?_, ?_⟩
  · intro t ht; simp at ht; rcases ht with rfl | rfl | rfl <;> norm_num
  · norm_num [total, sumBy]
  · norm_num [normalise, total, moments, sumBy]
  · norm_num [normalise, total, wls, moments, sumBy]

omit [LinearOrder α] [IsStrictOrderedRing α] in
theorem total_scaleW (c : α) (d : List (Pt α)) : total (scaleW c d) = c * total d := by
  induction d with
  | nil => simp [total, scaleW]
  | cons t d ih =>
    simp only [total, scaleW, List.map_cons, sumBy_cons] at ih ⊢
    rw [ih]; ring

omit [LinearOrder α] [IsStrictOrderedRing α] in
/-- **Irrespective of how the weights are normalised**: `w ↦ c·w` (`c ≠ 0`) gives the
same normalised weights, hence the same `(a_hat, b_hat)`. -/
theorem wls_scale_invariant (c : α) (hc : c ≠ 0) (d : List (Pt α)) :
    normalise (scaleW c d) = normalise d ∧
    wls (normalise (scaleW c d)) = wls (normalise d) := by
  have h : normalise (scaleW c d) = normalise d := by
    unfold normalise
    rw [total_scaleW]
    simp only [scaleW, List.map_map]
    apply List.map_congr_left
    intro t _
    simp only [Function.comp]
    congr 1
    exact mul_div_mul_left _ _ hc
  exact ⟨h, by rw [h]⟩

/-! ### `_estimate_alpha_beta` as a whole -/

theorem isNonzero_iff (x : α) : isNonzero x = true ↔ x ≠ 0 := by
  simp [isNonzero, lt_or_lt_iff_ne]

theorem isZero_iff (x : α) : isZero x = true ↔ x = 0 := by
  unfold isZero
  rw [Bool.not_eq_true', ← Bool.not_eq_true, isNonzero_iff, not_not]

/-- what a successful regression step returned -/
theorem regress_eq_ok (d : List (Pt α)) (a b β : α) (h : regress d = .ok (a, b, β)) :
    total d ≠ 0 ∧ (moments (normalise d)).divisor ≠ 0 ∧ (moments (normalise d)).dividend ≠ 0 ∧
    (a, b) = wls (normalise d) ∧ β = (moments (normalise d)).divisor / (moments (normalise d)).dividend := by
  unfold regress at h
  by_cases h0 : isZero (total d) = true
  · rw [if_pos h0] at h; cases h
  rw [if_neg h0] at h
  by_cases h1 : isZero (moments (normalise d)).divisor = true
  · simp only [h1, if_true] at h; cases h
  by_cases h2 : isZero (moments (normalise d)).dividend = true
  · simp only [h1, h2, if_true] at h; cases h
  simp only [h1, h2] at h
  rw [isZero_iff] at h0 h1 h2
  injection h with h
  injection h with ha h
  injection h with hb hβ
  refine ⟨h0, h1, h2, ?_, hβ.symm⟩
  rw [← ha, ← hb]; rfl

/-- **When the code divides by zero.** The regression step succeeds exactly when the weights
of the retained points do not sum to zero, the `p*` are not all equal (divisor) and the
slope is not zero (dividend); otherwise the code computes `x/0` (the model refuses). -/
theorem regress_ok_iff (d : List (Pt α)) :
    (∃ r, regress d = .ok r) ↔
      total d ≠ 0 ∧ (moments (normalise d)).divisor ≠ 0 ∧ (moments (normalise d)).dividend ≠ 0 := by
  constructor
  · rintro ⟨⟨a, b, β⟩, h⟩
    obtain ⟨h0, h1, h2, -, -⟩ := regress_eq_ok d a b β h
    exact ⟨h0, h1, h2⟩
  · rintro ⟨h0, h1, h2⟩
    have e0 : ¬ isZero (total d) = true := by rw [isZero_iff]; exact h0
    have e1 : ¬ isZero (moments (normalise d)).divisor = true := by rw [isZero_iff]; exact h1
    have e2 : ¬ isZero (moments (normalise d)).dividend = true := by rw [isZero_iff]; exact h2
    unfold regress
    rw [if_neg e0]
    simp only [e1, e2]
    exact ⟨_, rfl⟩

/-- the transformed, zero-filtered points the regression of `_estimate_alpha_beta` runs on -/
def design (E : Env α) (δ : α) (pts : List (Pt α)) : List (Pt α) :=
  (dropZeros pts).map (star E δ)

theorem estimate_ok (E : Env α) (δ : α) (pts : List (Pt α)) (r : Est α)
    (h : estimate E δ pts = .ok r) :
    regress (design E δ pts) = .ok (r.aHat, r.bHat, r.betaHat) ∧
    r.alphaHat = E.pow (E.ofN 10) r.aHat := by
  unfold estimate at h
  unfold design
  cases hr : regress ((dropZeros pts).map (star E δ)) with
  | error e => rw [hr] at h; cases h
  | ok v =>
    obtain ⟨a, b, β⟩ := v
    rw [hr] at h
    simp only at h
    injection h with h
    subst h
    exact ⟨rfl, rfl⟩

/-- **alpha = 10^a, beta = 1/b.** The returned `beta_hat` (computed as divisor/dividend)
is the inverse of the regression slope, the slope is not zero, `(a_hat, b_hat)` is the
closed form on the normalised weights and `alpha_hat = 10 ** a_hat`. -/
theorem beta_is_inverse_slope (E : Env α) (δ : α) (pts : List (Pt α)) (r : Est α)
    (h : estimate E δ pts = .ok r) :
    r.betaHat = 1 / r.bHat ∧ r.bHat ≠ 0 ∧
    (r.aHat, r.bHat) = wls (normalise (design E δ pts)) ∧
    r.alphaHat = E.pow (E.ofN 10) r.aHat := by
  obtain ⟨hr, hα⟩ := estimate_ok E δ pts r h
  obtain ⟨-, h1, h2, hab, hβ⟩ := regress_eq_ok _ _ _ _ hr
  have hb : r.bHat = (moments (normalise (design E δ pts))).dividend /
      (moments (normalise (design E δ pts))).divisor := by
    have := congrArg Prod.snd hab
    simpa [wls_snd] using this
  refine ⟨?_, ?_, hab, hα⟩
  · rw [hβ, hb, one_div_div]
  · rw [hb]; exact div_ne_zero h2 h1

/-- **Clause 1 for the repaired `_estimate_alpha_beta`.** Whenever it returns (no division
by zero), for ANY non-negative weights (no normalisation assumed, zeros in the data allowed)
the returned `(a_hat, b_hat) = (log10 alpha_hat, 1/beta_hat)` minimise the weighted squared
error of the linearised quantile relation over the retained observations, with the given
weights.  NOTE: stated for the INTERNAL `a_hat` and arbitrary points `pts` with `hw : 0 ≤ t.w` assumed;
that `_fit_lsq` produces such weights and the statement for the returned `alpha_hat`
(`log10 alpha_hat = a_hat` needs the leaf contract `log10 (10 ** a) = a`) are
`prepare_weights_nonneg`, `fitFixed_minimises`, `fitFixed_minimises_returned` below. -/
theorem estimate_minimises (E : Env α) (δ : α) (pts : List (Pt α)) (r : Est α)
    (h : estimate E δ pts = .ok r) (hw : ∀ t ∈ pts, 0 ≤ t.w) (a b : α) :
    sse r.aHat (1 / r.betaHat) (design E δ pts) ≤ sse a b (design E δ pts) := by
  obtain ⟨hβ, hb0, hab, -⟩ := beta_is_inverse_slope E δ pts r h
  obtain ⟨hr, -⟩ := estimate_ok E δ pts r h
  obtain ⟨h0, h1, -, -, -⟩ := regress_eq_ok _ _ _ _ hr
  have hw' : ∀ t ∈ design E δ pts, 0 ≤ t.w := by
    intro t ht
    simp only [design, List.mem_map] at ht
    obtain ⟨s, hs, rfl⟩ := ht
    exact hw s (List.mem_of_mem_filter hs)
  have hpos : 0 < total (design E δ pts) := by
    rw [total_eq_wsum] at h0 ⊢
    exact lt_of_le_of_ne (wsum_nonneg _ _ hw' (fun _ => zero_le_one)) (Ne.symm h0)
  have := wls_minimises_after_normalisation (design E δ pts) hw' hpos h1 a b
  rw [← hab] at this
  rw [hβ, one_div_one_div]
  exact this

/-- scaling the weights commutes with the zero filter and the transform -/
theorem design_scaleW (E : Env α) (δ c : α) (pts : List (Pt α)) :
    design E δ (scaleW c pts) = scaleW c (design E δ pts) := by
  unfold design dropZeros scaleW
  rw [List.filter_map, List.map_map, List.map_map]
  rfl

theorem regress_scaleW (c : α) (hc : c ≠ 0) (d : List (Pt α)) :
    regress (scaleW c d) = regress d := by
  unfold regress
  rw [(wls_scale_invariant c hc d).1, total_scaleW]
  have : isZero (c * total d) = isZero (total d) := by
    rw [Bool.eq_iff_iff, isZero_iff, isZero_iff, mul_eq_zero]
    constructor
    · rintro (h | h)
      · exact absurd h hc
      · exact h
    · exact Or.inr
  rw [this]

/-- **Irrespective of how the weights are normalised, for the whole estimator**:
`_estimate_alpha_beta(delta, x, p, c*w) = _estimate_alpha_beta(delta, x, p, w)`, `c ≠ 0`. -/
theorem estimate_scale_invariant (E : Env α) (δ c : α) (hc : c ≠ 0) (pts : List (Pt α)) :
    estimate E δ (scaleW c pts) = estimate E δ pts := by
  have h := design_scaleW E δ c pts
  unfold design at h
  unfold estimate
  rw [h, regress_scaleW c hc]

/-! ### zero observations -/

theorem dropZeros_mem (t : Pt α) (d : List (Pt α)) : t ∈ dropZeros d ↔ t ∈ d ∧ t.x ≠ 0 := by
  simp [dropZeros, isNonzero_iff]

theorem dropZeros_idem (d : List (Pt α)) : dropZeros (dropZeros d) = dropZeros d := by
  simp [dropZeros]

theorem dropZeros_zero (l₁ l₂ : List (Pt α)) (z : Pt α) (hz : z.x = 0) :
    dropZeros (l₁ ++ z :: l₂) = dropZeros (l₁ ++ l₂) := by
  have : ¬ isNonzero z.x = true := by rw [isNonzero_iff]; exact fun h => h hz
  simp [dropZeros, this]

/-- **Zero observations are ignored.** A zero observation, whatever its plotting position
and weight, and wherever it stands, can be removed without changing the estimate or the
x-space error (x, p and w are filtered together: the retained triples are untouched). -/
theorem zeros_ignored (E : Env α) (δ : α) (l₁ l₂ : List (Pt α)) (z : Pt α) (hz : z.x = 0) :
    estimate E δ (l₁ ++ z :: l₂) = estimate E δ (l₁ ++ l₂) ∧
    wlsqError E δ (l₁ ++ z :: l₂) = wlsqError E δ (l₁ ++ l₂) := by
  constructor
  · unfold estimate; rw [dropZeros_zero l₁ l₂ z hz]
  · unfold wlsqError; rw [dropZeros_zero l₁ l₂ z hz]

/-- the estimate depends on the observations only through the non-zero ones -/
theorem zeros_ignored_general (E : Env α) (δ : α) (d d' : List (Pt α))
    (h : dropZeros d = dropZeros d') :
    estimate E δ d = estimate E δ d' ∧ wlsqError E δ d = wlsqError E δ d' := by
  constructor
  · unfold estimate; rw [h]
  · unfold wlsqError; rw [h]

/-! ### sorting: the pipeline starts with a sort, so the order of the data is irrelevant -/

theorem sortData_perm (data : List α) : (sortData data).Perm data :=
  List.mergeSort_perm _ _

theorem sortData_sorted (data : List α) : (sortData data).Pairwise (· ≤ ·) := by
  have := List.pairwise_mergeSort (le := fun (a b : α) => decide (a ≤ b))
    (fun a b c hab hbc => by simp only [decide_eq_true_eq] at *; exact le_trans hab hbc)
    (fun a b => by simp only [Bool.or_eq_true, decide_eq_true_eq]; exact le_total a b) data
  exact this.imp (fun h => by simpa using h)

/-- a sorted permutation is unique -/
theorem sorted_perm_unique (l₁ l₂ : List α) (h₁ : l₁.Pairwise (· ≤ ·)) (h₂ : l₂.Pairwise (· ≤ ·))
    (hp : l₁.Perm l₂) : l₁ = l₂ :=
  List.Perm.eq_of_pairwise (le := fun a b => decide (a ≤ b))
    (fun a b _ _ hab hba => le_antisymm (by simpa using hab) (by simpa using hba))
    (h₁.imp (fun h => by simpa using h)) (h₂.imp (fun h => by simpa using h)) hp

theorem sortData_eq_of_perm (data data' : List α) (hp : data.Perm data') :
    sortData data = sortData data' :=
  sorted_perm_unique _ _ (sortData_sorted _) (sortData_sorted _)
    ((sortData_perm data).trans (hp.trans (sortData_perm data').symm))

theorem lexLe_iff (a b : α × α) :
    lexLe a b = true ↔ a.1 < b.1 ∨ (a.1 = b.1 ∧ a.2 ≤ b.2) := by
  unfold lexLe
  simp only [Bool.or_eq_true, Bool.and_eq_true, Bool.not_eq_true', decide_eq_true_eq,
    decide_eq_false_iff_not, not_lt]
  constructor
  · rintro (h | ⟨h1, h2⟩)
    · exact Or.inl h
    · rcases lt_or_eq_of_le h1 with h | h
      · exact Or.inl h
      · exact Or.inr ⟨h, h2⟩
  · rintro (h | ⟨h1, h2⟩)
    · exact Or.inl h
    · exact Or.inr ⟨h1.le, h2⟩

theorem lexLe_trans (a b c : α × α) (hab : lexLe a b = true) (hbc : lexLe b c = true) :
    lexLe a c = true := by
  rw [lexLe_iff] at *
  rcases hab with h | ⟨h1, h2⟩ <;> rcases hbc with h' | ⟨h1', h2'⟩
  · exact Or.inl (lt_trans h h')
  · exact Or.inl (h1' ▸ h)
  · exact Or.inl (h1 ▸ h')
  · exact Or.inr ⟨h1.trans h1', le_trans h2 h2'⟩

theorem lexLe_total (a b : α × α) : (lexLe a b || lexLe b a) = true := by
  rw [Bool.or_eq_true, lexLe_iff, lexLe_iff]
  rcases lt_trichotomy a.1 b.1 with h | h | h
  · exact Or.inl (Or.inl h)
  · rcases le_total a.2 b.2 with h' | h'
    · exact Or.inl (Or.inr ⟨h, h'⟩)
    · exact Or.inr (Or.inr ⟨h.symm, h'⟩)
  · exact Or.inr (Or.inl h)

theorem lexLe_antisymm (a b : α × α) (hab : lexLe a b = true) (hba : lexLe b a = true) :
    a = b := by
  rw [lexLe_iff] at *
  rcases hab with h | ⟨h1, h2⟩ <;> rcases hba with h' | ⟨h1', h2'⟩
  · exact absurd h (lt_asymm h')
  · exact absurd h (by rw [h1']; exact lt_irrefl _)
  · exact absurd h' (by rw [h1]; exact lt_irrefl _)
  · exact Prod.ext h1 (le_antisymm h2 h2')

theorem sortPairs_perm (l : List (α × α)) : (sortPairs l).Perm l := List.mergeSort_perm _ _

theorem sortPairs_sorted (l : List (α × α)) : (sortPairs l).Pairwise (fun a b => lexLe a b = true) :=
  List.pairwise_mergeSort lexLe_trans lexLe_total l

theorem lex_sorted_perm_unique (l₁ l₂ : List (α × α))
    (h₁ : l₁.Pairwise (fun a b => lexLe a b = true)) (h₂ : l₂.Pairwise (fun a b => lexLe a b = true))
    (hp : l₁.Perm l₂) : l₁ = l₂ :=
  List.Perm.eq_of_pairwise (le := fun a b => lexLe a b = true) (fun a b _ _ => lexLe_antisymm a b) h₁ h₂ hp

theorem sortPairs_eq_of_perm (l l' : List (α × α)) (hp : l.Perm l') : sortPairs l = sortPairs l' :=
  lex_sorted_perm_unique _ _ (sortPairs_sorted _) (sortPairs_sorted _)
    ((sortPairs_perm l).trans (hp.trans (sortPairs_perm l').symm))

/-- the values of the lexsorted pairs are the sorted data -/
theorem sortPairs_fst (data ws : List α) (hl : data.length = ws.length) :
    (sortPairs (data.zip ws)).map Prod.fst = sortData data := by
  apply sorted_perm_unique _ _ _ (sortData_sorted _)
  · have h1 : ((sortPairs (data.zip ws)).map Prod.fst).Perm ((data.zip ws).map Prod.fst) :=
      (sortPairs_perm _).map _
    rw [List.map_fst_zip (by omega)] at h1
    exact h1.trans (sortData_perm data).symm
  · rw [List.pairwise_map]
    refine (sortPairs_sorted _).imp ?_
    intro a b h
    rw [lexLe_iff] at h
    rcases h with h | ⟨h, -⟩
    · exact h.le
    · exact h.le

/-! ### plotting positions -/

/-- the environment of the theorems: conversions are the field's, leaves are arbitrary -/
def fieldEnv (lg10 ln : α → α) (pow : α → α → α) : Env α :=
  { lg10 := lg10, ln := ln, pow := pow, ofN := fun n => (n : α), half := 1 / 2 }

theorem position_formula (lg10 ln : α → α) (pow : α → α → α) (n i : Nat) :
    position (fieldEnv lg10 ln pow) n i = (((i : α) + 1) - 1 / 2) / (n : α) := by
  simp [position, fieldEnv]

theorem position_strictMono (lg10 ln : α → α) (pow : α → α → α) (n i j : Nat) (hn : 0 < n)
    (hij : i < j) :
    position (fieldEnv lg10 ln pow) n i < position (fieldEnv lg10 ln pow) n j := by
  rw [position_formula, position_formula]
  have hn' : (0 : α) < n := by exact_mod_cast hn
  have : (i : α) < j := by exact_mod_cast hij
  exact div_lt_div_of_pos_right (by linarith) hn'

theorem position_mem_unit (lg10 ln : α → α) (pow : α → α → α) (n i : Nat) (hi : i < n) :
    0 < position (fieldEnv lg10 ln pow) n i ∧ position (fieldEnv lg10 ln pow) n i < 1 := by
  rw [position_formula]
  have hn' : (0 : α) < n := by exact_mod_cast (Nat.zero_lt_of_lt hi)
  have h1 : (i : α) + 1 ≤ n := by exact_mod_cast hi
  have h0 : (0 : α) ≤ i := Nat.cast_nonneg i
  constructor
  · apply div_pos _ hn'; linarith
  · rw [div_lt_one hn']; linarith

theorem attachPositions_length (E : Env α) (xw : List (α × α)) :
    (attachPositions E xw).length = xw.length := by
  simp [attachPositions]

theorem attachPositions_getElem (E : Env α) (xw : List (α × α)) (i : Nat)
    (hi : i < (attachPositions E xw).length) :
    (attachPositions E xw)[i] =
      { p := position E xw.length i, x := (xw[i]'(by simpa [attachPositions] using hi)).1,
        w := (xw[i]'(by simpa [attachPositions] using hi)).2 } := by
  simp [attachPositions]

theorem attachPositions_p (E : Env α) (xw : List (α × α)) (i : Nat)
    (hi : i < (attachPositions E xw).length) :
    (attachPositions E xw)[i].p = position E xw.length i := by
  rw [attachPositions_getElem]

theorem attachPositions_x (E : Env α) (xw : List (α × α)) :
    (attachPositions E xw).map (·.x) = xw.map Prod.fst := by
  apply List.ext_getElem
  · simp [attachPositions]
  · intro i h1 h2
    simp [attachPositions]

theorem kwWeights_length (k : α → α) (xs : List α) : (kwWeights k xs).length = xs.length := by
  simp [kwWeights]

/-- the values handed to the estimator are the sorted data, for every weight specification -/
theorem sortedWithWeights_fst (E : Env α) (spec : WSpec α) (data : List α) (xw : List (α × α))
    (h : sortedWithWeights E spec data = .ok xw) : xw.map Prod.fst = sortData data := by
  cases spec with
  | none =>
    simp only [sortedWithWeights] at h
    injection h with h; subst h
    simp [List.map_map, Function.comp_def]
  | linear =>
    simp only [sortedWithWeights] at h
    injection h with h; subst h
    exact List.map_fst_zip (by rw [kwWeights_length])
  | quadratic =>
    simp only [sortedWithWeights] at h
    injection h with h; subst h
    exact List.map_fst_zip (by rw [kwWeights_length])
  | cubic =>
    simp only [sortedWithWeights] at h
    injection h with h; subst h
    exact List.map_fst_zip (by rw [kwWeights_length])
  | array ws =>
    simp only [sortedWithWeights] at h
    by_cases hl : data.length = ws.length
    · simp only [hl, ne_eq, not_true_eq_false, if_false] at h
      injection h with h; subst h
      rw [List.map_map]
      exact sortPairs_fst data ws hl
    · simp only [ne_eq, hl, not_false_eq_true, if_true] at h
      cases h

/-- **Plotting positions keep the rank.** In the arguments handed to the estimator the
values are the sorted data and the `i`-th smallest of ALL `n` observations (zeros and ties
included) carries `p = (i - 0.5)/n` (0-based: `position n i`); the zero filter afterwards
removes whole triples (`dropZeros_mem`), so a retained observation keeps the position of its
rank among all observations. -/
theorem positions_keep_rank (E : Env α) (spec : WSpec α) (data : List α) (pts : List (Pt α))
    (h : prepare E spec data = .ok pts) :
    pts.length = data.length ∧ pts.map (·.x) = sortData data ∧
    ∀ i (hi : i < pts.length), pts[i].p = position E data.length i := by
  unfold prepare at h
  cases hs : sortedWithWeights E spec data with
  | error e => rw [hs] at h; cases h
  | ok xw =>
    rw [hs] at h
    injection h with h
    subst h
    have hx := sortedWithWeights_fst E spec data xw hs
    have hlen : xw.length = data.length := by
      have := congrArg List.length hx
      simpa [sortData] using this
    refine ⟨by rw [attachPositions_length, hlen], by rw [attachPositions_x, hx], ?_⟩
    intro i hi
    rw [attachPositions_p, hlen]

/-! ### order independence -/

/-- **The result does not depend on the order of the data** (None and keyword weights):
permuting the data leaves the arguments of the estimator — hence everything computed from
them — unchanged. -/
theorem order_independent (E : Env α) (spec : WSpec α) (hspec : ∀ ws, spec ≠ .array ws)
    (data data' : List α) (hp : data.Perm data') :
    prepare E spec data = prepare E spec data' := by
  have hs := sortData_eq_of_perm data data' hp
  unfold prepare
  cases spec with
  | array ws => exact absurd rfl (hspec ws)
  | none => simp only [sortedWithWeights, hs]
  | linear => simp only [sortedWithWeights, hs]
  | quadratic => simp only [sortedWithWeights, hs]
  | cubic => simp only [sortedWithWeights, hs]

/-- **Order independence with array weights** (repaired code): permuting the data and their
weights jointly leaves the arguments of the estimator unchanged (the weights are reordered
with the data; ties in the data are ordered by weight). -/
theorem order_independent_array (E : Env α) (data data' ws ws' : List α)
    (hl : data.length = ws.length) (hl' : data'.length = ws'.length)
    (hp : (data.zip ws).Perm (data'.zip ws')) :
    prepare E (.array ws) data = prepare E (.array ws') data' := by
  unfold prepare
  simp only [sortedWithWeights, hl, hl', ne_eq, not_true_eq_false, if_false,
    sortPairs_eq_of_perm _ _ hp]

/-- congruence lemma (trivial by rewriting): fits of equal prepared inputs are equal; fixed delta and
free delta (same optimiser). The statements about permuted data are `fit_order_independent`,
`fit_order_independent_array` below. -/
theorem fit_eq_of_prepare_eq (E : Env α) (spec spec' : WSpec α) (data data' : List α)
    (h : prepare E spec data = prepare E spec' data') (δ : α)
    (search : (α → Except LsqErr α) → α → α) :
    fitFixed E spec δ data = fitFixed E spec' δ data' ∧
    fitFree E search spec δ data = fitFree E search spec' δ data' := by
  unfold fitFixed fitFree
  rw [h]
  exact ⟨rfl, rfl⟩

/-- non-vacuity of `order_independent_array`: a genuine joint permutation -/
example : ([2, 1, 1] : List ℚ).length = ([5, 3, 4] : List ℚ).length ∧
    (([2, 1, 1] : List ℚ).zip [5, 3, 4]).Perm (([1, 2, 1] : List ℚ).zip [4, 5, 3]) := by
  refine ⟨rfl, ?_⟩
  simp only [List.zip_cons_cons, List.zip_nil_right]
  exact List.perm_append_comm (l₁ := [_, _]) (l₂ := [_])

/-- **Defect #5b as a theorem.** Pairing the weights *as given* with the *sorted* data (the
code as it was) is not invariant under a joint permutation of data and weights: whenever
the weight lists differ, the two prepared inputs differ although they describe the same
weighted observations. -/
theorem array_weights_unsorted_counterexample :
    ∃ (data data' ws ws' : List α), data.length = ws.length ∧ data'.length = ws'.length ∧
      (data.zip ws).Perm (data'.zip ws') ∧
      (sortData data).zip ws ≠ (sortData data').zip ws' := by
  refine ⟨[2, 1], [1, 2], [1, 3], [3, 1], rfl, rfl, ?_, ?_⟩
  · simp only [List.zip_cons_cons, List.zip_nil_right]
    exact List.Perm.swap _ _ _
  · have hs : sortData ([2, 1] : List α) = sortData [1, 2] :=
      sortData_eq_of_perm _ _ (List.Perm.swap _ _ _)
    rw [hs]
    have hlen : (sortData ([1, 2] : List α)).length = 2 := by simp [sortData]
    match hm : sortData ([1, 2] : List α), hlen with
    | [u, v], _ =>
      simp only [List.zip_cons_cons, List.zip_nil_right, ne_eq, List.cons.injEq, Prod.mk.injEq,
        true_and, and_true, not_and]
      intro h
      norm_num at h

/-! ### scaling array weights, whole pipeline -/

theorem sortPairs_map_scale (c : α) (hc : 0 < c) (l : List (α × α)) :
    sortPairs (l.map fun xw => (xw.1, c * xw.2)) = (sortPairs l).map fun xw => (xw.1, c * xw.2) := by
  apply lex_sorted_perm_unique _ _ (sortPairs_sorted _)
  · rw [List.pairwise_map]
    refine (sortPairs_sorted l).imp ?_
    intro a b h
    rw [lexLe_iff] at h ⊢
    rcases h with h | ⟨h1, h2⟩
    · exact Or.inl h
    · exact Or.inr ⟨h1, mul_le_mul_of_nonneg_left h2 hc.le⟩
  · exact (sortPairs_perm _).trans ((sortPairs_perm l).map _).symm

theorem lsum_map_mul (c : α) (l : List α) : lsum (l.map (c * ·)) = c * lsum l := by
  induction l with
  | nil => simp [lsum]
  | cons a l ih => simp only [lsum, List.map_cons, List.foldr_cons] at ih ⊢; rw [ih]; ring

/-- an array of weights scaled by any `c > 0` gives the same estimator ARGUMENTS (`prepare`); the
fit-level conclusion is `fit_scale_invariant` below. (Keyword weights and `None` are normalised by
construction; `c > 0` because a negative factor reverses the tie order of `lexsort`.) -/
theorem prepare_scale_invariant (E : Env α) (c : α) (hc : 0 < c) (data ws : List α) :
    prepare E (.array (ws.map (c * ·))) data = prepare E (.array ws) data := by
  unfold prepare
  simp only [sortedWithWeights, List.length_map]
  by_cases hl : data.length = ws.length
  · simp only [hl, ne_eq, not_true_eq_false, if_false]
    have hz : data.zip (ws.map (c * ·)) = (data.zip ws).map fun xw => (xw.1, c * xw.2) := by
      rw [List.zip_map_right]; rfl
    rw [hz, sortPairs_map_scale c hc, List.map_map, List.map_map]
    have hs : lsum (List.map (Prod.snd ∘ fun xw : α × α => (xw.1, c * xw.2)) (sortPairs (data.zip ws)))
        = c * lsum ((sortPairs (data.zip ws)).map Prod.snd) := by
      rw [← lsum_map_mul, List.map_map]; rfl
    rw [hs]
    congr 2
    apply List.map_congr_left
    intro xw _
    simp only [Function.comp]
    rw [mul_div_mul_left _ _ hc.ne']
  · simp only [ne_eq, hl, not_false_eq_true, if_true]

/-! ### the weights `_fit_lsq` hands to the estimator are non-negative -/

theorem lsum_eq_sum (l : List α) : lsum l = l.sum := by
  induction l with
  | nil => rfl
  | cons a l ih => simp only [lsum, List.foldr_cons, List.sum_cons] at ih ⊢; rw [ih]

theorem lsum_nonneg (l : List α) (h : ∀ a ∈ l, 0 ≤ a) : 0 ≤ lsum l := by
  rw [lsum_eq_sum]; exact List.sum_nonneg h

theorem lsum_perm (l l' : List α) (h : l.Perm l') : lsum l = lsum l' := by
  rw [lsum_eq_sum, lsum_eq_sum]; exact h.sum_eq

theorem kwWeights_nonneg (k : α → α) (xs : List α) (hk : ∀ x ∈ xs, 0 ≤ k x) :
    ∀ w ∈ kwWeights k xs, 0 ≤ w := by
  intro w hw
  simp only [kwWeights, List.mem_map] at hw
  obtain ⟨x, hx, rfl⟩ := hw
  apply div_nonneg (hk x hx)
  apply lsum_nonneg
  intro a ha
  obtain ⟨y, hy, rfl⟩ := List.mem_map.mp ha
  exact hk y hy

theorem attachPositions_w (E : Env α) (xw : List (α × α)) :
    (attachPositions E xw).map (·.w) = xw.map Prod.snd := by
  apply List.ext_getElem
  · simp [attachPositions]
  · intro i h1 h2
    simp [attachPositions]

/-- what the weight specification must satisfy for the weights to be non-negative: data ≥ 0 for
`'linear'` (`w ∝ x`), `0 ≤ np.power(x, 3)` for `'cubic'` (true for data ≥ 0), non-negative entries
for an array; nothing for `None` and `'quadratic'` -/
def SpecNonneg (E : Env α) (spec : WSpec α) (data : List α) : Prop :=
  match spec with
  | .none => True
  | .linear => ∀ x ∈ data, 0 ≤ x
  | .quadratic => True
  | .cubic => ∀ x ∈ data, 0 ≤ E.pow x (E.ofN 3)
  | .array ws => ∀ w ∈ ws, 0 ≤ w

theorem mem_sortData (data : List α) (x : α) : x ∈ sortData data ↔ x ∈ data :=
  (sortData_perm data).mem_iff

theorem sortedWithWeights_nonneg (E : Env α) (hN : ∀ n, 0 ≤ E.ofN n) (spec : WSpec α) (data : List α)
    (hsp : SpecNonneg E spec data) (xw : List (α × α)) (h : sortedWithWeights E spec data = .ok xw) :
    ∀ v ∈ xw, 0 ≤ v.2 := by
  have kw : ∀ (k : α → α), (∀ x ∈ data, 0 ≤ k x) →
      ∀ v ∈ (sortData data).zip (kwWeights k (sortData data)), 0 ≤ v.2 := by
    intro k hk v hv
    exact kwWeights_nonneg k (sortData data) (fun x hx => hk x ((mem_sortData data x).mp hx)) v.2
      (List.of_mem_zip hv).2
  cases spec with
  | none =>
    simp only [sortedWithWeights] at h
    injection h with h; subst h
    intro v hv
    obtain ⟨x, _, rfl⟩ := List.mem_map.mp hv
    exact div_nonneg zero_le_one (hN _)
  | linear =>
    simp only [sortedWithWeights] at h
    injection h with h; subst h
    exact kw (fun v => v) hsp
  | quadratic =>
    simp only [sortedWithWeights] at h
    injection h with h; subst h
    exact kw (fun v => v * v) (fun x _ => mul_self_nonneg x)
  | cubic =>
    simp only [sortedWithWeights] at h
    injection h with h; subst h
    exact kw (fun v => E.pow v (E.ofN 3)) hsp
  | array ws =>
    simp only [sortedWithWeights] at h
    by_cases hl : data.length = ws.length
    · simp only [hl, ne_eq, not_true_eq_false, if_false] at h
      injection h with h; subst h
      have hs : ∀ u ∈ sortPairs (data.zip ws), 0 ≤ u.2 := by
        intro u hu
        have hu' : u ∈ data.zip ws := (sortPairs_perm _).mem_iff.mp hu
        exact hsp u.2 (List.of_mem_zip hu').2
      intro v hv
      obtain ⟨u, hu, rfl⟩ := List.mem_map.mp hv
      apply div_nonneg (hs u hu)
      apply lsum_nonneg
      intro a ha
      obtain ⟨u', hu', rfl⟩ := List.mem_map.mp ha
      exact hs u' hu'
    · simp only [ne_eq, hl, not_false_eq_true, if_true] at h
      cases h

/-- **`prepare` yields non-negative weights** for every weight specification (`hN`: the int→float
conversion is non-negative, true for `fieldEnv`) -/
theorem prepare_weights_nonneg (E : Env α) (hN : ∀ n, 0 ≤ E.ofN n) (spec : WSpec α) (data : List α)
    (hsp : SpecNonneg E spec data) (pts : List (Pt α)) (h : prepare E spec data = .ok pts) :
    ∀ t ∈ pts, 0 ≤ t.w := by
  unfold prepare at h
  cases hs : sortedWithWeights E spec data with
  | error e => rw [hs] at h; cases h
  | ok xw =>
    rw [hs] at h
    injection h with h
    subst h
    intro t ht
    have hmem : t.w ∈ (attachPositions E xw).map (·.w) := List.mem_map.mpr ⟨t, ht, rfl⟩
    rw [attachPositions_w] at hmem
    obtain ⟨v, hv, hvw⟩ := List.mem_map.mp hmem
    rw [← hvw]
    exact sortedWithWeights_nonneg E hN spec data hsp xw hs v hv

/-- **Clause 1 at the level of the fit** (`fit(data, 'lsq'|'wlsq', weights)` with `f_delta`): whenever
`fitFixed` returns, for the data as sorted, positioned by rank and weighted by `_fit_lsq`
(`prepare`), the returned `(a_hat, 1/beta_hat)` minimise the weighted squared error of the linearised
quantile relation over the retained (non-zero) observations — for `None`, `'quadratic'`, `'linear'`
(data ≥ 0), `'cubic'` (`np.power(x,3) ≥ 0`) and any non-negative array. -/
theorem fitFixed_minimises (E : Env α) (hN : ∀ n, 0 ≤ E.ofN n) (spec : WSpec α) (δ : α)
    (data : List α) (hsp : SpecNonneg E spec data) (r : Est α)
    (h : fitFixed E spec δ data = .ok r) :
    ∃ pts, prepare E spec data = .ok pts ∧ (∀ t ∈ pts, 0 ≤ t.w) ∧
      ∀ a b, sse r.aHat (1 / r.betaHat) (design E δ pts) ≤ sse a b (design E δ pts) := by
  unfold fitFixed at h
  cases hp : prepare E spec data with
  | error e => rw [hp] at h; cases h
  | ok pts =>
    rw [hp] at h
    have hw := prepare_weights_nonneg E hN spec data hsp pts hp
    exact ⟨pts, rfl, hw, fun a b => estimate_minimises E δ pts r h hw a b⟩

/-- … stated for the RETURNED `alpha_hat`, `beta_hat` (not the internal `a_hat`): if `log10` inverts
`10 ** ·` (the contract of the numpy leaves; `alpha_hat = np.power(10, a_hat)`), then
`(log10 alpha_hat, 1/beta_hat)` is the minimiser. -/
theorem fitFixed_minimises_returned (E : Env α) (hN : ∀ n, 0 ≤ E.ofN n)
    (hlog : ∀ a, E.lg10 (E.pow (E.ofN 10) a) = a) (spec : WSpec α) (δ : α)
    (data : List α) (hsp : SpecNonneg E spec data) (r : Est α)
    (h : fitFixed E spec δ data = .ok r) :
    E.lg10 r.alphaHat = r.aHat ∧
    ∃ pts, prepare E spec data = .ok pts ∧
      ∀ a b, sse (E.lg10 r.alphaHat) (1 / r.betaHat) (design E δ pts) ≤ sse a b (design E δ pts) := by
  obtain ⟨pts, hp, _, hmin⟩ := fitFixed_minimises E hN spec δ data hsp r h
  have hα : E.lg10 r.alphaHat = r.aHat := by
    unfold fitFixed at h
    rw [hp] at h
    rw [(estimate_ok E δ pts r h).2, hlog]
  exact ⟨hα, pts, hp, fun a b => by rw [hα]; exact hmin a b⟩

/-! ### order independence and weight scaling, stated for the fit -/

/-- **The fit does not depend on the order of the data** (`None` and keyword weights): a permuted
sample gives the same result, error cases included; fixed delta and free delta (same optimiser). -/
theorem fit_order_independent (E : Env α) (spec : WSpec α) (hspec : ∀ ws, spec ≠ .array ws)
    (data data' : List α) (hp : data.Perm data') (δ : α) (search : (α → Except LsqErr α) → α → α) :
    fitFixed E spec δ data = fitFixed E spec δ data' ∧
    fitFree E search spec δ data = fitFree E search spec δ data' :=
  fit_eq_of_prepare_eq E spec spec data data' (order_independent E spec hspec data data' hp) δ search

/-- … with array weights: permuting data and weights JOINTLY gives the same result -/
theorem fit_order_independent_array (E : Env α) (data data' ws ws' : List α)
    (hl : data.length = ws.length) (hl' : data'.length = ws'.length)
    (hp : (data.zip ws).Perm (data'.zip ws')) (δ : α) (search : (α → Except LsqErr α) → α → α) :
    fitFixed E (.array ws) δ data = fitFixed E (.array ws') δ data' ∧
    fitFree E search (.array ws) δ data = fitFree E search (.array ws') δ data' :=
  fit_eq_of_prepare_eq E _ _ data data' (order_independent_array E data data' ws ws' hl hl' hp) δ search

/-- **Irrespective of how the weights are normalised, whole fit**: an array of weights scaled by any
`c > 0` gives the same fit, fixed and free delta (error cases included). -/
theorem fit_scale_invariant (E : Env α) (c : α) (hc : 0 < c) (data ws : List α) (δ : α)
    (search : (α → Except LsqErr α) → α → α) :
    fitFixed E (.array (ws.map (c * ·))) δ data = fitFixed E (.array ws) δ data ∧
    fitFree E search (.array (ws.map (c * ·))) δ data = fitFree E search (.array ws) δ data :=
  fit_eq_of_prepare_eq E _ _ data data (prepare_scale_invariant E c hc data ws) δ search

/-- **Weight `i` stays with datum `i`** (the positive half of #5b; `order_independent_array` alone is
also satisfied by a model that scrambles the weight column consistently): the (value, weight) pairs
handed to the estimator are a permutation of the given pairs `(data_i, ws_i / Σ ws)`. -/
theorem array_weight_stays_with_datum (E : Env α) (data ws : List α) (xw : List (α × α))
    (h : sortedWithWeights E (.array ws) data = .ok xw) :
    data.length = ws.length ∧
    xw.Perm ((data.zip ws).map fun q => (q.1, q.2 / lsum ws)) := by
  simp only [sortedWithWeights] at h
  by_cases hl : data.length = ws.length
  · simp only [hl, ne_eq, not_true_eq_false, if_false] at h
    injection h with h; subst h
    refine ⟨hl, ?_⟩
    have htot : lsum ((sortPairs (data.zip ws)).map Prod.snd) = lsum ws := by
      rw [lsum_perm _ _ ((sortPairs_perm (data.zip ws)).map Prod.snd), List.map_snd_zip (by omega)]
    rw [htot]
    exact (sortPairs_perm (data.zip ws)).map _
  · simp only [ne_eq, hl, not_false_eq_true, if_true] at h
    cases h

/-- the same for the prepared points: every point carries a given (datum, normalised weight) pair -/
theorem prepare_array_pairs (E : Env α) (data ws : List α) (pts : List (Pt α))
    (h : prepare E (.array ws) data = .ok pts) :
    (pts.map fun t => (t.x, t.w)).Perm ((data.zip ws).map fun q => (q.1, q.2 / lsum ws)) := by
  unfold prepare at h
  cases hs : sortedWithWeights E (.array ws) data with
  | error e => rw [hs] at h; cases h
  | ok xw =>
    rw [hs] at h
    injection h with h
    subst h
    have e : (attachPositions E xw).map (fun t => (t.x, t.w)) = xw := by
      apply List.ext_getElem
      · simp [attachPositions]
      · intro i h1 h2
        simp [attachPositions]
    rw [e]
    exact (array_weight_stays_with_datum E data ws xw hs).2

/-- non-vacuity of `fitFixed_minimises`: the hypotheses hold for `fieldEnv` and a concrete sample -/
example (lg10 ln : ℚ → ℚ) (pow : ℚ → ℚ → ℚ) :
    (∀ n, 0 ≤ (fieldEnv lg10 ln pow).ofN n) ∧
    SpecNonneg (fieldEnv lg10 ln pow) .linear [1, 2, 3] ∧
    SpecNonneg (fieldEnv lg10 ln pow) (.array [1, 0, 2]) [3, 1, 2] := by
  refine ⟨fun n => by simp [fieldEnv], ?_, ?_⟩
  · intro x hx; simp at hx; rcases hx with rfl | rfl | rfl <;> norm_num
  · intro x hx; simp at hx; rcases hx with rfl | rfl | rfl <;> norm_num

/-! ### free delta -/

/-- **Free delta (partial).** FULL CLAUSE: the returned delta is a local minimiser of
`wlsqError` (observed on the real code per run, `fmin` is scipy's). PROVEN: the optimiser is
handed the x-space error of the prepared data, and for whatever delta it returns the
reported `(alpha, beta)` are `_estimate_alpha_beta` at that delta — hence, by
`estimate_minimises`, the weighted-regression minimisers for the delta in force. -/
theorem free_delta_partial (E : Env α) (search : (α → Except LsqErr α) → α → α)
    (spec : WSpec α) (δ0 : α) (data : List α) (δ : α) (r : Est α)
    (h : fitFree E search spec δ0 data = .ok (δ, r)) :
    ∃ pts, prepare E spec data = .ok pts ∧ δ = search (fun d => wlsqError E d pts) δ0 ∧
      estimate E δ pts = .ok r ∧ fitFixed E spec δ data = .ok r := by
  unfold fitFree at h
  cases hp : prepare E spec data with
  | error e => rw [hp] at h; cases h
  | ok pts =>
    rw [hp] at h
    simp only at h
    cases he : estimate E (search (fun d => wlsqError E d pts) δ0) pts with
    | error e => rw [he] at h; cases h
    | ok r' =>
      rw [he] at h
      injection h with h
      injection h with h1 h2
      subst h1 h2
      refine ⟨pts, rfl, rfl, he, ?_⟩
      unfold fitFixed
      rw [hp]
      exact he

end VirVerif.C13
