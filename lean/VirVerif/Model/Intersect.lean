/-
Model of virocon/_intersection.py (`intersection`) and of
virocon/utils.py `calculate_design_conditions`.  Core Lean only (no Mathlib).

Carrier-polymorphic: at `Float` the driver executes it next to the real code, at `Rat`
the driver executes the intersection part exactly (reference for the rounding band of the
in-range filter); the theorems in `Properties/C17.lean` are about any ordered field.

What is modelled operation by operation (and what the code does there):
* `segs`          consecutive point pairs of a polyline (`x[:-1]`, `x[1:]`, `np.diff`);
* `bboxOverlap`   `_rectangle_intersection_`: C1 `min1 <= max2`, C2 `max1 >= min2` in x and in y;
* `segSolve`      the 4x4 system  `dx1 t1 - x0 = -x1`, `dx2 t2 - x0 = -x2`, `dy1 t1 - y0 = -y1`,
                  `dy2 t2 - y0 = -y2`  solved by Cramer's rule; `none` when the determinant
                  vanishes (`np.linalg.LinAlgError` -> `T = inf` -> not in range).  The real code
                  uses LAPACK `gesv`; the correspondence compares within `1e-9 * cond`;
* `inRange`       `(T0 >= 0) & (T1 >= 0) & (T0 <= 1) & (T1 <= 1)`  (closed at both ends);
* `intersect`     candidate pairs in `np.nonzero` (row-major) order, filtered;
* `designConditions`  column selection by `swap_axis`, closing the polygon with `coords[0]`,
                  default abscissae `np.linspace(min + s, max - s, num)` with
                  `s = 0.0001 * (max - min)`, the vertical probe segment
                  `[min y - m, max y + m]`, `m = 0.1 * (max y - min y)`, per abscissa the maximum
                  ordinate over ALL reported intersections, omission when there is none.
-/
import VirVerif.Model.Num
namespace VirVerif

/-- a segment from `(px, py)` to `(qx, qy)` -/
structure Seg (α : Type) where
  px : α
  py : α
  qx : α
  qy : α
  deriving DecidableEq

/-- consecutive segments of a polyline given by its vertices -/
def segs {α} : List (α × α) → List (Seg α)
  | p :: q :: rest => ⟨p.1, p.2, q.1, q.2⟩ :: segs (q :: rest)
  | _ => []

section generic
variable {α : Type} [LE α] [LT α] [DecidableLE α] [DecidableLT α]

def mn (a b : α) : α := if a ≤ b then a else b
def mx (a b : α) : α := if a ≤ b then b else a

/-- `_rectangle_intersection_` for one pair of segments -/
def bboxOverlap (s1 s2 : Seg α) : Bool :=
  decide (mn s1.px s1.qx ≤ mx s2.px s2.qx) && decide (mn s2.px s2.qx ≤ mx s1.px s1.qx) &&
  decide (mn s1.py s1.qy ≤ mx s2.py s2.qy) && decide (mn s2.py s2.qy ≤ mx s1.py s1.qy)

/-- solution `(t1, t2, x0, y0)` of the 4x4 system -/
structure Sol (α : Type) where
  t1 : α
  t2 : α
  x : α
  y : α

variable [Add α] [Sub α] [Mul α] [Div α] [OfNat α 0] [OfNat α 1]

/-- determinant of the reduced 2x2 system in `(t1, t2)`; zero iff the segments are parallel -/
def segDet (s1 s2 : Seg α) : α :=
  (s2.qx - s2.px) * (s1.qy - s1.py) - (s1.qx - s1.px) * (s2.qy - s2.py)

/-- Cramer's rule for `p1 + t1 d1 = p2 + t2 d2`; `none` for parallel segments -/
def segSolve (s1 s2 : Seg α) : Option (Sol α) :=
  let dx1 := s1.qx - s1.px
  let dy1 := s1.qy - s1.py
  let dx2 := s2.qx - s2.px
  let dy2 := s2.qy - s2.py
  let det := segDet s1 s2
  if det < 0 ∨ 0 < det then
    let ex := s2.px - s1.px
    let ey := s2.py - s1.py
    let t1 := (dx2 * ey - dy2 * ex) / det
    let t2 := (dx1 * ey - dy1 * ex) / det
    some ⟨t1, t2, s1.px + dx1 * t1, s1.py + dy1 * t1⟩
  else none

/-- the in-range filter of `intersection` (closed on both ends) -/
def inRange (r : Sol α) : Bool :=
  decide (0 ≤ r.t1) && decide (0 ≤ r.t2) && decide (r.t1 ≤ 1) && decide (r.t2 ≤ 1)

/-- what `intersection` reports for one pair of segments -/
def segInter (s1 s2 : Seg α) : Option (α × α) :=
  if bboxOverlap s1 s2 then
    match segSolve s1 s2 with
    | some r => if inRange r then some (r.x, r.y) else none
    | none => none
  else none

/-- `intersection(x1, y1, x2, y2)`: all segment pairs in row-major order -/
def intersect (P1 P2 : List (α × α)) : List (α × α) :=
  (segs P1).flatMap fun s1 => (segs P2).filterMap fun s2 => segInter s1 s2

/-! ### calculate_design_conditions -/

/-- `np.append(c, c[0])` -/
def closePoly {β} : List β → List β
  | [] => []
  | p :: ps => (p :: ps) ++ [p]

/-- the vertical probe segment's ordinates: `[min y - m, max y + m]`, `m = tenth * (max y - min y)` -/
def probeLimits (tenth : α) (ys : List α) : Option (α × α) :=
  match listMin ys, listMax ys with
  | some lo, some hi =>
    let m := tenth * (hi - lo)
    some (lo - m, hi + m)
  | _, _ => none

/-- the probe limits of the code before the repair: margin `0.1 * max y` (kept for the
counterexample theorem) -/
def probeLimitsOld (tenth : α) (ys : List α) : Option (α × α) :=
  match listMin ys, listMax ys with
  | some lo, some hi => some (lo - hi * tenth, hi + hi * tenth)
  | _, _ => none

/-- one abscissa: ordinates of all intersections of the closed polygon with the vertical probe
segment; the largest one, or `none` (omitted) when there is no intersection -/
def designStep (closed : List (α × α)) (ylo yhi x2 : α) : Option (α × α) :=
  match listMax ((intersect closed [(x2, ylo), (x2, yhi)]).map Prod.snd) with
  | none => none
  | some m => some (x2, m)

/-- the loop over the abscissae -/
def designCore (closed : List (α × α)) (ylo yhi : α) (steps : List α) : List (α × α) :=
  steps.filterMap (designStep closed ylo yhi)

/-- the two side conditions under which the probe segment `[ylo, yhi]` sees every point of the
closed polygon: it is non-degenerate and contains every vertex ordinate.  Decidable; the driver
evaluates it on the very values it hands to `designCore` (answer token `cover`), the harness
requires it for every contour that is not flat, and the theorems `design_core_*_covered` of
`Properties/C17.lean` take it as their only hypothesis. -/
def probeCovers (closed : List (α × α)) (ylo yhi : α) : Bool :=
  decide (ylo < yhi) && closed.all fun v => decide (ylo ≤ v.2) && decide (v.2 ≤ yhi)

/-- the code before the repair: `assert len(x) <= 2` -/
def designStepOld (closed : List (α × α)) (ylo yhi x2 : α) : Except Unit (Option (α × α)) :=
  let ys := (intersect closed [(x2, ylo), (x2, yhi)]).map Prod.snd
  if ys.length ≤ 2 then .ok (match listMax ys with | none => none | some m => some (x2, m))
  else .error ()

/-- `np.linspace(a, b, num, endpoint=True)` for scalar doubles (numpy 2.0):
`step = (b-a)/(num-1)`, entries `k*step + a` (or `(k/div)*(b-a) + a` when the step underflows to
zero), last entry overwritten by `b`; `num = 1` gives `[0*(b-a) + a]`. -/
def linspaceEnd (ofNat : Nat → α) (a b : α) (num : Nat) : List α :=
  match num with
  | 0 => []
  | 1 => [ofNat 0 * (b - a) + a]
  | n + 2 =>
    let div := ofNat (n + 1)
    let delta := b - a
    let step := delta / div
    let body := (List.range (n + 1)).map fun k =>
      if step < 0 ∨ 0 < step then ofNat k * step + a else (ofNat k / div) * delta + a
    body ++ [b]

/-- `default_lower_limit`, `default_upper_limit` -/
def defaultLimits (small : α) (xs : List α) : Option (α × α) :=
  match listMin xs, listMax xs with
  | some lo, some hi =>
    let sp := small * (hi - lo)
    some (lo + sp, hi - sp)
  | _, _ => none

/-- the `steps` argument: `None` (= 10 evenly spaced), an int, or an explicit list -/
inductive StepSpec (α : Type) where
  | default
  | count (n : Nat)
  | list (l : List α)

/-- what is computed before the loop: closed polygon, abscissae, probe ordinates -/
structure DesignSetup (α : Type) where
  closed : List (α × α)
  steps : List α
  ylo : α
  yhi : α
  deriving DecidableEq

def designSetup (tenth small : α) (ofNat : Nat → α) (coords : List (α × α)) (spec : StepSpec α)
    (swap : Bool) : Option (DesignSetup α) :=
  let x1 := closePoly (coords.map (if swap then Prod.snd else Prod.fst))
  let y1 := closePoly (coords.map (if swap then Prod.fst else Prod.snd))
  match defaultLimits small x1, probeLimits tenth y1 with
  | some (lo, hi), some (ylo, yhi) =>
    let steps := match spec with
      | .default => linspaceEnd ofNat lo hi 10
      | .count n => linspaceEnd ofNat lo hi n
      | .list l => l
    some ⟨x1.zip y1, steps, ylo, yhi⟩
  | _, _ => none   -- empty contour: `coords[0]` raises

/-- `calculate_design_conditions(contour, steps, swap_axis)`; `tenth`, `small` are the constants
`0.1` and `0.0001`, `ofNat` the int→float conversion -/
def designConditions (tenth small : α) (ofNat : Nat → α) (coords : List (α × α))
    (spec : StepSpec α) (swap : Bool) : Option (List (α × α)) :=
  match designSetup tenth small ofNat coords spec swap with
  | some s => some (designCore s.closed s.ylo s.yhi s.steps)
  | none => none

/-! ### detailed candidate listing (driver only: lets the harness see `t1`, `t2`) -/

/-- all bounding-box candidates `(i, j, solution)` in row-major order -/
def candidates (P1 P2 : List (α × α)) : List (Nat × Nat × Option (Sol α)) :=
  (segs P1).zipIdx.flatMap fun (s1, i) =>
    (segs P2).zipIdx.filterMap fun (s2, j) =>
      if bboxOverlap s1 s2 then some (i, j, segSolve s1 s2) else none

end generic
end VirVerif
