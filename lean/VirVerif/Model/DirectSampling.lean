/-
Model of `DirectSamplingContour._compute` (virocon/contours.py), core Lean only.

Carrier-polymorphic: at `Float` the driver executes it (bit-identical to numpy, checked by
the correspondence harness on every run; `cos`/`sin` are TABLE'd leaves); the theorems in
`Properties/C03.lean` are about any (ordered) field.

Code being modelled (after the closing-vertex repair, see `verticesOld` for the code before):

    rad_step = deg_step * np.pi / 180
    angles = np.arange(0.5*np.pi + 2*rad_step, -1.5*np.pi + rad_step, -1*rad_step)
    n_directions = int(round(360 / deg_step))
    angles = angles[1 : n_directions + 1]
    r[i] = np.quantile(x*np.cos(angles[i]) + y*np.sin(angles[i]), 1 - alpha)
    a = angles ++ [angles[0]];  r = r ++ [r[0]]
    den  = sin(a[1:])*cos(a[:-1]) - sin(a[:-1])*cos(a[1:])
    x    = (sin(a[1:])*r[:-1] - sin(a[:-1])*r[1:]) / den
    y    = (-cos(a[1:])*r[:-1] + cos(a[:-1])*r[1:]) / den
-/
import VirVerif.Model.Num
namespace VirVerif

/-- Intersection of the lines `c1*x + s1*y = r1` and `c2*x + s2*y = r2`, written with exactly
the operations of the code; `none` when the determinant is zero (the code divides by zero). -/
def lineInter {α} [Sub α] [Add α] [Mul α] [Div α] [Neg α] [OfNat α 0] [DecidableEq α]
    (c1 s1 r1 c2 s2 r2 : α) : Option (α × α) :=
  let d := s2 * c1 - s1 * c2
  if d = 0 then none else
  some ((s2 * r1 - s1 * r2) / d, (-c2 * r1 + c1 * r2) / d)

/-- `np.arange` values for a given length (numpy: first two entries `start`, `start+step`, the
rest `start + i*delta`, `delta = (start+step) - start`). `ofN` is the embedding of `Nat`. -/
def arangeVals {α} [Add α] [Sub α] [Mul α] (ofN : Nat → α) (start step : α) (n : Nat) : List α :=
  let delta := (start + step) - start
  (List.range n).map fun i =>
    if i = 0 then start else if i = 1 then start + step else start + ofN i * delta

/-- projections of the sample on the direction `(c, s)`: `x*cos + y*sin`. -/
def proj {α} [Add α] [Mul α] (c s : α) (pts : List (α × α)) : List α :=
  pts.map fun p => p.1 * c + p.2 * s

/-- numpy's `_lerp(a, b, t)`: `a + (b-a)*t`, replaced by `b - (b-a)*(1-t)` where `t >= 0.5`. -/
def lerp7 {α} [Add α] [Sub α] [Mul α] [LE α] [DecidableLE α] [OfNat α 1]
    (half a b g : α) : α :=
  let d := b - a
  if half ≤ g then b - d * (1 - g) else a + d * g

/-- `np.quantile(z, q)` (method "linear", Hyndman–Fan type 7): virtual index `(n-1)*q`,
`k = floor`, `g = index - k`, interpolate between the order statistics `k` and `k+1`
(`k = n-1`: the maximum). `fl` is the floor function, `ofN` the embedding of `Nat`. -/
def quantile7 {α} [Add α] [Sub α] [Mul α] [LE α] [DecidableLE α] [OfNat α 1]
    (fl : α → Nat) (ofN : Nat → α) (half : α) (z : List α) (q : α) : Option α :=
  let s := z.mergeSort (fun a b => decide (a ≤ b))
  let vi := ofN (s.length - 1) * q
  let k := fl vi
  let g := vi - ofN k
  match s[k]?, s[k + 1]? with
  | some a, some b => some (lerp7 half a b g)
  | some a, none => some a
  | none, _ => none

/-- consecutive pairs `(l[i], l[i+1])`. -/
def consecPairs {β} : List β → List (β × β)
  | a :: b :: rest => (a, b) :: consecPairs (b :: rest)
  | _ => []

/-- cyclic pairing used by the (repaired) code: `a = l ++ [l[0]]`, pairs `(a[i], a[i+1])`. -/
def cyclicPairs {β} : List β → List (β × β)
  | [] => []
  | a :: rest => consecPairs ((a :: rest) ++ [a])

/-- pairing of the code BEFORE the repair: `a = l ++ [l[0]]`, pairs `(a[i], a[i+1])` for
`i = 1 … len(a)-2` (index 0 is skipped). -/
def oldPairs {β} : List β → List (β × β)
  | [] => []
  | a :: rest => consecPairs (rest ++ [a])

/-- a tangent line: direction cosine, sine, offset. -/
structure TLine (α : Type) where
  c : α
  s : α
  r : α

def interLines {α} [Sub α] [Add α] [Mul α] [Div α] [Neg α] [OfNat α 0] [DecidableEq α]
    (p : TLine α × TLine α) : Option (α × α) :=
  lineInter p.1.c p.1.s p.1.r p.2.c p.2.s p.2.r

/-- vertices of the polygon: line `j` ∩ line `j+1`, the last one line `N-1` ∩ line `0`. -/
def vertices {α} [Sub α] [Add α] [Mul α] [Div α] [Neg α] [OfNat α 0] [DecidableEq α]
    (lines : List (TLine α)) : List (Option (α × α)) :=
  (cyclicPairs lines).map interLines

/-- vertices as computed before the repair. -/
def verticesOld {α} [Sub α] [Add α] [Mul α] [Div α] [Neg α] [OfNat α 0] [DecidableEq α]
    (lines : List (TLine α)) : List (Option (α × α)) :=
  (oldPairs lines).map interLines

/-- the tangent lines: for every direction the `q`-quantile of the projected sample. -/
def tangentLines {α} [Add α] [Sub α] [Mul α] [LE α] [DecidableLE α] [OfNat α 1]
    (fl : α → Nat) (ofN : Nat → α) (half : α) (cosT sinT : α → α)
    (pts : List (α × α)) (q : α) : List α → Option (List (TLine α))
  | [] => some []
  | th :: rest =>
    match quantile7 fl ofN half (proj (cosT th) (sinT th) pts) q,
        tangentLines fl ofN half cosT sinT pts q rest with
    | some r, some ls => some ({ c := cosT th, s := sinT th, r := r } :: ls)
    | _, _ => none

/-- one full turn of directions out of the `arange`: entries `1 … nDir`. -/
def oneTurn {β} (nDir : Nat) (angles : List β) : List β := (angles.drop 1).take nDir

/-- default sample size `n = int(100 / alpha)` given the quotient's floor. -/
def defaultN {α} [Div α] (fl : α → Nat) (hundred alpha : α) : Nat := fl (hundred / alpha)

/-! ### Float instance (what the driver runs) -/

def floorNatF (x : Float) : Nat := (Float.floor x).toUInt64.toNat

/-- Python's `round` (half to even) of a non-negative double, as a `Nat`. -/
def roundHalfEvenF (x : Float) : Nat :=
  let f := Float.floor x
  let d := x - f
  let k := f.toUInt64.toNat
  if d < 0.5 then k else if d > 0.5 then k + 1 else if k % 2 = 0 then k else k + 1

/-- the direction grid of the code. `pi` is passed in (it is `np.pi`). -/
def dsAnglesF (pi degStep : Float) : List Float :=
  let radStep := degStep * pi / 180.0
  let start := 0.5 * pi + 2.0 * radStep
  let stop := -1.5 * pi + radStep
  let step := -1.0 * radStep
  oneTurn (roundHalfEvenF (360.0 / degStep)) (arangeVals Float.ofNat start step (arangeLen start stop step))

/-- the direction grid before the repair (all `arange` entries). -/
def dsAnglesOldF (pi degStep : Float) : List Float :=
  let radStep := degStep * pi / 180.0
  let start := 0.5 * pi + 2.0 * radStep
  let stop := -1.5 * pi + radStep
  let step := -1.0 * radStep
  arangeVals Float.ofNat start step (arangeLen start stop step)

def dsContourF (cosT sinT : Float → Float) (pi degStep alpha : Float) (pts : List (Float × Float)) :
    Option (List (Option (Float × Float))) :=
  match tangentLines floorNatF Float.ofNat 0.5 cosT sinT pts (1.0 - alpha) (dsAnglesF pi degStep) with
  | some ls => some (vertices ls)
  | none => none

end VirVerif
