/-
Hierarchical joint models (jointmodels.py GlobalHierarchicalModel) and the chains that the
contour classes and the sampler run through them.  Core Lean only; carrier-polymorphic.

`c i` is `conditional_on[i]`; `Q i g p`, `F i g x`, `f i g x` are icdf / cdf / pdf of
dimension `i` given the conditioning value `g : Option α` (`none` for an unconditional
distribution).
-/
import VirVerif.Model.Num
namespace VirVerif

/-- conditioning value read from an (initialised) prefix/row: outer `none` = the code reads a
column that is not filled yet (`np.empty`/`np.zeros` garbage). -/
def readCond {α} (row : List α) : Option Nat → Option (Option α)
  | none => some none
  | some j => if h : j < row.length then some (some row[j]) else none

/-- inverse Rosenblatt chain of one row: dimension `i = acc.length` is computed from probability
`p` and the conditioning value found in the prefix `acc` (IFORM/ISORM `_compute`,
`draw_sample` with inverse-transform leaves). -/
def invRosAux {α} (c : Nat → Option Nat) (Q : Nat → Option α → α → α) :
    List α → List α → Option (List α)
  | acc, [] => some acc
  | acc, p :: ps =>
    match readCond acc (c acc.length) with
    | none => none
    | some g => invRosAux c Q (acc ++ [Q acc.length g p]) ps

def invRos {α} (c : Nat → Option Nat) (Q : Nat → Option α → α → α) (ps : List α) :=
  invRosAux c Q [] ps

/-- `mapM` in `Option`, written out (structural recursion, easy to reason about). -/
def optMapM {β γ} (f : β → Option γ) : List β → Option (List γ)
  | [] => some []
  | x :: xs =>
    match f x, optMapM f xs with
    | some y, some ys => some (y :: ys)
    | _, _ => none

/-- one component of the forward Rosenblatt transform -/
def rosAt {α} (c : Nat → Option Nat) (F : Nat → Option α → α → α) (row : List α) (i : Nat) :
    Option α :=
  match readCond row (c i), row[i]? with
  | some g, some x => some (F i g x)
  | _, _ => none

/-- forward Rosenblatt transform of a full row (every column is initialised). -/
def ros {α} (c : Nat → Option Nat) (F : Nat → Option α → α → α) (row : List α) :
    Option (List α) :=
  optMapM (rosAt c F row) (List.range row.length)

/-- joint density of one row: product of the (conditional) densities in dimension order,
starting from the first factor (`np.prod(fs, axis=-1)`). -/
def jointPdfRow {α} [Mul α] (c : Nat → Option Nat) (f : Nat → Option α → α → α) (one : α)
    (row : List α) : Option α :=
  (ros c f row).map fun fs => match fs with
    | [] => one
    | x :: xs => xs.foldl (· * ·) x

/-- contour in the original space: every sphere point `u` mapped through `Φ` and the chain. -/
def chainRows {α} (c : Nat → Option Nat) (Q : Nat → Option α → α → α) (Φ : α → α)
    (sphere : List (List α)) : Option (List (List α)) :=
  optMapM (fun u => invRos c Q (u.map Φ)) sphere

/-- `beta * unit_sphere_points` -/
def scaleRows {α} [Mul α] (β : α) (rows : List (List α)) : List (List α) :=
  rows.map fun r => r.map fun v => β * v

/-- 2-D circle of IFORM/ISORM: angles `np.linspace(0, 2π, n, endpoint=False)` (= `k*step`,
`step = 2π/n`, numpy adds the start `0`), points `(cos φ, sin φ)`. -/
def circleAngles (twoPi : Float) (n : Nat) : List Float :=
  (linspaceNoEnd 0.0 twoPi n).1

def circleRows {α} (cos sin : α → α) (angles : List α) : List (List α) :=
  angles.map fun φ => [cos φ, sin φ]

/-- joint sample by sequential inverse-transform sampling (`draw_sample` with inverse-transform
leaves): `us[i]` are the `n` uniforms consumed for dimension `i`; row `j` of dimension `i` is
conditioned on row `j` of column `c i`. -/
def sampleRows {α} (c : Nat → Option Nat) (Q : Nat → Option α → α → α)
    (usByRow : List (List α)) : Option (List (List α)) :=
  optMapM (fun u => invRos c Q u) usByRow

end VirVerif
