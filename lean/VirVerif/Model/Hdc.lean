/-
Model of HighestDensityContour's selection logic (contours.py `cumsum_biggest_until`,
threshold `fm`, warning fallback) and of the cell-averaged joint density.
Core Lean only; carrier-polymorphic.
-/
import VirVerif.Model.Num
namespace VirVerif

/-- items with cumulative weight `≤ limit`, exactly as the code does it: a *filter* over all
positions of the running sum (`sort_inds[cum_sum <= limit]`), not a prefix search. -/
def selItems {α β} [Add α] [LE α] [DecidableLE α] (w : β → α) (acc limit : α) : List β → List β
  | [] => []
  | x :: xs =>
    if acc + w x ≤ limit then x :: selItems w (acc + w x) limit xs
    else selItems w (acc + w x) limit xs

def exclItems {α β} [Add α] [LE α] [DecidableLE α] (w : β → α) (acc limit : α) : List β → List β
  | [] => []
  | x :: xs =>
    if acc + w x ≤ limit then exclItems w (acc + w x) limit xs
    else x :: exclItems w (acc + w x) limit xs

/-- `np.argsort(flat, kind="mergesort")[::-1]` on (value, flat index) pairs: stable ascending
merge sort, reversed. -/
def sortDesc {α} [LE α] [DecidableLE α] (vals : List α) : List (α × Nat) :=
  (vals.zipIdx.mergeSort (fun a b => decide (a.1 ≤ b.1))).reverse

inductive HdcErr where
  | emptySelection   -- `summed_flat_inds[-1]` on an empty selection: IndexError in the code
  | emptyArray
  | nanInput         -- `np.isnan(flat_array).any()`: ValueError("array contains nan.")
  deriving Repr, DecidableEq

structure SelResult (α : Type) where
  /-- flat indices of the selected cells, in descending-density order -/
  selected : List Nat
  /-- value of the cell added last (`last_summed`) -/
  last : α
  /-- `cum_sum[-1] < limit`: RuntimeWarning -/
  warn : Bool

/-- `cumsum_biggest_until(array, limit)` on the flattened array. -/
def cumsumBiggestUntil {α} [Add α] [LE α] [LT α] [DecidableLE α] [DecidableLT α]
    (zero : α) (vals : List α) (limit : α) : Except HdcErr (SelResult α) :=
  let sorted := sortDesc vals
  if sorted.isEmpty then .error .emptyArray else
  let total := sorted.foldl (fun a p => a + p.1) zero
  let sel := selItems Prod.fst zero limit sorted
  match sel.getLast? with
  | none => .error .emptySelection
  | some l => .ok { selected := sel.map Prod.snd, last := l.1, warn := decide (total < limit) }

/-- `cumsum_biggest_until` including its entry guard: an array that contains NaN is refused
(`ValueError("array contains nan.")`) before anything is sorted. -/
def cumsumBiggestUntilChecked {α} [Add α] [LE α] [LT α] [DecidableLE α] [DecidableLT α]
    (isNan : α → Bool) (zero : α) (vals : List α) (limit : α) : Except HdcErr (SelResult α) :=
  if vals.any isNan then .error .nanInput else cumsumBiggestUntil zero vals limit

/-- The region and threshold the contour uses: on a warning all cells and probability 0. -/
def hdrRegion {α} [Add α] [LE α] [LT α] [DecidableLE α] [DecidableLT α]
    (zero : α) (vals : List α) (limit : α) : Except HdcErr (List Nat × α × Bool) :=
  match cumsumBiggestUntil zero vals limit with
  | .error e => .error e
  | .ok r => if r.warn then .ok (List.range vals.length, zero, true) else .ok (r.selected, r.last, false)

/-! ### cell-averaged joint density on the grid (`cell_averaged_pdf`, `cell_averaged_joint_pdf`) -/

/-- all multi-indices of a grid with the given axis lengths, in C order (last axis fastest),
i.e. the order of `np.ravel`. -/
def multiIndices : List Nat → List (List Nat)
  | [] => [[]]
  | n :: rest => (List.range n).flatMap fun i => (multiIndices rest).map fun t => i :: t

/-- cell-averaged density of dimension `i` in the cell with multi-index `I`:
`(F(x + dx/2) − F(x − dx/2)) / dx` with `dx = coords[i][1] − coords[i][0]`, conditioned on the
cell-centre value of the conditioning dimension. -/
def cellAvgAt {α} [Add α] [Sub α] [Mul α] [Div α] [Inhabited α]
    (half : α) (c : Nat → Option Nat) (F : Nat → Option α → α → α)
    (coords : Array (Array α)) (I : Array Nat) (i : Nat) : α :=
  let ax := coords[i]!
  let x := ax[I[i]!]!
  let dx := ax[1]! - ax[0]!
  let g : Option α := match c i with
    | none => none
    | some j => some (coords[j]!)[I[j]!]!
  (F i g (x + half * dx) - F i g (x - half * dx)) / dx

/-- joint cell-averaged density: product over the dimensions in model order, starting from 1
(`np.multiply(fbar, …)` from an all-ones array). -/
def jointCellAt {α} [Add α] [Sub α] [Mul α] [Div α] [Inhabited α]
    (one half : α) (c : Nat → Option Nat) (F : Nat → Option α → α → α)
    (coords : Array (Array α)) (I : Array Nat) : α :=
  (List.range coords.size).foldl (fun acc i => acc * cellAvgAt half c F coords I i) one

/-- probability per cell: the density times every delta, in order (`cell_prob *= delta`). -/
def cellProbAt {α} [Add α] [Sub α] [Mul α] [Div α] [Inhabited α]
    (one half : α) (c : Nat → Option Nat) (F : Nat → Option α → α → α)
    (coords : Array (Array α)) (deltas : List α) (I : Array Nat) : α :=
  deltas.foldl (· * ·) (jointCellAt one half c F coords I)

/-- all cell probabilities, flattened in C order -/
def gridProbs {α} [Add α] [Sub α] [Mul α] [Div α] [Inhabited α]
    (one half : α) (c : Nat → Option Nat) (F : Nat → Option α → α → α)
    (coords : Array (Array α)) (deltas : List α) : List α :=
  (multiIndices (coords.toList.map Array.size)).map fun I =>
    cellProbAt one half c F coords deltas I.toArray

/-! ### numpy reshape / broadcasting of the per-dimension arrays -/

/-- shape `fbar_out_shape`: ones, except `la` at axis `a` and `lb` at axis `b` -/
def shape2 (n a la b lb : Nat) : List Nat :=
  (List.range n).map fun k => if k = a then la else if k = b then lb else 1

/-- C-order flat offset of the multi-index `I` in an array of the given shape, with numpy broadcasting
(an axis of length 1 ignores the index): Horner form over the first `k` axes. -/
def flatUpTo (shape : Nat → Nat) (I : Nat → Nat) : Nat → Nat
  | 0 => 0
  | k + 1 => flatUpTo shape I k * shape k + (if shape k = 1 then 0 else I k)


/-- grid axis of `_compute`: `np.arange(min, max + delta, delta)` -/
def gridAxis (lo hi delta : Float) : List Float := arange lo (hi + delta) delta

/-- `fm = prob_m / delta_0 / delta_1 …` -/
def fmOf {α} [Div α] (probM : α) (deltas : List α) : α := deltas.foldl (· / ·) probM

end VirVerif
