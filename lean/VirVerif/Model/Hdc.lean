/-
Model of HighestDensityContour's selection logic (contours.py `cumsum_biggest_until`,
threshold `fm`, warning fallback) and of the cell-averaged joint density.
Core Lean only; carrier-polymorphic.
-/
import VirVerif.Model.Num
namespace VirVerif

/-- items with cumulative weight `≤ limit`, exactly as the code does it: a *filter* over all
positions of the running sum (`sort_inds[cum_sum <= limit]`), not a prefix search. -/
def selItems {α β} [Add α] [LE α] [DecidableLE α] (w : β → α) (acc limit : α) : List β → List β
  | [] => []
  | x :: xs =>
    if acc + w x ≤ limit then x :: selItems w (acc + w x) limit xs
    else selItems w (acc + w x) limit xs

def exclItems {α β} [Add α] [LE α] [DecidableLE α] (w : β → α) (acc limit : α) : List β → List β
  | [] => []
  | x :: xs =>
    if acc + w x ≤ limit then exclItems w (acc + w x) limit xs
    else x :: exclItems w (acc + w x) limit xs

/-- `np.argsort(flat, kind="mergesort")[::-1]` on (value, flat index) pairs: stable ascending
merge sort, reversed. -/
def sortDesc {α} [LE α] [DecidableLE α] (vals : List α) : List (α × Nat) :=
  (vals.zipIdx.mergeSort (fun a b => decide (a.1 ≤ b.1))).reverse

inductive HdcErr where
  | emptySelection   -- `summed_flat_inds[-1]` on an empty selection: IndexError in the code
  | emptyArray
  deriving Repr, DecidableEq

structure SelResult (α : Type) where
  /-- flat indices of the selected cells, in descending-density order -/
  selected : List Nat
  /-- value of the cell added last (`last_summed`) -/
  last : α
  /-- `cum_sum[-1] < limit`: RuntimeWarning -/
  warn : Bool

/-- `cumsum_biggest_until(array, limit)` on the flattened array. -/
def cumsumBiggestUntil {α} [Add α] [LE α] [LT α] [DecidableLE α] [DecidableLT α]
    (zero : α) (vals : List α) (limit : α) : Except HdcErr (SelResult α) :=
  let sorted := sortDesc vals
  if sorted.isEmpty then .error .emptyArray else
  let total := sorted.foldl (fun a p => a + p.1) zero
  let sel := selItems Prod.fst zero limit sorted
  match sel.getLast? with
  | none => .error .emptySelection
  | some l => .ok { selected := sel.map Prod.snd, last := l.1, warn := decide (total < limit) }

/-- The region and threshold the contour uses: on a warning all cells and probability 0. -/
def hdrRegion {α} [Add α] [LE α] [LT α] [DecidableLE α] [DecidableLT α]
    (zero : α) (vals : List α) (limit : α) : Except HdcErr (List Nat × α × Bool) :=
  match cumsumBiggestUntil zero vals limit with
  | .error e => .error e
  | .ok r => if r.warn then .ok (List.range vals.length, zero, true) else .ok (r.selected, r.last, false)

end VirVerif
