/-
Sampling logic of jointmodels.py `draw_sample` / distributions.py `_get_rvs_size`,
`ConditionalDistribution.draw_sample`. Core Lean only.
-/
import VirVerif.Model.Hier
namespace VirVerif

/-- The random stream is consumed dimension by dimension: dimension `i` uses the `n` values
`stream[i*n … (i+1)*n)`; row `j` of the sample is driven by `stream[i*n + j]`, `i = 0…d-1`. -/
def streamToRows {α} (n d : Nat) (stream : Array α) : List (List (Option α)) :=
  (List.range n).map fun j => (List.range d).map fun i => stream[i * n + j]?

/-- a distribution parameter as the sampler sees it: a scalar or a vector of some length -/
inductive ParShape where
  | scalar
  | vector (len : Nat)
  deriving Repr, DecidableEq

/-- `size` argument computed by `Distribution._get_rvs_size(n, pars)`: `(n, len)` of the last
vector-valued parameter if there is one, else `n`. -/
inductive RvsSize where
  | flat (n : Nat)
  | matrix (n len : Nat)
  deriving Repr, DecidableEq

def vecLen? : ParShape → Option Nat
  | .vector l => some l
  | .scalar => none

def rvsSize (n : Nat) (pars : List ParShape) : RvsSize :=
  match (pars.filterMap vecLen?).getLast? with
  | some l => .matrix n l
  | none => .flat n

/-- `ConditionalDistribution.draw_sample(n, given)`: every parameter value is broadcast to the
shape of `given`, so a dependence function that returns a scalar for a vector argument still
yields one parameter value — and hence one draw — per conditioning value. -/
def condParShapes (givenLen : Option Nat) (raw : List ParShape) : List ParShape :=
  match givenLen with
  | none => raw
  | some m => raw.map fun p => match p with
    | .scalar => .vector m
    | .vector l => .vector l

/-- number of values drawn for a conditional dimension in `GlobalHierarchicalModel.draw_sample`
(`dist.draw_sample(1, conditioning_values)` with `N` conditioning values) -/
def condDrawCount (N : Nat) (raw : List ParShape) : Nat :=
  match rvsSize 1 (condParShapes (some N) raw) with
  | .flat n => n
  | .matrix n l => n * l

end VirVerif
