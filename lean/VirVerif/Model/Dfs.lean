/-
Model of `sort_points_to_form_continuous_line` (utils.py):

    G = NearestNeighbors(n_neighbors=2).fit(points).kneighbors_graph()   -- leaf: k-NN lists
    T = nx.from_scipy_sparse_array(G)           -- undirected graph, edges inserted row by row
    order = list(nx.dfs_preorder_nodes(T, start))
    (fix #15) while points are missing: continue with the DFS preorder of the unvisited point
              nearest to the last visited one, skipping visited nodes
    search_for_optimal_start: start = argmin_i cost(order_i), first minimum, cost = sum of squared
              distances between consecutive points

Core Lean only.  `dfsAux`/`dfsPreorder` are the development of DESIGN Appendix A.7.
-/
namespace VirVerif

/-- DFS preorder with an explicit pending list: neighbours are pushed in front, in adjacency
order; a node is emitted the first time it is popped. This is the order of
`networkx.dfs_preorder_nodes`. `visited` is in visiting order. -/
def dfsAux (adj : Nat → List Nat) : Nat → List Nat → List Nat → List Nat
  | 0, _, visited => visited
  | _ + 1, [], visited => visited
  | fuel + 1, v :: rest, visited =>
    if v ∈ visited then dfsAux adj fuel rest visited
    else dfsAux adj fuel (adj v ++ rest) (visited ++ [v])

def dfsPreorder (adj : Nat → List Nat) (fuel start : Nat) : List Nat := dfsAux adj fuel [start] []

/-! ### adjacency by sequential edge insertion (networkx `Graph.add_edge`, dict order) -/

/-- `adj[u][v] = …`: appended to `u`'s neighbour list unless already present -/
def addNbr (adj : Array (List Nat)) (u v : Nat) : Array (List Nat) :=
  let l := adj.getD u []
  if v ∈ l then adj else adj.setIfInBounds u (l ++ [v])

def addEdge (adj : Array (List Nat)) (u v : Nat) : Array (List Nat) :=
  addNbr (addNbr adj u v) v u

/-- graph on nodes `0..n-1` from the k-NN lists: row `u` lists the neighbours of `u`, nearest
first (CSR row order); every `(u, v)` is inserted as an undirected edge, row by row. -/
def buildAdj (knn : List (List Nat)) : Array (List Nat) :=
  (knn.zipIdx).foldl (fun adj (row, u) => row.foldl (fun a v => addEdge a u v) adj)
    (Array.replicate knn.length [])

def adjFn (a : Array (List Nat)) : Nat → List Nat := fun v => a.getD v []

/-- every neighbour list stays inside `0..n-1` (decidable; the driver evaluates it) -/
def closedB (n : Nat) (adj : Nat → List Nat) : Bool :=
  (List.range n).all fun u => (adj u).all fun w => decide (w < n)

/-- enough fuel for a complete traversal: one step per node visit plus one per pushed entry -/
def dfsFuel (n : Nat) (adj : Nat → List Nat) : Nat :=
  (((List.range n).map fun u => 1 + (adj u).length).sum) + 2

/-! ### path cost and optimal start -/

/-- `(((ordered[:-1] - ordered[1:]) ** 2).sum(1)).sum()` with a sequential outer sum -/
def pathCost {α} [Add α] (zero : α) (d : Nat → Nat → α) : List Nat → α
  | a :: b :: rest => d a b + pathCost zero d (b :: rest)
  | _ => zero

/-- left-to-right accumulation, the order numpy uses for short arrays -/
def pathCostL {α} [Add α] (zero : α) (d : Nat → Nat → α) (order : List Nat) : α :=
  (order.zip order.tail).foldl (fun acc p => acc + d p.1 p.2) zero

/-- `argmin` with strict `<` from `mindist = inf`, `minidx = 0`: first minimum -/
def argminFirst {α} [LT α] [DecidableLT α] (cost : Nat → α) : List Nat → Option Nat
  | [] => none
  | i :: rest =>
    match argminFirst cost rest with
    | none => some i
    | some j => if cost j < cost i then some j else some i

/-! ### the sorter -/

/-- code before fix #15: the order is the DFS preorder of the start node alone -/
def sorterOld (adj : Nat → List Nat) (n start : Nat) : List Nat :=
  dfsPreorder adj (dfsFuel n adj) start

/-- continuation of fix #15: `rest` are the unvisited nodes in increasing order
(`np.flatnonzero(~visited)`).  As long as it is not empty, take its element nearest (first minimum
of `d last ·`) to the last visited point and append the not yet visited part of that node's DFS
preorder. -/
def completeOrder {α} [LT α] [DecidableLT α] (adj : Nat → List Nat) (d : Nat → Nat → α)
    (fuel : Nat) : Nat → List Nat → List Nat → List Nat
  | 0, order, _ => order
  | k + 1, order, rest =>
    match order.getLast? with
    | none => order
    | some last =>
      match argminFirst (d last) rest with
      | none => order
      | some nxt =>
        let chunk := (dfsPreorder adj fuel nxt).filter fun i => i ∈ rest
        completeOrder adj d fuel k (order ++ chunk) (rest.filter fun i => i ∉ chunk)

/-- order returned for a given start node (after fix #15) -/
def sorterFrom {α} [LT α] [DecidableLT α] (adj : Nat → List Nat) (d : Nat → Nat → α)
    (n start : Nat) : List Nat :=
  let o := sorterOld adj n start
  completeOrder adj d (dfsFuel n adj) n o ((List.range n).filter fun i => i ∉ o)

/-- `search_for_optimal_start`: all start nodes, cheapest path, first minimum -/
def optimalStart {α} [Add α] [LT α] [DecidableLT α] (zero : α) (path : Nat → List Nat)
    (d : Nat → Nat → α) (n : Nat) : Option Nat :=
  argminFirst (fun i => pathCostL zero d (path i)) (List.range n)

end VirVerif
