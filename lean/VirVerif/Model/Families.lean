/-
Model for C05 / C11 (virocon/distributions.py), core Lean only.

Three parts:

1. `PExpr`: the expression language in which the *translator by sentinel execution*
   (harness/sentinel.py) records what the real code does with symbolic parameters:
   which value reaches which argument of which scipy.stats method, what a constructor
   stores, which keywords `_fit_mle` hands to `scipy.stats.<d>.fit`.  The generated
   files `Generated/ParamMap.lean`, `Generated/FitKeywords.lean` contain only table
   literals of the row types below.

2. The *laws* as decidable predicates over those rows (`getRowOk`, `ctorRowOk`,
   `fitRowOk`, ...) and the model of scipy's fit-keyword grammar (`fitTarget`), so that
   `Properties/C05.lean`, `Properties/C11.lean` can close the table theorems by `decide`
   against what the code says on this run.

3. The documented formulas of the closed-form families and scipy's (shape, loc, scale)
   form, carrier-polymorphic over a record `Tr α` of transcendental operations: at `Float`
   the driver evaluates them (numeric correspondence), at `ℝ` (with `Real.exp/log/rpow`)
   the analytic theorems are about them.
-/
namespace VirVerif

/-! ## 1. expressions recorded by the sentinel run -/

/-- Symbolic value.  Leaves: `arg p` = value passed to the constructor for parameter number
`p` (position in the family's `parameters` dict), `farg p` = value passed as `f_<p>`,
`expl p` = value passed explicitly to cdf/icdf/pdf, `dep p` = value of the dependence
function of a `ConditionalDistribution` for parameter `p`, `est j` = slot `j` of what
`scipy.stats.<d>.fit` returned (`j ≥ 100`: a statistic computed from the sample),
`int`/`bits` = literal constants (`bits` = IEEE double bit pattern of a non-integer). -/
inductive PExpr where
  | arg (p : Nat)
  | farg (p : Nat)
  | expl (p : Nat)
  | dep (p : Nat)
  | est (j : Nat)
  | int (n : Int)
  | bits (b : Nat)
  | add (a b : PExpr)
  | sub (a b : PExpr)
  | mul (a b : PExpr)
  | div (a b : PExpr)
  | pow (a b : PExpr)
  | neg (a : PExpr)
  | exp (a : PExpr)
  | log (a : PExpr)
  | sqrt (a : PExpr)
  deriving DecidableEq, Repr, Inhabited

namespace PExpr

/-- replace every `arg p` leaf by `f p` -/
def substArg (f : Nat → PExpr) : PExpr → PExpr
  | arg p => f p
  | add a b => add (a.substArg f) (b.substArg f)
  | sub a b => sub (a.substArg f) (b.substArg f)
  | mul a b => mul (a.substArg f) (b.substArg f)
  | div a b => div (a.substArg f) (b.substArg f)
  | pow a b => pow (a.substArg f) (b.substArg f)
  | neg a => neg (a.substArg f)
  | exp a => exp (a.substArg f)
  | log a => log (a.substArg f)
  | sqrt a => sqrt (a.substArg f)
  | e => e

/-- replace every `est j` leaf by `f j` (the contract of `fit`: a fixed slot is returned
unchanged) -/
def substEst (f : Nat → PExpr) : PExpr → PExpr
  | est j => f j
  | add a b => add (a.substEst f) (b.substEst f)
  | sub a b => sub (a.substEst f) (b.substEst f)
  | mul a b => mul (a.substEst f) (b.substEst f)
  | div a b => div (a.substEst f) (b.substEst f)
  | pow a b => pow (a.substEst f) (b.substEst f)
  | neg a => neg (a.substEst f)
  | exp a => exp (a.substEst f)
  | log a => log (a.substEst f)
  | sqrt a => sqrt (a.substEst f)
  | e => e

/-- parameter numbers occurring in `arg` leaves -/
def argParams : PExpr → List Nat
  | arg p => [p]
  | add a b | sub a b | mul a b | div a b | pow a b => a.argParams ++ b.argParams
  | neg a | exp a | log a | sqrt a => a.argParams
  | _ => []

/-- does the expression depend on something estimated from data? -/
def hasEst : PExpr → Bool
  | est _ => true
  | add a b | sub a b | mul a b | div a b | pow a b => a.hasEst || b.hasEst
  | neg a | exp a | log a | sqrt a => a.hasEst
  | _ => false

/-- no leaf other than literal constants -/
def isConst : PExpr → Bool
  | int _ | bits _ => true
  | add a b | sub a b | mul a b | div a b | pow a b => a.isConst && b.isConst
  | neg a | exp a | log a | sqrt a => a.isConst
  | _ => false

/-- Cancel the inverse pairs through which virocon stores a scipy slot as its own
parameter: `log (exp e) ↦ e` (LogNormal: `mu = log(scale)`, `scale = exp(mu)`),
`1 / (1 / e) ↦ e` (GeneralizedGamma: `lambda_ = 1/scale`, `scale = 1/lambda_`).
Sound over ℝ for `e ≠ 0` in the second case (`C11.simpInv_sound`). -/
def simpInv : PExpr → PExpr
  | log (exp e) => e
  | div (int 1) (div (int 1) e) => e
  | e => e

end PExpr

/-- transcendental operations of a carrier -/
structure Tr (α : Type) where
  exp : α → α
  log : α → α
  pow : α → α → α
  sqrt : α → α
  cos : α → α
  pi : α

/-- valuation of the leaves -/
structure Env (α : Type) where
  arg : Nat → α
  farg : Nat → α
  expl : Nat → α
  dep : Nat → α
  est : Nat → α
  ofInt : Int → α
  ofBits : Nat → α

def PExpr.eval {α} [Add α] [Sub α] [Mul α] [Div α] [Neg α] (T : Tr α) (ρ : Env α) : PExpr → α
  | .arg p => ρ.arg p
  | .farg p => ρ.farg p
  | .expl p => ρ.expl p
  | .dep p => ρ.dep p
  | .est j => ρ.est j
  | .int n => ρ.ofInt n
  | .bits b => ρ.ofBits b
  | .add a b => a.eval T ρ + b.eval T ρ
  | .sub a b => a.eval T ρ - b.eval T ρ
  | .mul a b => a.eval T ρ * b.eval T ρ
  | .div a b => a.eval T ρ / b.eval T ρ
  | .pow a b => T.pow (a.eval T ρ) (b.eval T ρ)
  | .neg a => - a.eval T ρ
  | .exp a => T.exp (a.eval T ρ)
  | .log a => T.log (a.eval T ρ)
  | .sqrt a => T.sqrt (a.eval T ρ)

/-! ## 2. table rows and laws -/

/-- a distribution family as the harness found it -/
structure Family where
  name : String
  params : List String
  deriving DecidableEq, Repr

/-- all sublists of `[0, …, k-1]` in increasing order (the subsets of parameter numbers) -/
def subsetsBelow : Nat → List (List Nat)
  | 0 => [[]]
  | k + 1 => (subsetsBelow k) ++ (subsetsBelow k).map (· ++ [k])

/-- One recorded call of a public evaluation method.
`fam` = index into the generated `families` list; `meth`: 0 = cdf, 1 = icdf, 2 = pdf; `fixed` = parameters given as `f_<p>` to the constructor (all
parameters are also given as plain values); `expl` = parameters passed explicitly to the
method; `mode`: 0 = explicit parameters by keyword, 3 = first explicit one by position and the others by keyword, 1 = positionally (with `None` for the
others), 2 = through a `ConditionalDistribution` (every non-fixed parameter has a dependence
function, `expl` = all); `result` = `none` if the call raised, else (scipy distribution
name, scipy method name, arguments after `x`). -/
structure GetRow where
  fam : Nat
  meth : Nat
  fixed : List Nat
  expl : List Nat
  mode : Nat
  result : Option (String × String × List PExpr)
  deriving DecidableEq, Repr

def scipyMethodOf (meth : Nat) : String :=
  if meth = 0 then "cdf" else if meth = 1 then "ppf" else "pdf"

/-- the row of the plain call `Dist(**θ).m(x)` -/
def baseRow (rows : List GetRow) (fam meth : Nat) : Option GetRow :=
  rows.find? fun r => r.fam == fam && r.meth == meth && r.fixed == [] && r.expl == [] && r.mode == 0

/-- slot expressions of `Dist(**θ).cdf(x)` over `arg` leaves (the family's parameter map) -/
def baseSlots (rows : List GetRow) (fam : Nat) : Option (String × List PExpr) :=
  match baseRow rows fam 0 with
  | some { result := some (d, _, s), .. } => some (d, s)
  | _ => none

/-- what a parameter is worth in a call: explicit beats stored; stored = fixed value if the
constructor got `f_<p>`, else the constructor value. In mode 2 the explicit value of a fixed
parameter is the fixed value and that of a free parameter the dependence function's value. -/
def leafFor (r : GetRow) (p : Nat) : PExpr :=
  if r.mode = 2 then (if p ∈ r.fixed then .farg p else .dep p)
  else if p ∈ r.expl then .expl p
  else if p ∈ r.fixed then .farg p
  else .arg p

/-- **override law** for one row that returned, relative to the family's parameter map
`base = (scipy distribution, cdf-arguments of the plain instance over `arg` leaves)`: same scipy
distribution, the scipy method that belongs to the virocon method, and arguments = the map with
each parameter replaced by the value that holds in this call. -/
def getRowOkWith (base : Option (String × List PExpr)) (r : GetRow) : Bool :=
  match r.result, base with
  | some (d, m, s), some (d0, s0) =>
      d == d0 && m == scipyMethodOf r.meth && s == s0.map (PExpr.substArg (leafFor r))
  | none, _ => true
  | _, none => false

/-- the override law for the whole table: `bases[i]` is what the table itself records for the
plain `cdf` call of family `i`, and every row of family `i` obeys the law relative to it -/
def getTableOk (bases : List (String × List PExpr)) (rows : List GetRow) : Bool :=
  ((List.range bases.length).all fun i => baseSlots rows i == bases[i]?) &&
  rows.all fun r => getRowOkWith bases[r.fam]? r

def getRowOk (rows : List GetRow) (r : GetRow) : Bool := getRowOkWith (baseSlots rows r.fam) r

/-- the only refusal that is documented: LogNormalNormFit with exactly one of its two
parameters explicit -/
def raiseDocumented (fams : List Family) (r : GetRow) : Bool :=
  r.expl.length == 1 && r.mode != 2 &&
    (fams[r.fam]?.map (·.name)) == some "LogNormalNormFitDistribution"

def raiseOk (fams : List Family) (r : GetRow) : Bool :=
  match r.result with
  | none => raiseDocumented fams r
  | some _ => !(raiseDocumented fams r)

/-- exhaustiveness of the generated table: every family × method × subset of explicit
parameters × calling convention (0 by name, 1 by position, 3 mixed), and every subset of fixed parameters with nothing / everything
explicit and through a ConditionalDistribution -/
def getTableComplete (fams : List Family) (rows : List GetRow) : Bool :=
  (List.range fams.length).all fun i =>
    match fams[i]? with
    | none => false
    | some f =>
    let rs := rows.filter fun r => r.fam == i
    [0, 1, 2].all fun m =>
      let subs := subsetsBelow f.params.length
      let full := List.range f.params.length
      (subs.all fun E => [0, 1].all fun mode =>
        rs.any fun r => r.meth == m && r.fixed == [] && r.expl == E && r.mode == mode) &&
      -- mode 3: first explicit parameter by position, the others by name (needs two explicit parameters)
      (subs.all fun E => E.length < 2 ||
        rs.any fun r => r.meth == m && r.fixed == [] && r.expl == E && r.mode == 3) &&
      (subs.all fun F =>
        (rs.any fun r => r.meth == m && r.fixed == F && r.expl == [] && r.mode == 0) &&
        (rs.any fun r => r.meth == m && r.fixed == F && r.expl == full && r.mode == 0) &&
        (F == [] || rs.any fun r => r.meth == m && r.fixed == F && r.expl == full && r.mode == 2))

/-- One recorded constructor call. `given` = parameters passed as plain values, `fixed` = passed
as `f_<p>`; `order`: 0 = `Dist(**values, **fixed)`, 1 = `Dist(**fixed, **values)`,
2 = `Dist(*values, **fixed)` (then `given` is a prefix), 3 = `Dist(**values, **fixed, f_<q>=None for every free q)`
(a free parameter explicitly declared not fixed). `params` = the values of
`.parameters` afterwards, `fattrs` = the `f_<p>` attributes (`none` = Python `None`). -/
structure CtorRow where
  fam : Nat
  given : List Nat
  fixed : List Nat
  order : Nat
  result : Option (List PExpr × List (Option PExpr))
  deriving DecidableEq, Repr

/-- **fixed wins**: the row records exactly one value and one `f_` attribute per parameter of the
family (`ps.length = fs.length = f.params.length`: a table that dropped a parameter is rejected);
a fixed parameter is the fixed value and remembered as fixed; a free one is the given value (or a
literal default) and not marked fixed. -/
def ctorRowOk (fams : List Family) (r : CtorRow) : Bool :=
  match r.result, fams[r.fam]? with
  | some (ps, fs), some f =>
    ps.length == f.params.length && fs.length == f.params.length &&
    (List.range f.params.length).all fun p =>
      if p ∈ r.fixed then ps[p]? == some (.farg p) && fs[p]? == some (some (.farg p))
      else fs[p]? == some none &&
        (if p ∈ r.given then ps[p]? == some (.arg p) else (ps[p]?.map PExpr.isConst) == some true)
  | _, _ => false

def ctorTableComplete (fams : List Family) (rows : List CtorRow) : Bool :=
  (List.range fams.length).all fun i =>
    match fams[i]? with
    | none => false
    | some f =>
    let rs := rows.filter fun r => r.fam == i
    let subs := subsetsBelow f.params.length
    let full := List.range f.params.length
    subs.all fun F =>
      ([0, 1, 2, 3].all fun o =>
        rs.any fun r => r.fixed == F && r.given == full && r.order == o) &&
      (rs.any fun r => r.fixed == F && r.given == [] && r.order == 0)

/-- `ConditionalDistribution._get_param_values(given)` for a template with `fixed` parameters
fixed and a dependence function for every other one -/
structure CondRow where
  fam : Nat
  fixed : List Nat
  result : Option (List PExpr)
  deriving DecidableEq, Repr

/-- one value per parameter of the family (`ps.length = f.params.length`), the fixed value for a
fixed parameter, the dependence function's value for any other -/
def condRowOk (fams : List Family) (r : CondRow) : Bool :=
  match r.result, fams[r.fam]? with
  | some ps, some f =>
    ps.length == f.params.length &&
    (List.range f.params.length).all fun p =>
      ps[p]? == some (if p ∈ r.fixed then .farg p else .dep p)
  | _, _ => false

/-! ### scipy's fit contract (`rv_continuous.fit`, `_reduce_func`, `_check_fit_input_parameters`) -/

def digitVal (c : Char) : Option Nat :=
  if c = '0' then some 0 else if c = '1' then some 1 else if c = '2' then some 2
  else if c = '3' then some 3 else if c = '4' then some 4 else if c = '5' then some 5
  else if c = '6' then some 6 else if c = '7' then some 7 else if c = '8' then some 8
  else if c = '9' then some 9 else none

/-- value of a *canonical* decimal numeral (scipy builds the names as `'f%d' % i`, so `f00` is
not a keyword) -/
def natOfDigits : List Char → Option Nat
  | [] => none
  | '0' :: _ :: _ => none
  | cs => cs.foldl (fun acc c => match acc, digitVal c with
      | some a, some d => some (10 * a + d)
      | _, _ => none) (some 0)

def indexOfStr (names : List String) (s : String) : Option Nat :=
  let i := names.findIdx (· == s)
  if i < names.length then some i else none

/-- Which slot of `(shape_0, …, shape_{n-1}, loc, scale)` a keyword of
`scipy.stats.<d>.fit(data, *starts, **kwds)` fixes, for a distribution with the given shape
names; `none` = not a fixing keyword of the grammar (`f0…`, `f<shape>`, `fix_<shape>`, `floc`,
`fscale`) ⇒ scipy raises `TypeError("Unknown arguments")`. -/
def fitTarget (shapes : List String) (kw : String) : Option Nat :=
  let n := shapes.length
  if kw = "floc" then some n
  else if kw = "fscale" then some (n + 1)
  else match kw.toList with
    | 'f' :: 'i' :: 'x' :: '_' :: rest => indexOfStr shapes (String.ofList rest)
    | 'f' :: rest =>
      match natOfDigits rest with
      | some i => if i < n then some i else none
      | none => indexOfStr shapes (String.ofList rest)
    | _ => none

/-- keywords of `fit` that are not fixing keywords but accepted -/
def fitOtherKw (kw : String) : Bool :=
  kw == "loc" || kw == "scale" || kw == "optimizer" || kw == "method"

inductive FitOutcome where
  /-- `scipy.stats.<dist>.fit(sample, *starts, **kws)` was called once -/
  | called (dist : String) (starts : List PExpr) (kws : List (String × PExpr))
  /-- returned without calling scipy -/
  | notCalled
  | raised (exc : String)
  deriving DecidableEq, Repr

/-- One recorded `_fit_mle` run: `fixed` parameters fixed; `after` = `.parameters` afterwards
when `fit` returns the fresh values `est 0, est 1, …` for its slots. -/
structure FitRow where
  fam : Nat
  fixed : List Nat
  outcome : FitOutcome
  after : List PExpr
  deriving DecidableEq, Repr

/-- value a keyword list fixes slot `j` to (first keyword targeting it) -/
def fixedValue (shapes : List String) (kws : List (String × PExpr)) (j : Nat) : Option PExpr :=
  (kws.find? fun kw => fitTarget shapes kw.1 == some j).map (·.2)

/-- the slot expression the family's parameter map puts into slot `j`, with scipy's defaults for
slots the family does not pass (`loc = 0`, `scale = 1`) -/
def slotExpr (nShapes : Nat) (slots : List PExpr) (j : Nat) : PExpr :=
  match slots[j]? with
  | some e => e
  | none => if j = nShapes then .int 0 else .int 1

/-- What must be pinned in slot `j` when the parameters `S` are fixed: a constant slot at its
constant; a slot that is a function of fixed parameters only at that function of the fixed
values; a slot of free parameters must stay free. `none` (outer) = the slot mixes fixed and free
parameters, which keywords cannot express. -/
def expectedFix (S : List Nat) (e : PExpr) : Option (Option PExpr) :=
  let ps := e.argParams
  if ps.all (· ∈ S) then some (some (e.substArg .farg))
  else if ps.all (fun p => !(p ∈ S)) then some none
  else none

/-- accepted by the grammar, no slot fixed twice, something left to optimise -/
def kwsAccepted (shapes : List String) (kws : List (String × PExpr)) : Bool :=
  let n := shapes.length
  let fixing := kws.filter fun kw => !(fitOtherKw kw.1)
  let targets := fixing.map fun kw => fitTarget shapes kw.1
  targets.all (·.isSome) && targets.Nodup && decide (targets.length < n + 2)

/-- keywords fix exactly the slots the parameter map assigns to `S`, at the mapped values -/
def kwsTargeted (shapes : List String) (slots : List PExpr) (S : List Nat)
    (kws : List (String × PExpr)) : Bool :=
  let n := shapes.length
  (List.range (n + 2)).all fun j =>
    expectedFix S (slotExpr n slots j) == some (fixedValue shapes kws j)

/-- the contract "a fixed slot comes back unchanged" applied to the recorded `after` -/
def afterFit (shapes : List String) (kws : List (String × PExpr)) (e : PExpr) : PExpr :=
  e.substEst fun j => match fixedValue shapes kws j with
    | some v => v
    | none => .est j

/-- after the fit a fixed parameter is its fixed value (modulo the inverse pairs of `simpInv`),
a free one depends on the estimate -/
def afterOk (r : FitRow) (shapes : List String) (kws : List (String × PExpr)) : Bool :=
  (List.range r.after.length).all fun p =>
    match r.after[p]? with
    | none => false
    | some e =>
      let e' := afterFit shapes kws e
      if p ∈ r.fixed then e'.simpInv == .farg p else e'.hasEst

def shapesOf (scipyShapes : List (String × List String)) (dist : String) : Option (List String) :=
  (scipyShapes.find? (·.1 == dist)).map (·.2)

/-- the whole fit obligation for one row with a *proper* subset fixed -/
def fitRowOk (scipyShapes : List (String × List String)) (base : Option (String × List PExpr))
    (r : FitRow) : Bool :=
  match r.outcome with
  | .raised _ => false
  | .notCalled => afterOk r [] []
  | .called dist _ kws =>
    match shapesOf scipyShapes dist, base with
    | some shapes, some (d0, slots) =>
      dist == d0 && kwsAccepted shapes kws && kwsTargeted shapes slots r.fixed kws &&
        afterOk r shapes kws
    | _, _ => false

/-- the obligation for the whole table: every row records `.parameters` afterwards with one entry
per parameter of the family (`after.length = f.params.length`: `afterOk` runs over the recorded
list, so a row that dropped a parameter would otherwise pass), and every row with a proper subset
of the family's parameters fixed meets `fitRowOk` -/
def fitTableOk (fams : List Family) (scipyShapes : List (String × List String))
    (bases : List (String × List PExpr)) (rows : List FitRow) : Bool :=
  rows.all fun r =>
    match fams[r.fam]? with
    | none => false
    | some f => r.after.length == f.params.length &&
        (!(decide (r.fixed.length < f.params.length)) || fitRowOk scipyShapes bases[r.fam]? r)

def fitTableComplete (fams : List Family) (rows : List FitRow) : Bool :=
  (List.range fams.length).all fun i =>
    match fams[i]? with
    | none => false
    | some f => (subsetsBelow f.params.length).all fun F =>
        rows.any fun r => r.fam == i && r.fixed == F

/-- One concrete `_fit_lsq` run (`fit(data, "lsq")`) on a fixed sample: `ok` = returned,
`kept` = every fixed parameter bit-identical afterwards, `exc` = exception class otherwise. -/
structure LsqRow where
  fam : Nat
  fixed : List Nat
  ok : Bool
  kept : Bool
  exc : String
  deriving DecidableEq, Repr

/-- least squares is implemented for the exponentiated Weibull with nothing or only `delta`
(parameter 2) fixed; every other combination refuses with `NotImplementedError` -/
def lsqRowOk (fams : List Family) (r : LsqRow) : Bool :=
  if (r.fixed == [] || r.fixed == [2]) &&
      (fams[r.fam]?.map (·.name)) == some "ExponentiatedWeibullDistribution"
  then r.ok && r.kept
  else !r.ok && r.exc == "NotImplementedError"

/-- `ConditionalDistribution._get_param_values`: a parameter with a dependence function gets its
value at `given`, any other the stored fixed value. -/
def condParamValue {γ β : Type} (cond : Option (γ → β)) (fixed : β) (given : γ) : β :=
  match cond with
  | some f => f given
  | none => fixed

/-! ## 3. documented formulas and scipy's (shape, loc, scale) form -/

section formulas
variable {α : Type} [Add α] [Sub α] [Mul α] [Div α] [Neg α] [OfNat α 0] [OfNat α 1] [OfNat α 2]
  [LE α] [LT α] [DecidableLE α] [DecidableLT α]

/-- scipy: `cdf(x, *shapes, loc, scale) = F((x - loc)/scale)` -/
def locScaleCdf (F : α → α) (loc scale x : α) : α := F ((x - loc) / scale)
/-- scipy: `pdf(x, *shapes, loc, scale) = f((x - loc)/scale)/scale` -/
def locScalePdf (f : α → α) (loc scale x : α) : α := f ((x - loc) / scale) / scale
/-- scipy: `ppf(q, *shapes, loc, scale) = Q(q)*scale + loc` -/
def locScalePpf (Q : α → α) (loc scale q : α) : α := Q q * scale + loc

/-! standard forms (scipy docs of `weibull_min`, `exponweib`, `lognorm`, `norm`, `gengamma`,
`vonmises`); the value of a density *at* the lower end of the support is whatever the formula
gives there (as in scipy: `0^(c-1)`), below it is 0 -/
def stdWeibullCdf (T : Tr α) (c z : α) : α := if z ≤ 0 then 0 else 1 - T.exp (-(T.pow z c))
def stdWeibullPdf (T : Tr α) (c z : α) : α :=
  if z < 0 then 0 else c * T.pow z (c - 1) * T.exp (-(T.pow z c))
def stdWeibullPpf (T : Tr α) (c q : α) : α := T.pow (-(T.log (1 - q))) (1 / c)

def stdExpWeibCdf (T : Tr α) (a c z : α) : α :=
  if z ≤ 0 then 0 else T.pow (1 - T.exp (-(T.pow z c))) a
def stdExpWeibPdf (T : Tr α) (a c z : α) : α :=
  if z < 0 then 0
  else a * c * T.pow (1 - T.exp (-(T.pow z c))) (a - 1) * T.exp (-(T.pow z c)) * T.pow z (c - 1)
def stdExpWeibPpf (T : Tr α) (a c q : α) : α :=
  T.pow (-(T.log (1 - T.pow q (1 / a)))) (1 / c)

/-- `lognorm(s)`: `F(z) = Φ(log z / s)` -/
def stdLognormCdf (T : Tr α) (Phi : α → α) (s z : α) : α :=
  if z ≤ 0 then 0 else Phi (T.log z / s)
/-- `lognorm.pdf(z, s) = 1/(s z sqrt(2π)) exp(-log²z / (2 s²))` -/
def stdLognormPdf (T : Tr α) (s z : α) : α :=
  if z ≤ 0 then 0
  else 1 / (s * z * T.sqrt (2 * T.pi)) * T.exp (-(T.log z * T.log z) / (2 * (s * s)))
def stdLognormPpf (T : Tr α) (PhiInv : α → α) (s q : α) : α := T.exp (s * PhiInv q)

/-- `norm.pdf(z) = exp(-z²/2)/sqrt(2π)` -/
def stdNormPdf (T : Tr α) (z : α) : α := T.exp (-(z * z) / 2) / T.sqrt (2 * T.pi)

/-- `gengamma(a, c)`: `F(z) = P(a, z^c)` -/
def stdGengammaCdf (T : Tr α) (P : α → α → α) (a c z : α) : α :=
  if z ≤ 0 then 0 else P a (T.pow z c)
/-- `gengamma.pdf(z, a, c) = c z^(ca-1) exp(-z^c) / Γ(a)` (for `c > 0`) -/
def stdGengammaPdf (T : Tr α) (gammaA : α) (a c z : α) : α :=
  if z < 0 then 0 else c * T.pow z (c * a - 1) * T.exp (-(T.pow z c)) / gammaA
def stdGengammaPpf (T : Tr α) (PInv : α → α → α) (a c q : α) : α := T.pow (PInv a q) (1 / c)

/-- `vonmises.pdf(z, κ) = exp(κ cos z) / (2π I₀(κ))` -/
def stdVonMisesPdf (T : Tr α) (i0k : α) (kappa z : α) : α :=
  T.exp (kappa * T.cos z) / (2 * T.pi * i0k)

/-- `gumbel_r` (no shape parameter): `F(z) = exp(-exp(-z))` -/
def stdGumbelCdf (T : Tr α) (z : α) : α := T.exp (-(T.exp (-z)))
/-- `gumbel_r.pdf(z) = exp(-(z + exp(-z)))` -/
def stdGumbelPdf (T : Tr α) (z : α) : α := T.exp (-(z + T.exp (-z)))
def stdGumbelPpf (T : Tr α) (q : α) : α := -(T.log (-(T.log q)))

/-! documented formulas (docstrings of virocon/distributions.py) -/

/-- Weibull (3p): `F(x) = 1 - exp(-((x-γ)/α)^β)` for `x > γ` -/
def weibullCdf (T : Tr α) (a b g x : α) : α :=
  if x ≤ g then 0 else 1 - T.exp (-(T.pow ((x - g) / a) b))
/-- docstring: `f(x) = β/α ((x-γ)/α)^(β-1) exp(-((x-γ)/α)^β)` -/
def weibullPdf (T : Tr α) (a b g x : α) : α :=
  if x < g then 0 else b / a * T.pow ((x - g) / a) (b - 1) * T.exp (-(T.pow ((x - g) / a) b))
def weibullIcdf (T : Tr α) (a b g p : α) : α := g + a * T.pow (-(T.log (1 - p))) (1 / b)

/-- exponentiated Weibull docstring: `F(x) = [1 - exp(-(x/α)^β)]^δ`; the density is set to 0
for `x ≤ 0` by virocon itself (`np.where(x > 0, x, nan)`, nan ↦ 0) -/
def ewCdf (T : Tr α) (a b d x : α) : α :=
  if x ≤ 0 then 0 else T.pow (1 - T.exp (-(T.pow (x / a) b))) d
def ewPdf (T : Tr α) (a b d x : α) : α :=
  if x ≤ 0 then 0
  else d * b / a * T.pow (x / a) (b - 1) * T.exp (-(T.pow (x / a) b)) *
    T.pow (1 - T.exp (-(T.pow (x / a) b))) (d - 1)
def ewIcdf (T : Tr α) (a b d p : α) : α :=
  a * T.pow (-(T.log (1 - T.pow p (1 / d)))) (1 / b)

/-- `LogNormalNormFitDistribution.calculate_mu`: `log(m / sqrt(1 + s²/m²))` -/
def lnnfMu (T : Tr α) (m s : α) : α := T.log (m / T.sqrt (1 + s * s / (m * m)))
/-- `calculate_sigma`: `sqrt(log(1 + s²/m²))` -/
def lnnfSigma (T : Tr α) (m s : α) : α := T.sqrt (T.log (1 + s * s / (m * m)))

/-- normal: `F(x) = Φ((x-μ)/σ)` with the standard normal cdf `Phi` as a leaf -/
def normalCdf (Phi : α → α) (mu sigma x : α) : α := Phi ((x - mu) / sigma)
def normalIcdf (PhiInv : α → α) (mu sigma p : α) : α := mu + sigma * PhiInv p
/-- docstring: `f(x) = 1/(σ sqrt(2π)) exp(-(x-μ)²/(2σ²))` -/
def normalPdf (T : Tr α) (mu sigma x : α) : α :=
  1 / (sigma * T.sqrt (2 * T.pi)) * T.exp (-((x - mu) * (x - mu)) / (2 * (sigma * sigma)))

/-- log-normal: `F(x) = Φ((ln x - μ)/σ)` for `x > 0` -/
def lognormalCdf (T : Tr α) (Phi : α → α) (mu sigma x : α) : α :=
  if x ≤ 0 then 0 else Phi ((T.log x - mu) / sigma)
def lognormalIcdf (T : Tr α) (PhiInv : α → α) (mu sigma p : α) : α :=
  T.exp (mu + sigma * PhiInv p)
/-- docstring: `f(x) = 1/(x σ sqrt(2π)) exp(-(ln x - μ)²/(2σ²))` -/
def lognormalPdf (T : Tr α) (mu sigma x : α) : α :=
  if x ≤ 0 then 0
  else 1 / (x * sigma * T.sqrt (2 * T.pi)) *
    T.exp (-((T.log x - mu) * (T.log x - mu)) / (2 * (sigma * sigma)))

/-- generalised gamma (Ochi 1992): `F(x) = P(m, (λx)^c)`, `P` the regularised lower incomplete
gamma function as a leaf -/
def ggCdf (T : Tr α) (P : α → α → α) (m c lam x : α) : α :=
  if x ≤ 0 then 0 else P m (T.pow (lam * x) c)
def ggIcdf (T : Tr α) (PInv : α → α → α) (m c lam p : α) : α :=
  T.pow (PInv m p) (1 / c) / lam
/-- `f(x) = λ^(cm) c x^(cm-1) exp(-(λx)^c) / Γ(m)`; `gammaM` = Γ(m) as a leaf.
(The docstring prints `exp[-(λ x^c)]`; that expression does not integrate to one unless `c = 1`,
Ochi's density, the one the tests pin and the one meant, has `(λx)^c`.) -/
def ggPdf (T : Tr α) (gammaM : α) (m c lam x : α) : α :=
  if x < 0 then 0
  else T.pow lam (c * m) * c * T.pow x (c * m - 1) * T.exp (-(T.pow (lam * x) c)) / gammaM

/-- von Mises docstring: `f(x) = exp(κ cos(x-μ)) / (2π I₀(κ))`, `i0k` = I₀(κ) as a leaf.
A circular distribution: the density is 2π-periodic on the whole line (as in scipy.stats.vonmises),
`[μ-π, μ+π]` is one period. -/
def vonMisesPdf (T : Tr α) (i0k : α) (kappa mu x : α) : α :=
  T.exp (kappa * T.cos (x - mu)) / (2 * T.pi * i0k)
/-- `F(x) = V_κ(x - μ)`, `V` the standard von Mises cdf (0 at `-π`, 1 at `π`) as a leaf -/
def vonMisesCdf (V : α → α) (mu x : α) : α := V (x - mu)
def vonMisesIcdf (VInv : α → α) (mu p : α) : α := mu + VInv p

/-- Gumbel (largest extreme value, type I), the documented law of a `ScipyDistribution` subclass of
`scipy.stats.gumbel_r` (parameters `loc`, `scale` only): `F(x) = exp(-exp(-(x-loc)/scale))`, on the whole line -/
def gumbelCdf (T : Tr α) (loc scale x : α) : α := T.exp (-(T.exp (-((x - loc) / scale))))
/-- `f(x) = 1/scale · exp(-(z + exp(-z)))`, `z = (x-loc)/scale` -/
def gumbelPdf (T : Tr α) (loc scale x : α) : α :=
  1 / scale * T.exp (-((x - loc) / scale + T.exp (-((x - loc) / scale))))
/-- `F⁻¹(p) = loc - scale · log(-log p)` -/
def gumbelIcdf (T : Tr α) (loc scale p : α) : α := loc - scale * T.log (-(T.log p))

end formulas

end VirVerif
