/-
Float-level pieces used only by the C16 driver: numpy's `linspace(endpoint=True)`, and the
exact-arithmetic stub base model / stub transform triple of harness/c16.py (rational density
built from `ratPdf`, so that `TransformedModel` over it is reproduced bit for bit).
Core Lean only.
-/
import VirVerif.Model.Doubles
import VirVerif.Model.Transform
namespace VirVerif

/-- `np.linspace(a, b, num)` (endpoint included): `step = (b-a)/(num-1)`, values `k*step + a`,
the last one overwritten with `b`. -/
def linspaceIncl (a b : Float) (num : Nat) : List Float :=
  if num = 0 then [] else if num = 1 then [a] else
  let step := (b - a) / Float.ofNat (num - 1)
  (List.range num).map fun k => if k = num - 1 then b else Float.ofNat k * step + a

/-- stub base density, `n_dim` 2 or 3:
`f(a,b[,c]) = rat(s1; a) · rat(c0 + c1·a; b) [· rat(e0 + e1·b; c)]`, `rat(s; z) = s/((z+s)(z+s))` for `z>0`. -/
structure StubBase where
  s1 : Float
  c0 : Float
  c1 : Float
  e0 : Float
  e1 : Float

def StubBase.pdf (p : StubBase) : List Float → Float
  | [a, b] => ratPdf p.s1 0 a * ratPdf (p.c0 + p.c1 * a) 0 b
  | [a, b, c] => ratPdf p.s1 0 a * ratPdf (p.c0 + p.c1 * a) 0 b * ratPdf (p.e0 + p.e1 * b) 0 c
  | _ => 0.0 / 0.0

/-- stub / shipped transform on rows: `(a, b[, c]) ↦ (a, k·a/(b·b)[, c/(1+a)])` -/
def stubTransform (k : Float) : List Float → List Float
  | [a, b] => let y := predefTransform Float.sqrt k (a, b); [y.1, y.2]
  | [a, b, c] => let y := predefTransform Float.sqrt k (a, b); [y.1, y.2, c / (1 + a)]
  | r => r

def stubInverse (k : Float) : List Float → List Float
  | [a, s] => let y := predefInverse Float.sqrt k (a, s); [y.1, y.2]
  | [a, s, w] => let y := predefInverse Float.sqrt k (a, s); [y.1, y.2, w * (1 + a)]
  | r => r

def stubJacobian (cube : Float → Float) (k : Float) : List Float → Float
  | [a, b] => predefJacobian cube k (a, b)
  | [a, b, _] => predefJacobian cube k (a, b) / (1 + a)
  | _ => 0.0 / 0.0

end VirVerif
