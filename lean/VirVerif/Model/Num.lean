/-
Numeric primitives of numpy that virocon's logic depends on, modelled operation by
operation so that the `Float` instance is bit-identical to numpy (validated by the
correspondence harness on every run).  Core Lean only (no Mathlib).
-/
namespace VirVerif

/-- `np.cumsum` on a 1-D array: sequential left fold. -/
def cumsumFrom {α} [Add α] (acc : α) : List α → List α
  | [] => []
  | x :: xs => (acc + x) :: cumsumFrom (acc + x) xs

/-- number of elements of `np.arange(start, stop, step)`: `ceil((stop-start)/step)`. -/
def arangeLen (start stop step : Float) : Nat :=
  let c := Float.ceil ((stop - start) / step)
  if c ≥ 1 then c.toUInt64.toNat else 0

/-- `np.arange(start, stop, step)` for doubles: numpy fills the first two entries with
`start`, `start+step` and the rest with `start + i*delta`, `delta = (start+step)-start`. -/
def arange (start stop step : Float) : List Float :=
  let n := arangeLen start stop step
  let delta := (start + step) - start
  (List.range n).map fun i =>
    if i = 0 then start else if i = 1 then start + step else start + (Float.ofNat i) * delta

/-- `np.linspace(a, b, num, endpoint=False, retstep=True)`:
step = (b-a)/num, values `k*step + a`. -/
def linspaceNoEnd (a b : Float) (num : Nat) : List Float × Float :=
  let step := (b - a) / Float.ofNat num
  ((List.range num).map fun k => Float.ofNat k * step + a, step)

/-- maximum of a non-empty list (numpy `np.max`, no NaNs). -/
def listMax {α} [LT α] [DecidableLT α] : List α → Option α
  | [] => none
  | x :: xs => some (xs.foldl (fun m y => if m < y then y else m) x)

def listMin {α} [LT α] [DecidableLT α] : List α → Option α
  | [] => none
  | x :: xs => some (xs.foldl (fun m y => if y < m then y else m) x)

end VirVerif
