/-
Model of virocon/intervals.py (the three IntervalSlicers), core Lean only.

The model is carrier-polymorphic: at `Float` the driver executes it (bit-identical to
numpy, checked by the correspondence harness); the theorems in
`Properties/C10.lean` are about any linear order.
-/
import VirVerif.Model.Num
namespace VirVerif

/-- membership of `x` in an interval with edges `lo`, `hi`; each end closed or open. -/
def inIv {α} [LE α] [LT α] [DecidableLE α] [DecidableLT α]
    (loClosed hiClosed : Bool) (lo hi x : α) : Bool :=
  (if loClosed then decide (lo ≤ x) else decide (lo < x)) &&
  (if hiClosed then decide (x ≤ hi) else decide (x < hi))

/-- consecutive pairs of an edge list: the upper edge of interval `k` *is* the lower edge
of interval `k+1` (one shared array, as in the code). -/
def edgePairs {α} : List α → List (α × α)
  | a :: b :: rest => (a, b) :: edgePairs (b :: rest)
  | _ => []

/-- One interval before dropping: mask aligned with the data positions, reference
(`none` = computed by a user callable from `data[mask]`), boundaries. -/
structure Interval (α : Type) where
  mask : List Bool
  ref : Option α
  lo : α
  hi : α

def maskCount (m : List Bool) : Nat := m.countP (· = true)

/-- `_drop_too_small_intervals`: keep exactly the intervals with at least `minPts` members. -/
def dropSmall {α} (minPts : Nat) (ivs : List (Interval α)) : List (Interval α) :=
  ivs.filter fun iv => decide (minPts ≤ maskCount iv.mask)

inductive SliceErr where
  | tooFewIntervals (need got : Nat)
  | emptyData
  | badPerm
  | splitZero
  deriving Repr, DecidableEq

/-- `IntervalSlicer.slice_`: error when fewer than `minIntervals` remain. -/
def finishSlice {α} (minIntervals : Nat) (ivs : List (Interval α)) :
    Except SliceErr (List (Interval α)) :=
  if ivs.length < minIntervals then .error (.tooFewIntervals minIntervals ivs.length)
  else .ok ivs

/-- reference keyword: 0 = center, 1 = right, 2 = left, 3 = callable -/
inductive RefKind where
  | center | right | left | callable
  deriving Repr, DecidableEq

/-! ### generic "edges → intervals" part shared by Width and Number slicers -/

/-- per-interval membership predicates for an edge-pair list. `lastHiClosed` overrides the
closedness of the upper end of the last interval (NumberOfIntervals `include_max`). -/
def ivPreds {α} [LE α] [LT α] [DecidableLE α] [DecidableLT α]
    (loClosed hiClosed lastHiClosed : Bool) : List (α × α) → List (α → Bool)
  | [] => []
  | [(lo, hi)] => [inIv loClosed lastHiClosed lo hi]
  | (lo, hi) :: p :: rest =>
      inIv loClosed hiClosed lo hi :: ivPreds loClosed hiClosed lastHiClosed (p :: rest)

/-- masks for all intervals: the predicate of interval `k` applied to every data position. -/
def edgeMasks {α} [LE α] [LT α] [DecidableLE α] [DecidableLT α]
    (loClosed hiClosed lastHiClosed : Bool) (pairs : List (α × α)) (data : List α) :
    List (List Bool) :=
  (ivPreds loClosed hiClosed lastHiClosed pairs).map fun p => data.map p

/-! ### WidthOfIntervalSlicer -/

/-- Pre-drop intervals of `WidthOfIntervalSlicer._slice`.
`starts = np.arange(data_min, data_max + width, width)`, edges = starts ++ [last + width]. -/
def widthIntervalsOfStarts {α} [LE α] [LT α] [DecidableLE α] [DecidableLT α] [Add α] [Sub α]
    (rightOpen : Bool) (ref : RefKind) (width halfWidth : α) (starts : List α) (data : List α) :
    List (Interval α) :=
  let edges := match starts.getLast? with
    | none => []
    | some l => starts ++ [l + width]
  let pairs := edgePairs edges
  let masks := edgeMasks rightOpen (!rightOpen) (!rightOpen) pairs data
  let centres := starts.map (· + halfWidth)
  let refs : List (Option α) := centres.map fun c =>
    match ref with
    | .center => some c
    | .right => some (c + halfWidth)
    | .left => some (c - halfWidth)
    | .callable => none
  (masks.zip (refs.zip pairs)).map fun (m, r, lo, hi) => { mask := m, ref := r, lo := lo, hi := hi }

def widthSliceF (width : Float) (rightOpen : Bool) (ref : RefKind)
    (vmin vmax : Option Float) (minPts minIntervals : Nat) (data : List Float) :
    Except SliceErr (List (Interval Float)) :=
  let dataMin := vmin.getD 0.0
  match (match vmax with | some m => some m | none => listMax data) with
  | none => .error .emptyData
  | some dataMax =>
    let starts := arange dataMin (dataMax + width) width
    let ivs := widthIntervalsOfStarts rightOpen ref width (0.5 * width) starts data
    finishSlice minIntervals (dropSmall minPts ivs)

/-! ### NumberOfIntervalsSlicer -/

def numberIntervalsOfStarts {α} [LE α] [LT α] [DecidableLE α] [DecidableLT α] [Add α]
    (includeMax : Bool) (ref : RefKind) (width halfWidth upper : α) (starts : List α)
    (data : List α) : List (Interval α) :=
  let edges := if starts.isEmpty then [] else starts ++ [upper]
  let pairs := edgePairs edges
  let masks := edgeMasks true false includeMax pairs data
  let refs : List (Option α) := starts.map fun s =>
    match ref with
    | .center => some (s + halfWidth)
    | .right => some (s + width)
    | .left => some s
    | .callable => none
  (masks.zip (refs.zip pairs)).map fun (m, r, lo, hi) => { mask := m, ref := r, lo := lo, hi := hi }

def numberSliceF (nIntervals : Nat) (includeMax : Bool) (ref : RefKind)
    (range : Option (Float × Float)) (minPts minIntervals : Nat) (data : List Float) :
    Except SliceErr (List (Interval Float)) :=
  let r : Option (Float × Float) := match range with
    | some r => some r
    | none => match listMin data, listMax data with
      | some a, some b => some (a, b)
      | _, _ => none
  match r with
  | none => .error .emptyData
  | some (a, b) =>
    let (starts, w) := linspaceNoEnd a b nIntervals
    let ivs := numberIntervalsOfStarts includeMax ref w (0.5 * w) b starts data
    -- the constructor lowers `min_n_intervals` to `n_intervals` if that is smaller
    finishSlice (min minIntervals nIntervals) (dropSmall minPts ivs)

/-! ### PointsPerIntervalSlicer -/

/-- split a list into consecutive chunks of length `k` (`np.split` into equal sections). -/
def chunksOf {α} (k : Nat) : Nat → List α → List (List α)
  | 0, _ => []
  | n + 1, l => l.take k :: chunksOf k n (l.drop k)

/-- index chunks of `PointsPerIntervalSlicer._slice` from the sorting permutation. -/
def ppiChunks (nPoints : Nat) (lastFull : Bool) (perm : List Nat) : List (List Nat) :=
  let n := perm.length
  let full := n / nPoints
  let rem := n % nPoints
  if rem ≠ 0 then
    if lastFull then perm.take rem :: chunksOf nPoints full (perm.drop rem)
    else chunksOf nPoints full (perm.take (n - rem)) ++ [perm.drop (n - rem)]
  else chunksOf nPoints full perm

/-- mask in *input position* space: position `j` is in the interval iff `j` is in the chunk. -/
def chunkMask (n : Nat) (chunk : List Nat) : List Bool :=
  (List.range n).map fun j => chunk.contains j

def maskSelect {α} : List Bool → List α → List α
  | b :: bs, x :: xs => if b then x :: maskSelect bs xs else maskSelect bs xs
  | _, _ => []

/-- boundaries as computed by the code from the kept masks: first lower = min of first
interval, inner = mean of max(lower interval) and min(upper interval), last upper = max. -/
def ppiBoundsAux {α} [LT α] [DecidableLT α] [Add α] [Div α] [OfNat α 2]
    (lower : α) (cur : List α) : List (List α) → Option (List (α × α))
  | [] => (listMax cur).map fun m => [(lower, m)]
  | nxt :: rest =>
    match listMax cur, listMin nxt with
    | some mx, some mn =>
      let up := (mx + mn) / 2
      (ppiBoundsAux up nxt rest).map fun t => (lower, up) :: t
    | _, _ => none

def ppiBounds {α} [LT α] [DecidableLT α] [Add α] [Div α] [OfNat α 2]
    (members : List (List α)) : Option (List (α × α)) :=
  match members with
  | [] => none
  | first :: rest => (listMin first).bind fun lo => ppiBoundsAux lo first rest

def isPermOfRange (perm : List Nat) : Bool :=
  let n := perm.length
  (List.range n).all fun j => perm.count j == 1

def ppiSlice {α} [LT α] [DecidableLT α] [Add α] [Div α] [OfNat α 2]
    (nPoints : Nat) (lastFull : Bool) (minPts minIntervals : Nat)
    (perm : List Nat) (data : List α) : Except SliceErr (List (Interval α)) :=
  if !(isPermOfRange perm) || perm.length ≠ data.length then .error .badPerm else
  if data.length / nPoints = 0 then .error .splitZero else
  let masks := (ppiChunks nPoints lastFull perm).map (chunkMask data.length)
  -- the constructor lowers `min_n_points` to `n_points` if that is smaller
  let kept := masks.filter fun m => decide (min minPts nPoints ≤ maskCount m)
  match ppiBounds (kept.map fun m => maskSelect m data) with
  | none => .error .emptyData
  | some bounds =>
    finishSlice minIntervals
      ((kept.zip bounds).map fun (m, lo, hi) => { mask := m, ref := none, lo := lo, hi := hi })

end VirVerif
