/-
Exact-arithmetic test doubles (DESIGN 2.3a): a rational distribution family and rational
dependence functions.  The harness defines the same objects in Python as subclasses of
virocon's `Distribution` / as callables wrapped in real `DependenceFunction`s, so that all of
virocon's own code above the leaves runs for real, while the leaves are IEEE-basic arithmetic
that this model reproduces bit for bit.
-/
namespace VirVerif

/-- dependence functions used by the doubles.
`chained a b d` is `(a + b*x) / d(x)`: a dependence function that takes another dependence
function as parameter and evaluates it at the same `x`; `ratio a n d` is `(a + n(x)) / d(x)` with
two dependence functions as parameters. -/
inductive DepFn (α : Type) where
  | const (a : α)
  | affine (a b : α)
  | asym (a b c : α)
  | chained (a b : α) (d : DepFn α)
  | ratio (a : α) (n d : DepFn α)

def DepFn.eval {α} [Add α] [Mul α] [Div α] [OfNat α 1] : DepFn α → α → α
  | .const a, _ => a
  | .affine a b, x => a + b * x
  | .asym a b c, x => a + b / (1 + c * x)
  | .chained a b d, x => (a + b * x) / d.eval x
  | .ratio a n d, x => (a + n.eval x) / d.eval x

/-- a parameter of a (conditional) distribution: fixed value or dependence function of the
conditioning value -/
def paramAt {α} [Add α] [Mul α] [Div α] [OfNat α 1] (d : DepFn α) : Option α → α
  | none => match d with
    | .const a => a
    | _ => d.eval 1  -- never used: unconditional dimensions only carry constants
  | some g => d.eval g

/-- "log-logistic with shape 1 and location": `F(x) = z/(z+s)`, `z = x - l`, for `z > 0`. -/
structure RatSpec (α : Type) where
  s : DepFn α
  l : DepFn α

def ratCdf {α} [Add α] [Sub α] [Div α] [LT α] [DecidableLT α] [OfNat α 0] (s l x : α) : α :=
  let z := x - l
  if 0 < z then z / (z + s) else 0

def ratIcdf {α} [Add α] [Sub α] [Mul α] [Div α] [OfNat α 1] (s l p : α) : α :=
  l + s * p / (1 - p)

def ratPdf {α} [Add α] [Sub α] [Mul α] [Div α] [LT α] [DecidableLT α] [OfNat α 0] (s l x : α) : α :=
  let z := x - l
  if 0 < z then s / ((z + s) * (z + s)) else 0

end VirVerif
