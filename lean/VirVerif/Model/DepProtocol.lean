/-
Model of the callback protocol of `virocon.dependencies.DependenceFunction`
(`__init__`/`register`, `fit`, `_fit`, `callback`).  Core Lean only.

Objects are numbered by construction (= declaration) order `0 … N-1`; `conds h` is the list of
the dependence functions bound to parameters of `h` (keyword arguments of the constructor, in
keyword order, duplicates allowed).  What `_fit` computes numerically is *not* part of this
model; a `_fit` execution is an event: it bumps the function's version counter, records the
versions of all functions at that moment (`seen`), and is appended to the log.

The INPUTS of every `_fit` are part of the model:
* data: every public `fit(x, y)` call carries a *data epoch* (a `Nat` chosen by the caller, think
  "the pairs of the n-th `model.fit`"); `xyEpoch h` is the epoch of the pairs stored in
  `h.x, h.y`; every `_fit` event records the epoch of the pairs it received (`Ev.data`), and
  `lastData h` is the epoch used by `h`'s last `_fit`;
* start values: `p0At h` models `h._p0`: `none` while `_p0 is None`, otherwise the version of
  `h`'s own parameters at the moment `_p0` was captured (`0` = the values the constructor put in
  place, `k > 0` = the result of the `k`-th `_fit`); every `_fit` event records the token of the
  start values it handed to the optimiser (`Ev.p0`);
* `Ev.call` is the (1-based) number of the public `fit` call during which the `_fit` ran.
-/
namespace VirVerif.Dep

/-- pointwise update (core-only, computable) -/
def upd {β} (f : Nat → β) (i : Nat) (v : β) : Nat → β := fun j => if j = i then v else f j

/-- one `_fit` execution together with its inputs -/
structure Ev where
  /-- the function that was fitted -/
  fn : Nat
  /-- epoch of the `(x, y)` pairs `_fit` received -/
  data : Nat
  /-- start-value token handed to the optimiser (see the file header) -/
  p0 : Nat
  /-- number of the public `fit` call (1-based) during which this `_fit` ran -/
  call : Nat
deriving DecidableEq, Repr

/-- mutable part of all `DependenceFunction` objects, indexed by declaration order -/
structure Mut where
  /-- `_may_fit` -/
  mayFit  : Nat → Bool
  /-- epoch of the pairs stored in `self.x, self.y` (`none` = the attributes do not exist) -/
  xyEpoch : Nat → Option Nat
  /-- `_fitted_conditioners` (a set; kept as a duplicate-free list in insertion order) -/
  fitted  : Nat → List Nat
  /-- number of `_fit` executions -/
  version : Nat → Nat
  /-- `seen h g` = version of `g` at `h`'s last `_fit` -/
  seen    : Nat → Nat → Nat
  /-- the `_fit` executions so far, newest first -/
  log     : List Nat
  /-- epoch of the pairs used by the last `_fit` (`none` = never fitted) -/
  lastData : Nat → Option Nat
  /-- `self._p0` as a token (`none` = `_p0 is None`) -/
  p0At    : Nat → Option Nat
  /-- the `_fit` executions with their inputs, newest first -/
  evlog   : List Ev
  /-- number of public `fit` calls so far -/
  calls   : Nat

/-- `hasattr(self, "x") and hasattr(self, "y")` -/
def Mut.hasXY (s : Mut) (h : Nat) : Bool := (s.xyEpoch h).isSome

/-- is the declaration list one that Python can construct?  (`decls[i]` may only mention objects
that exist when object `i` is constructed) -/
def checkDecls (decls : List (List Nat)) : Bool :=
  (List.range decls.length).all fun i =>
    match decls[i]? with
    | some cs => cs.all fun g => decide (g < i)
    | none => false

/-- the conditioner lists as a function (objects that were never declared have none) -/
def condsOf (decls : List (List Nat)) (f : Nat) : List Nat :=
  match decls[f]? with
  | some cs => cs
  | none => []

/-- `f.dependents` in registration order: `h` registers at `f` once for every keyword of `h`
bound to `f`, while `h` is constructed; so the list is ordered by declaration index. -/
def dependents (N : Nat) (conds : Nat → List Nat) (f : Nat) : List Nat :=
  (List.range N).flatMap fun h => ((conds h).filter (fun g => g == f)).map fun _ => h

/-- set insertion -/
def insertNew (a : Nat) (l : List Nat) : List Nat := if l.contains a then l else l ++ [a]

/-- the start values `_fit` uses: `if self._p0 is None: self._p0 = tuple(self.parameters.values())`
— the current parameters of `f` are those of its version `s.version f` -/
def p0Token (s : Mut) (f : Nat) : Nat :=
  match s.p0At f with
  | some t => t
  | none => s.version f

/-- the numerical `_fit(x, y)` of `f` on pairs of epoch `e`, as an event -/
def bump (s : Mut) (f e : Nat) : Mut :=
  { s with version := upd s.version f (s.version f + 1),
           seen := upd s.seen f (fun g => s.version g),
           log := f :: s.log,
           lastData := upd s.lastData f (some e),
           p0At := upd s.p0At f (some (p0Token s f)),
           evlog := { fn := f, data := e, p0 := p0Token s f, call := s.calls } :: s.evlog }

/-- `h.callback(caller = f)`; `refit h e` stands for `self.fit(self.x, self.y)` where the stored
pairs are those of epoch `e` (the inner `fit` stores the same objects again and, `_may_fit` being
true now, runs `_fit` on them) -/
def callback (conds : Nat → List Nat) (refit : Nat → Nat → Mut → Mut) (f : Nat) (s : Mut) (h : Nat) : Mut :=
  let s2 : Mut := { s with fitted := upd s.fitted h (insertNew f (s.fitted h)) }
  -- `self._fitted_conditioners.issubset(self.dependent_parameters.values())`
  if (s2.fitted h).all (fun g => (conds h).contains g) then
    let s3 : Mut := { s2 with mayFit := upd s2.mayFit h true }
    match s3.xyEpoch h with
    | some e => refit h e s3
    | none => s3
  else s2

/-- `_fit(x, y)` of `f` on pairs of epoch `e`, followed by the callbacks on all registered
dependents (fuel = recursion depth; `callbacks_terminate` shows that `N - f` is always enough) -/
def doFit (N : Nat) (conds : Nat → List Nat) : Nat → Nat → Nat → Mut → Mut
  | 0, _, _, s => s
  | fuel + 1, f, e, s =>
    (dependents N conds f).foldl (callback conds (doFit N conds fuel) f) (bump s f e)

/-- the public `fit(x, y)` with pairs of epoch `e`:
`self.x = x; self.y = y; if self._may_fit: self._fit(self.x, self.y)` -/
def fitCall (N : Nat) (conds : Nat → List Nat) (f e : Nat) (s : Mut) : Mut :=
  let s1 : Mut := { s with xyEpoch := upd s.xyEpoch f (some e), calls := s.calls + 1 }
  if s1.mayFit f then doFit N conds N f e s1 else s1

/-- NOT the code: the seeded variant that stores the pairs only when the fit is deferred,
`if self._may_fit: self._fit(x, y) else: self.x = x; self.y = y`
(the callback's `self.fit(self.x, self.y)` then re-fits the pairs of an earlier epoch).  Kept to make
the difference explicit, see `C14.stale_variant_refits_old_pairs`. -/
def fitCallStale (N : Nat) (conds : Nat → List Nat) (f e : Nat) (s : Mut) : Mut :=
  let s1 : Mut := { s with calls := s.calls + 1 }
  if s1.mayFit f then doFit N conds N f e s1
  else { s1 with xyEpoch := upd s1.xyEpoch f (some e) }

/-- state after all constructors have run -/
def init (conds : Nat → List Nat) : Mut :=
  { mayFit := fun f => (conds f).isEmpty, xyEpoch := fun _ => none, fitted := fun _ => [],
    version := fun _ => 0, seen := fun _ _ => 0, log := [],
    lastData := fun _ => none, p0At := fun _ => none, evlog := [], calls := 0 }

/-- a whole history of public `fit` calls `(function, data epoch)` -/
def runHistory (N : Nat) (conds : Nat → List Nat) (ops : List (Nat × Nat)) : Mut :=
  ops.foldl (fun s p => fitCall N conds p.1 p.2 s) (init conds)

/-- the same history on the seeded variant `fitCallStale` -/
def runHistoryStale (N : Nat) (conds : Nat → List Nat) (ops : List (Nat × Nat)) : Mut :=
  ops.foldl (fun s p => fitCallStale N conds p.1 p.2 s) (init conds)

/-- one complete round: every function of `order` is `fit`-called with pairs of epoch `r`
(`ConditionalDistribution.fit` loops over its parameters dict in this way) -/
def round (order : List Nat) (r : Nat) : List (Nat × Nat) := order.map fun f => (f, r)

end VirVerif.Dep
