/-
Model of the callback protocol of `virocon.dependencies.DependenceFunction`
(`__init__`/`register`, `fit`, `_fit`, `callback`).  Core Lean only.

Objects are numbered by construction (= declaration) order `0 … N-1`; `conds h` is the list of
the dependence functions bound to parameters of `h` (keyword arguments of the constructor, in
keyword order, duplicates allowed).  What `_fit` computes numerically is *not* part of this
model; a `_fit` execution is an event: it bumps the function's version counter, records the
versions of all functions at that moment (`seen`), and is appended to the log.
-/
namespace VirVerif.Dep

/-- pointwise update (core-only, computable) -/
def upd {β} (f : Nat → β) (i : Nat) (v : β) : Nat → β := fun j => if j = i then v else f j

/-- mutable part of all `DependenceFunction` objects, indexed by declaration order -/
structure Mut where
  /-- `_may_fit` -/
  mayFit  : Nat → Bool
  /-- `hasattr(self, "x") and hasattr(self, "y")` -/
  hasXY   : Nat → Bool
  /-- `_fitted_conditioners` (a set; kept as a duplicate-free list in insertion order) -/
  fitted  : Nat → List Nat
  /-- number of `_fit` executions -/
  version : Nat → Nat
  /-- `seen h g` = version of `g` at `h`'s last `_fit` -/
  seen    : Nat → Nat → Nat
  /-- the `_fit` executions so far, newest first -/
  log     : List Nat

/-- is the declaration list one that Python can construct?  (`decls[i]` may only mention objects
that exist when object `i` is constructed) -/
def checkDecls (decls : List (List Nat)) : Bool :=
  (List.range decls.length).all fun i =>
    match decls[i]? with
    | some cs => cs.all fun g => decide (g < i)
    | none => false

/-- the conditioner lists as a function (objects that were never declared have none) -/
def condsOf (decls : List (List Nat)) (f : Nat) : List Nat :=
  match decls[f]? with
  | some cs => cs
  | none => []

/-- `f.dependents` in registration order: `h` registers at `f` once for every keyword of `h`
bound to `f`, while `h` is constructed; so the list is ordered by declaration index. -/
def dependents (N : Nat) (conds : Nat → List Nat) (f : Nat) : List Nat :=
  (List.range N).flatMap fun h => ((conds h).filter (fun g => g == f)).map fun _ => h

/-- set insertion -/
def insertNew (a : Nat) (l : List Nat) : List Nat := if l.contains a then l else l ++ [a]

/-- the numerical `_fit` of `f`, as an event -/
def bump (s : Mut) (f : Nat) : Mut :=
  { s with version := upd s.version f (s.version f + 1),
           seen := upd s.seen f (fun g => s.version g),
           log := f :: s.log }

/-- `h.callback(caller = f)`; `refit h` stands for `self.fit(self.x, self.y)` -/
def callback (conds : Nat → List Nat) (refit : Nat → Mut → Mut) (f : Nat) (s : Mut) (h : Nat) : Mut :=
  let s2 : Mut := { s with fitted := upd s.fitted h (insertNew f (s.fitted h)) }
  -- `self._fitted_conditioners.issubset(self.dependent_parameters.values())`
  if (s2.fitted h).all (fun g => (conds h).contains g) then
    let s3 : Mut := { s2 with mayFit := upd s2.mayFit h true }
    if s3.hasXY h then refit h s3 else s3
  else s2

/-- `_fit` followed by the callbacks on all registered dependents (fuel = recursion depth;
`doFit_fuel_irrelevant` shows that `N - f` is always enough) -/
def doFit (N : Nat) (conds : Nat → List Nat) : Nat → Nat → Mut → Mut
  | 0, _, s => s
  | fuel + 1, f, s =>
    (dependents N conds f).foldl (callback conds (doFit N conds fuel) f) (bump s f)

/-- the public `fit(x, y)` -/
def fitCall (N : Nat) (conds : Nat → List Nat) (f : Nat) (s : Mut) : Mut :=
  let s1 : Mut := { s with hasXY := upd s.hasXY f true }
  if s1.mayFit f then doFit N conds N f s1 else s1

/-- state after all constructors have run -/
def init (conds : Nat → List Nat) : Mut :=
  { mayFit := fun f => (conds f).isEmpty, hasXY := fun _ => false, fitted := fun _ => [],
    version := fun _ => 0, seen := fun _ _ => 0, log := [] }

/-- a whole history of public `fit` calls -/
def runHistory (N : Nat) (conds : Nat → List Nat) (ops : List Nat) : Mut :=
  ops.foldl (fun s f => fitCall N conds f s) (init conds)

end VirVerif.Dep
