/-
Monte-Carlo sample sizes of `MultivariateModel.marginal_icdf`, `conditional_icdf` and
`conditional_cdf` (virocon/jointmodels.py), core Lean only.

    marginal_icdf(p, dim, precision_factor):
        nr_exceeding_points = 100 * precision_factor
        p_small = np.min([p_min, 1 - p_max])
        n = int((1 / p_small) * nr_exceeding_points);  n = max([n, 100000])
    conditional_icdf(p, dim, given, precision_factor), per element p_val:
        p_small = p_val if p_val < 0.5 else 1 - p_val
        n = (1 / p_small) * nr_exceeding_points
        n = min([max([n, 100_000]), 10_000_000]);  n = int(n)
    conditional_cdf: n = 100_000

Generic in the number type: instantiated with `Float` in the driver (the code's own arithmetic;
`toNat` = truncation) and with `ℚ` (`toNat` = `Nat.floor`) in Properties/C16.lean.
-/
namespace VirVerif.McSize

/-- `np.min([p_min, 1 - p_max])` -/
def pSmallMarginal {α} [Sub α] [LT α] [DecidableLT α] [OfNat α 1] (pMin pMax : α) : α :=
  if 1 - pMax < pMin then 1 - pMax else pMin

/-- the product `(1 / p_small) * (100 * precision_factor)` both formulas start from -/
def rawN {α} [Mul α] [Div α] [OfNat α 1] [OfNat α 100] (pSmall pf : α) : α :=
  (1 / pSmall) * (100 * pf)

/-- `marginal_icdf`: `max([int(raw), 100000])` -/
def marginalN {α} [Mul α] [Div α] [OfNat α 1] [OfNat α 100] (toNat : α → Nat) (pSmall pf : α) : Nat :=
  Nat.max (toNat (rawN pSmall pf)) 100000

/-- `p_val if p_val < 0.5 else 1 - p_val` (`half` is the literal 0.5) -/
def pSmallCond {α} [Sub α] [LT α] [DecidableLT α] [OfNat α 1] (half p : α) : α :=
  if p < half then p else 1 - p

/-- `min([max([x, 100_000]), 10_000_000])` on the number type (Python returns the first maximal /
minimal element of the list) -/
def lowC {α} [LT α] [DecidableLT α] [OfNat α 100000] (x : α) : α :=
  if x < 100000 then 100000 else x

def clampN {α} [LT α] [DecidableLT α] [OfNat α 100000] [OfNat α 10000000] (x : α) : α :=
  if (10000000 : α) < lowC x then 10000000 else lowC x

/-- `conditional_icdf`: `int(min([max([raw, 100_000]), 10_000_000]))` for one probability -/
def condN {α} [Mul α] [Div α] [Sub α] [LT α] [DecidableLT α] [OfNat α 1] [OfNat α 100]
    [OfNat α 100000] [OfNat α 10000000] (toNat : α → Nat) (half p pf : α) : Nat :=
  toNat (clampN (rawN (pSmallCond half p) pf))

/-- `conditional_cdf` -/
def cdfN : Nat := 100000

end VirVerif.McSize
