/-
Control flow of `MultivariateModel.conditional_sample` (virocon/jointmodels.py): the search for
the upper end `x_max` of the sampling interval, the envelope `f_max`, the rejection loop and its
exits.  Core Lean only.  The density is an uninterpreted function (`TABLE` in the driver), the
random draws are handed over batch by batch (the harness replays `default_rng(seed).uniform`).
-/
import VirVerif.Model.Num
import VirVerif.Model.Transform
namespace VirVerif

/-! ### the `x_max` search

```
x_max = 100
while pdf([x_max]) < 1e-7:
    if x_max * 0.7 > 0.05: x_max = 0.7 * x_max
    else: warn(...); x_max = 0.05; break
```
`fuel` bounds the number of loop tests (`none` = fuel exhausted; `C16.xmax_search_terminates`
shows 23 tests always suffice for the shipped constants). The Boolean is "warning issued". -/
def xmaxSearch {α : Type} [Mul α] [LT α] [DecidableLT α] (pdf : α → α) (thr mult lo : α) :
    Nat → α → Option (α × Bool)
  | 0, _ => none
  | fuel + 1, x =>
    if pdf x < thr then
      if lo < x * mult then xmaxSearch pdf thr mult lo fuel (mult * x) else some (lo, true)
    else some (x, false)

/-- the `k`-th candidate `mult^k * hi`, computed as the loop computes it -/
def xmaxCand {α : Type} [Mul α] (mult hi : α) : Nat → α
  | 0 => hi
  | k + 1 => mult * xmaxCand mult hi k

/-! ### the rejection loop -/

inductive RejErr where
  | noIter            -- max_iter = 0: `i` is unbound after the loop (NameError)
  | badN              -- n = 0 (outside the quantifier; numpy raises on the empty concatenate)
  | batchSize (iter want gotX gotY : Nat)  -- the replayed stream does not have the size the loop asks for
  | outOfBatches
  | couldNotSample    -- CouldNotSampleError
  | xmaxFuel
  | indexError        -- too few conditioning values
  | emptyGrid
  deriving Repr, DecidableEq

structure RejOut (α : Type) where
  sample : List α
  maxIterWarning : Bool
  iterations : Nat
  accepted : Nat
  deriving Repr

/-- `x[y < pdf(x)]` -/
def acceptBatch {α : Type} [LT α] [DecidableLT α] (pdf : α → α) : List α → List α → List α
  | x :: xs, y :: ys => if y < pdf x then x :: acceptBatch pdf xs ys else acceptBatch pdf xs ys
  | _, _ => []

/-- `tmp_n = max([(n - n_counter) * 10, n])` -/
def tmpN (n cnt : Nat) : Nat := max ((n - cnt) * 10) n

/-- the `for i in range(max_iter)` loop. State: iterations still available, iterations done,
accepted values so far in stream order (`n_counter` is their number), remaining batches.
Result: accepted values, iterations done, whether the loop was left through `break`. -/
def rejLoop {α : Type} [LT α] [DecidableLT α] (pdf : α → α) (n : Nat) :
    Nat → Nat → List α → List (List α × List α) → Except RejErr (List α × Nat × Bool)
  | 0, done, acc, _ => .ok (acc, done, false)
  | left + 1, done, acc, bs =>
    if n ≤ acc.length then .ok (acc, done, true)
    else match bs with
      | [] => .error .outOfBatches
      | (xs, ys) :: bs' =>
        if xs.length = tmpN n acc.length ∧ ys.length = xs.length then
          rejLoop pdf n left (done + 1) (acc ++ acceptBatch pdf xs ys) bs'
        else .error (.batchSize done (tmpN n acc.length) xs.length ys.length)

/-- everything after `f_max` is known. After the loop `i` is the index at which `break` happened,
or `max_iter - 1`; `i == max_iter - 1` gives the warning branch, which returns ALL accepted
values (or raises `CouldNotSampleError` when there are none); otherwise the first `n`. -/
def rejSample {α : Type} [LT α] [DecidableLT α] (pdf : α → α) (n maxIter : Nat)
    (batches : List (List α × List α)) : Except RejErr (RejOut α) :=
  if maxIter = 0 then .error .noIter
  else if n = 0 then .error .badN
  else match rejLoop pdf n maxIter 0 [] batches with
    | .error e => .error e
    | .ok (acc, done, broke) =>
      let i := if broke then done else maxIter - 1
      if i = maxIter - 1 then
        if acc.isEmpty then .error .couldNotSample
        else .ok { sample := acc, maxIterWarning := true, iterations := done, accepted := acc.length }
      else .ok { sample := acc.take n, maxIterWarning := false, iterations := done, accepted := acc.length }

/-- constants of `conditional_sample` -/
structure RejConst (α : Type) where
  xMin : α      -- 1e-16
  hi : α        -- 100
  lo : α        -- 0.05
  thr : α       -- 1e-7
  mult : α      -- 0.7
  slack : α     -- 1.001
  gridN : Nat   -- 1000

structure CondOut (α : Type) where
  xMax : α
  xMaxWarning : Bool
  fMax : α
  out : RejOut α

/-- `conditional_sample(n, dim, given, max_iter)` for a joint density `pdfRow` on rows.
`linspace a b k` is `np.linspace(a, b, k)`; `draws xMax fMax` are the replayed batches
`(rng.uniform(x_min, x_max, tmp_n), rng.uniform(0, f_max, tmp_n))`. -/
def condSample {α : Type} [Mul α] [LT α] [DecidableLT α] [OfNat α 0]
    (pdfRow : List α → α) (linspace : α → α → Nat → List α) (c : RejConst α)
    (nDim dim : Nat) (given : List α) (n maxIter : Nat)
    (draws : α → α → List (List α × List α)) : Except RejErr (CondOut α) :=
  match xHat nDim dim given c.hi with
  | none => .error .indexError
  | some _ =>
    let pdf : α → α := fun x => match xHat nDim dim given x with
      | some row => pdfRow row
      | none => 0
    match xmaxSearch pdf c.thr c.mult c.lo 64 c.hi with
    | none => .error .xmaxFuel
    | some (xMax, w) =>
      match listMax ((linspace c.xMin xMax c.gridN).map pdf) with
      | none => .error .emptyGrid
      | some m =>
        let fMax := m * c.slack
        match rejSample pdf n maxIter (draws xMax fMax) with
        | .error e => .error e
        | .ok o => .ok { xMax := xMax, xMaxWarning := w, fMax := fMax, out := o }

end VirVerif
