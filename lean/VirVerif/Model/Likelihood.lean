/-
Log-likelihoods of virocon's distribution families and the closed-form estimators behind
`Distribution.fit(data, method="mle")` (virocon/distributions.py, `_fit_mle` of every family).

Core Lean only.  Everything is polymorphic in the number type `α`; the transcendental leaves
(`log`, `exp`, `pow`, `sqrt`, `lgamma`, `log I₀`, `cos`) are *parameters*: the driver runs the
model at `Float` with the leaves looked up in `TABLE`s that the harness fills with the values of
the same numpy/scipy calls, the theorems (Properties/C12.lean) instantiate them with Mathlib's
`Real.log`, `Real.exp`, `Real.rpow`, `Real.sqrt` (or leave them abstract where nothing about
them is needed).

What is modelled
  * `lsDens`, `logLik`     a location-scale density `g((x-l)/s)/s` and the log-likelihood of a sample
  * `…LogPdf`              the documented densities' logarithms in closed form (Weibull-3p,
                           exponentiated Weibull, normal, log-normal, generalized gamma, von Mises,
                           gamma and Gumbel as the examples of `ScipyDistribution` subclasses: one with a
                           shape parameter, one with location and scale only)
  * `normalFit`            scipy's `norm.fit`: mean and population standard deviation
  * `lognormalFit`         scipy's analytic branch of `lognorm.fit(floc=0)` followed by virocon's
                           `_scale` setter: `mu = log(exp(mean(log x)))`, sigma = rms deviation of the logs
  * `normalFitFixedLoc/Scale`, `lognormalFitFixedMu/Sigma`   the same closed forms with one parameter fixed
                           (scipy's `floc` / `fscale` / `f0` branches of `norm.fit` and `lognorm.fit(floc=0)`)
  * `normFit…`             `LogNormalNormFitDistribution._fit_mle`: sample mean and `ddof=1`
                           standard deviation of the *data*, mapped to (mu, sigma) by the moment equations
What is not modelled: scipy's iterative optimisers (Nelder–Mead in `rv_continuous.fit`), see C12.
-/
namespace VirVerif

variable {α : Type}

/-- number of observations as an element of `α` (no cast needed: a sum of ones) -/
def cnt [Add α] [Zero α] [OfNat α 1] (xs : List α) : α := (xs.map fun _ => (1 : α)).sum

/-- arithmetic mean; `0/0` for the empty list is never used: callers guard -/
def meanL [Add α] [Zero α] [Div α] [OfNat α 1] (xs : List α) : α := xs.sum / cnt xs

/-- density of a location-scale family with standard density `g`: `g((x-l)/s)/s` -/
def lsDens [Sub α] [Div α] (g : α → α) (l s x : α) : α := g ((x - l) / s) / s

/-- log-likelihood of a sample under a density `f` -/
def logLik [Add α] [Zero α] (log : α → α) (f : α → α) (xs : List α) : α :=
  (xs.map fun x => log (f x)).sum

/-- sum of a log-density over a sample -/
def sumLogPdf [Add α] [Zero α] (lp : α → α) (xs : List α) : α := (xs.map lp).sum

/-! ### documented log-densities -/

/-- Weibull (3 parameters): `log[ β/α · z^(β-1) · exp(-z^β) ]`, `z = (x-γ)/α` -/
def weibullLogPdf [Add α] [Sub α] [Mul α] [Div α] [OfNat α 1]
    (log : α → α) (pow : α → α → α) (a b g x : α) : α :=
  let z := (x - g) / a
  (log b - log a + (b - 1) * log z - pow z b)

/-- exponentiated Weibull: `log[ δβ/α · z^(β-1) · (1-exp(-z^β))^(δ-1) · exp(-z^β) ]`, `z = x/α`;
`1 - exp(-p)` is taken as `-expm1(-p)` (`expm1 t = exp t - 1`; the leaf avoids the cancellation for
small `p`, as scipy's `exponweib._logpdf` does) -/
def expWeibullLogPdf [Add α] [Sub α] [Mul α] [Div α] [Neg α] [OfNat α 1]
    (log expm1 : α → α) (pow : α → α → α) (a b d x : α) : α :=
  let z := x / a
  let p := pow z b
  (log d + log b - log a + (b - 1) * log z + (d - 1) * log (-(expm1 (-p))) - p)

/-- normal: `-log σ - log(2π)/2 - ((x-μ)/σ)²/2`; `l2pi` is the value of `log(2π)` -/
def normalLogPdf [Sub α] [Mul α] [Div α] [Neg α] [OfNat α 2]
    (log : α → α) (l2pi mu sigma x : α) : α :=
  let z := (x - mu) / sigma
  (-(log sigma) - l2pi / 2 - z * z / 2)

/-- log-normal: the normal log-density of `log x` minus `log x` -/
def lognormalLogPdf [Sub α] [Mul α] [Div α] [Neg α] [OfNat α 2]
    (log : α → α) (l2pi mu sigma x : α) : α :=
  (normalLogPdf log l2pi mu sigma (log x) - log x)

/-- generalized gamma: `log[ λc/Γ(m) · (λx)^(cm-1) · exp(-(λx)^c) ]` -/
def genGammaLogPdf [Add α] [Sub α] [Mul α] [OfNat α 1]
    (log lgamma : α → α) (pow : α → α → α) (m c lam x : α) : α :=
  let z := lam * x
  (log lam + log c - lgamma m + (c * m - 1) * log z - pow z c)

/-- von Mises: `κ cos(x-μ) - log(2π) - log I₀(κ)` -/
def vonMisesLogPdf [Sub α] [Mul α]
    (cos logI0 : α → α) (l2pi kappa mu x : α) : α :=
  (kappa * cos (x - mu) - l2pi - logI0 kappa)

/-- gamma with location and scale (a `ScipyDistribution` subclass):
`(a-1) log z - z - log Γ(a) - log s`, `z = (x-l)/s` -/
def gammaLogPdf [Sub α] [Mul α] [Div α] [OfNat α 1]
    (log lgamma : α → α) (a l s x : α) : α :=
  let z := (x - l) / s
  ((a - 1) * log z - z - lgamma a - log s)

/-- Gumbel with location and scale (a `ScipyDistribution` subclass of `scipy.stats.gumbel_r`, which has no
shape parameter): `-log s - z - exp(-z)`, `z = (x-l)/s` -/
def gumbelLogPdf [Sub α] [Div α] [Neg α]
    (log exp : α → α) (l s x : α) : α :=
  let z := (x - l) / s
  (-(log s) - z - exp (-z))

/-! ### closed-form estimators -/

/-- mean of squared deviations from `m` -/
def meanSqDev [Add α] [Sub α] [Mul α] [Div α] [Zero α] [OfNat α 1] (m : α) (xs : List α) : α :=
  meanL (xs.map fun x => (x - m) * (x - m))

/-- `scipy.stats.norm.fit(data)`: `loc = data.mean()`, `scale = sqrt(((data-loc)**2).mean())`.
`none` for an empty sample (numpy: nan + RuntimeWarning). -/
def normalFit [Add α] [Sub α] [Mul α] [Div α] [Zero α] [OfNat α 1]
    (sqrt : α → α) : List α → Option (α × α)
  | [] => none
  | x :: xs =>
    let m := meanL (x :: xs)
    some (m, sqrt (meanSqDev m (x :: xs)))

/-- `LogNormalDistribution._fit_mle` with free parameters: scipy's analytic branch of
`lognorm.fit(..., floc=0)` gives `scale = exp(mean(log x))`,
`shape = sqrt(mean((log x - log scale)²))`; virocon stores `mu = log(scale)`.
`none` if the sample is empty or has a non-positive value (scipy raises `FitDataError`). -/
def lognormalFit [Add α] [Sub α] [Mul α] [Div α] [Zero α] [OfNat α 1] [LT α] [DecidableLT α]
    (log exp sqrt : α → α) (xs : List α) : Option (α × α) :=
  match xs with
  | [] => none
  | _ :: _ =>
    if xs.all (fun x => decide ((0 : α) < x)) then
      let lnd := xs.map log
      let mu := log (exp (meanL lnd))
      some (mu, sqrt (meanSqDev mu lnd))
    else none

/-! ### closed-form estimators with one parameter fixed (`f_mu` / `f_sigma` → scipy's `floc` / `fscale` / `f0`) -/

/-- `NormalDistribution(f_mu=m).fit(data)` = `scipy.stats.norm.fit(data, floc=m)`:
`scale = sqrt(((data - m)**2).mean())`.  `none` for an empty sample. -/
def normalFitFixedLoc [Add α] [Sub α] [Mul α] [Div α] [Zero α] [OfNat α 1]
    (sqrt : α → α) (m : α) : List α → Option α
  | [] => none
  | x :: xs => some (sqrt (meanSqDev m (x :: xs)))

/-- `NormalDistribution(f_sigma=s).fit(data)` = `scipy.stats.norm.fit(data, fscale=s)`: `loc = data.mean()`
(whatever `s`).  `none` for an empty sample. -/
def normalFitFixedScale [Add α] [Div α] [Zero α] [OfNat α 1] : List α → Option α
  | [] => none
  | x :: xs => some (meanL (x :: xs))

/-- `LogNormalDistribution(f_mu=m).fit(data)` = `lognorm.fit(data, floc=0, fscale=exp(m))`: scipy's analytic branch
gives `shape = sqrt(mean((log x - log(scale))²))` with `scale = exp(m)`; virocon then restores `mu = m`.
`none` if the sample is empty or has a non-positive value. -/
def lognormalFitFixedMu [Add α] [Sub α] [Mul α] [Div α] [Zero α] [OfNat α 1] [LT α] [DecidableLT α]
    (log exp sqrt : α → α) (m : α) (xs : List α) : Option α :=
  match xs with
  | [] => none
  | _ :: _ =>
    if xs.all (fun x => decide ((0 : α) < x)) then some (sqrt (meanSqDev (log (exp m)) (xs.map log)))
    else none

/-- `LogNormalDistribution(f_sigma=s).fit(data)` = `lognorm.fit(data, floc=0, f0=s)`:
`scale = exp(mean(log x))`, stored as `mu = log(scale)` (whatever `s`). -/
def lognormalFitFixedSigma [Add α] [Div α] [Zero α] [OfNat α 1] [LT α] [DecidableLT α]
    (log exp : α → α) (xs : List α) : Option α :=
  match xs with
  | [] => none
  | _ :: _ =>
    if xs.all (fun x => decide ((0 : α) < x)) then some (log (exp (meanL (xs.map log))))
    else none

/-- `LogNormalNormFitDistribution._fit_mle`: `mu_norm = np.mean(sample)`,
`sigma_norm = np.std(sample, ddof=1)`.  `none` for fewer than two observations. -/
def normFit [Add α] [Sub α] [Mul α] [Div α] [Zero α] [OfNat α 1]
    (sqrt : α → α) : List α → Option (α × α)
  | [] => none
  | [_] => none
  | x :: y :: xs =>
    let l := x :: y :: xs
    let m := meanL l
    some (m, sqrt ((l.map fun v => (v - m) * (v - m)).sum / (cnt l - 1)))

/-- `LogNormalNormFitDistribution.calculate_mu`: `log(m / sqrt(1 + s²/m²))` -/
def normFitMu [Add α] [Mul α] [Div α] [OfNat α 1] (log sqrt : α → α) (m s : α) : α :=
  log (m / sqrt (1 + s * s / (m * m)))

/-- `LogNormalNormFitDistribution.calculate_sigma`: `sqrt(log(1 + s²/m²))` -/
def normFitSigma [Add α] [Mul α] [Div α] [OfNat α 1] (log sqrt : α → α) (m s : α) : α :=
  sqrt (log (1 + s * s / (m * m)))

end VirVerif
