/-
Fit pipeline of jointmodels.py (`_check_and_fill_fit_desc`, `_split_in_intervals`, `fit`) and
`ConditionalDistribution.fit` (distributions.py 270-327). Core Lean only.
-/
import VirVerif.Model.Slicers
namespace VirVerif

/-- `dist_data = [data[int_slice, dist_idx] for int_slice in interval_slices]`: the values of the
fitted dimension at the positions selected by each mask, in input order. -/
def splitData {α} (ivs : List (Interval α)) (distCol : List α) : List (List α) :=
  ivs.map fun iv => maskSelect iv.mask distCol

/-- a fit description: method and weights keyword (abstract tokens) -/
structure FitDesc where
  method : String
  weights : Option String
  deriving Repr, DecidableEq

/-- entry of the user's `fit_descriptions` list: `None`, or a dict with/without the keys -/
inductive FitDescIn where
  | none
  | dict (method : Option String) (weights : Option (Option String))
  deriving Repr, DecidableEq

def defaultFitDesc : FitDesc := { method := "mle", weights := none }

inductive FitDescErr where
  | wrongLength (got need : Nat)
  | missingMethod (dim : Nat)
  deriving Repr, DecidableEq

/-- `_check_and_fill_fit_desc`: one description per dimension; `None` → default; missing
`weights` → `None`; missing `method` → ValueError naming the dimension. -/
def fillFitDescAux : Nat → List FitDescIn → Except FitDescErr (List FitDesc)
  | _, [] => .ok []
  | i, d :: ds =>
    match d with
    | .none => (fillFitDescAux (i + 1) ds).map (defaultFitDesc :: ·)
    | .dict none _ => .error (.missingMethod i)
    | .dict (some m) w => (fillFitDescAux (i + 1) ds).map ({ method := m, weights := w.getD none } :: ·)

def fillFitDesc (nDim : Nat) (descs : Option (List FitDescIn)) : Except FitDescErr (List FitDesc) :=
  match descs with
  | none => .ok (List.replicate nDim defaultFitDesc)
  | some ds => if ds.length ≠ nDim then .error (.wrongLength ds.length nDim) else fillFitDescAux 0 ds

/-- `ConditionalDistribution.fit`: per-interval estimates by an estimator `est` (the template's
stand-alone fit, applied to a fresh copy), then for every dependent parameter the pairs
(interval reference, estimate) that its dependence function is fitted to. -/
def condFitInputs {α β} (est : List α → β) (refs : List α) (intervals : List (List α)) :
    List β × List (α × β) :=
  let ests := intervals.map est
  (ests, refs.zip ests)

end VirVerif
