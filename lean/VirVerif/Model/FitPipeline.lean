/-
Fit pipeline of jointmodels.py (`_check_and_fill_fit_desc`, `_split_in_intervals`, `fit`) and
`ConditionalDistribution.fit` (distributions.py 270-327). Core Lean only.
-/
import VirVerif.Model.Slicers
namespace VirVerif

/-- `dist_data = [data[int_slice, dist_idx] for int_slice in interval_slices]`: the values of the
fitted dimension at the positions selected by each mask, in input order. -/
def splitData {α} (ivs : List (Interval α)) (distCol : List α) : List (List α) :=
  ivs.map fun iv => maskSelect iv.mask distCol

/-- a fit description: method and weights keyword (abstract tokens) -/
structure FitDesc where
  method : String
  weights : Option String
  deriving Repr, DecidableEq

/-- entry of the user's `fit_descriptions` list: `None`, or a dict with/without the keys -/
inductive FitDescIn where
  | none
  | dict (method : Option String) (weights : Option (Option String))
  deriving Repr, DecidableEq

def defaultFitDesc : FitDesc := { method := "mle", weights := none }

inductive FitDescErr where
  | wrongLength (got need : Nat)
  | missingMethod (dim : Nat)
  deriving Repr, DecidableEq

/-- `_check_and_fill_fit_desc`: one description per dimension; `None` → default; missing
`weights` → `None`; missing `method` → ValueError naming the dimension. -/
def fillFitDescAux : Nat → List FitDescIn → Except FitDescErr (List FitDesc)
  | _, [] => .ok []
  | i, d :: ds =>
    match d with
    | .none => (fillFitDescAux (i + 1) ds).map (defaultFitDesc :: ·)
    | .dict none _ => .error (.missingMethod i)
    | .dict (some m) w => (fillFitDescAux (i + 1) ds).map ({ method := m, weights := w.getD none } :: ·)

def fillFitDesc (nDim : Nat) (descs : Option (List FitDescIn)) : Except FitDescErr (List FitDesc) :=
  match descs with
  | none => .ok (List.replicate nDim defaultFitDesc)
  | some ds => if ds.length ≠ nDim then .error (.wrongLength ds.length nDim) else fillFitDescAux 0 ds

/-- `ConditionalDistribution.fit`: per-interval estimates by an estimator `est` (the template's
stand-alone fit, applied to a fresh copy), then for every dependent parameter the pairs
(interval reference, estimate) that its dependence function is fitted to. -/
def condFitInputs {α β} (est : List α → β) (refs : List α) (intervals : List (List α)) :
    List β × List (α × β) :=
  let ests := intervals.map est
  (ests, refs.zip ests)

/-! ### the Width / Number slicers with their float arithmetic abstracted

`widthSliceF` / `numberSliceF` (Model/Slicers.lean) compute the interval starts with `arange` /
`linspace` on doubles. For the order-invariance theorem only one fact about that arithmetic is
needed: the starts are a function of the data **maximum** (Width) resp. **minimum and maximum**
(Number) and of the slicer's options, of nothing else. `widthSliceG` / `numberSliceG` are the same
functions with that computation as a parameter (`startsOf`); at `Float` with `arange` / `linspaceNoEnd`
they are definitionally the executable models (`C09.widthSliceF_eq_G`, `C09.numberSliceF_eq_G`). -/

def widthSliceG {α} [LE α] [LT α] [DecidableLE α] [DecidableLT α] [Add α] [Sub α]
    (startsOf : α → List α) (rightOpen : Bool) (ref : RefKind) (width halfWidth : α)
    (vmax : Option α) (minPts minIntervals : Nat) (data : List α) :
    Except SliceErr (List (Interval α)) :=
  match (match vmax with | some m => some m | none => listMax data) with
  | none => .error .emptyData
  | some dataMax =>
    finishSlice minIntervals (dropSmall minPts
      (widthIntervalsOfStarts rightOpen ref width halfWidth (startsOf dataMax) data))

def numberSliceG {α} [LE α] [LT α] [DecidableLE α] [DecidableLT α] [Add α]
    (startsOf : α → α → List α × α) (half : α → α) (nIntervals : Nat) (includeMax : Bool) (ref : RefKind)
    (range : Option (α × α)) (minPts minIntervals : Nat) (data : List α) :
    Except SliceErr (List (Interval α)) :=
  let r : Option (α × α) := match range with
    | some r => some r
    | none => match listMin data, listMax data with
      | some a, some b => some (a, b)
      | _, _ => none
  match r with
  | none => .error .emptyData
  | some (a, b) =>
    let (starts, w) := startsOf a b
    finishSlice (min minIntervals nIntervals)
      (dropSmall minPts (numberIntervalsOfStarts includeMax ref w (half w) b starts data))

end VirVerif
