/-
Model/Heap.lean (C19) — an abstract object store, reachability, and operations described by
their *effect* (writes to existing objects + allocation of fresh ones) and their *declared
write footprint*.  Core Lean only (compiled into the driver).

Python reading.  An object is anything with identity whose content can be observed
(instance `__dict__`, dict, list, set, ndarray, tuple/partial holding non-atoms); its fields
are, in order, immutable atoms (`Val.imm`: numbers, strings, None, tuples of atoms, functions,
classes, modules, ndarray bytes — represented by a hash) or references (`Val.ref`).
`ObjId` is the position in the store; the store only grows (garbage stays where it is).
The store is the finite map `ObjId → Option Obj` given by `Store.get`.
-/
namespace VirVerif.Heap

scoped notation "ObjId" => Nat

inductive Val where
  | imm (v : Int)
  | ref (o : ObjId)
  deriving DecidableEq, Repr, Inhabited

structure Obj where
  /-- `false` for objects Python cannot change in place (tuple, frozen containers) -/
  mutable : Bool
  fields : List Val
  deriving DecidableEq, Repr, Inhabited

def Val.refOf : Val → Option ObjId
  | .ref o => some o
  | .imm _ => none

def Obj.refs (ob : Obj) : List ObjId := ob.fields.filterMap Val.refOf

structure Store where
  objs : List Obj
  deriving DecidableEq, Repr, Inhabited

namespace Store

/-- the store as a partial map `ObjId → Obj` -/
def get (s : Store) (o : ObjId) : Option Obj := s.objs[o]?

/-- first unallocated id -/
def next (s : Store) : Nat := s.objs.length

def isMut (s : Store) (o : ObjId) : Bool :=
  match s.get o with
  | some ob => ob.mutable
  | none => false

def succs (s : Store) (o : ObjId) : List ObjId :=
  match s.get o with
  | some ob => ob.refs
  | none => []

end Store

/-- what an operation did: new contents of existing objects, and fresh objects (placed at
`next, next+1, …`). A write to an id that is not allocated is ignored. -/
structure Effect where
  writes : List (ObjId × Obj)
  allocs : List Obj
  deriving Repr, Inhabited

def Store.write (s : Store) (w : ObjId × Obj) : Store := ⟨s.objs.set w.1 w.2⟩

def Store.apply (s : Store) (e : Effect) : Store :=
  ⟨(e.writes.foldl Store.write s).objs ++ e.allocs⟩

/-- run a sequence of effects -/
def Store.run (s : Store) : List Effect → Store
  | [] => s
  | e :: es => (s.apply e).run es

/-- reachability from a list of roots (models, caller arrays, contours) -/
inductive Reach (s : Store) (roots : List ObjId) : ObjId → Prop
  | root {r : ObjId} : r ∈ roots → Reach s roots r
  | step {o o' : ObjId} {ob : Obj} :
      Reach s roots o → s.get o = some ob → o' ∈ ob.refs → Reach s roots o'

/-- no dangling references -/
def WF (s : Store) : Prop := ∀ o ob, s.get o = some ob → ∀ o' ∈ ob.refs, o' < s.next

def Live (s : Store) (roots : List ObjId) : Prop := ∀ r ∈ roots, r < s.next

/-! ### the operation alphabet and the declared footprints -/

inductive Op where
  /-- `pdf`, `cdf`, `icdf`, `marginal_*`, seeded `draw_sample` of model `m` on caller arrays `args` -/
  | eval (m : ObjId) (args : List ObjId)
  /-- construction of one of the six contour classes (the new contour object is allocated) -/
  | contour (m : ObjId) (args : List ObjId)
  /-- `calculate_design_conditions(c, steps)` -/
  | design (c : ObjId) (args : List ObjId)
  /-- one of the five plot functions -/
  | plot (args : List ObjId)
  /-- `save_contour_coordinates` -/
  | save (c : ObjId) (args : List ObjId)
  /-- `copy.deepcopy(t)` -/
  | deepcopy (t : ObjId)
  /-- one of the six predefined getters (+ model construction from the fresh description) -/
  | getter (k : Nat)
  /-- `m.fit(data, fit_descriptions)`: `descs` are the caller's fit-description objects, which the
  code fills in place (`_check_and_fill_fit_desc` assigns into the caller's list and dicts) -/
  | fit (m : ObjId) (descs : List ObjId) (args : List ObjId)
  deriving Repr, Inhabited

/-- is the op one that must not write anything that exists? -/
def Op.isPure : Op → Bool
  | .fit _ _ _ => false
  | _ => true

/-- declared write footprint among the *existing* objects: the mutable objects reachable from the
fitted model (and from the fit descriptions handed in) for `fit`, nothing for every other op
(they may only allocate). -/
def footprint (s : Store) : Op → ObjId → Prop
  | .fit m ds _ => fun o => Reach s (m :: ds) o ∧ s.isMut o = true
  | _ => fun _ => False

/-- the effect respects the declared footprint of the op -/
def Admissible (s : Store) (op : Op) (e : Effect) : Prop :=
  ∀ w ∈ e.writes, footprint s op w.1

/-- references created by the effect stay inside the new store -/
def EffWF (s : Store) (e : Effect) : Prop :=
  (∀ w ∈ e.writes, ∀ o' ∈ w.2.refs, o' < s.next + e.allocs.length) ∧
  (∀ ob ∈ e.allocs, ∀ o' ∈ ob.refs, o' < s.next + e.allocs.length)

/-- `fit` does not capture foreign objects: every reference it stores points to a fresh object
or to something its roots (the model, the fit descriptions) already reached. -/
def NoCapture (s : Store) (fr : List ObjId) (e : Effect) : Prop :=
  (∀ w ∈ e.writes, ∀ o' ∈ w.2.refs, s.next ≤ o' ∨ Reach s fr o') ∧
  (∀ ob ∈ e.allocs, ∀ o' ∈ ob.refs, s.next ≤ o' ∨ Reach s fr o')

/-! ### executable counterparts (what the driver evaluates on the harness' id()-graphs) -/

/-- depth-first closure with fuel; `seen` accumulates the visited ids -/
def dfs (s : Store) : Nat → List ObjId → List ObjId → List ObjId
  | 0, _, seen => seen
  | _ + 1, [], seen => seen
  | n + 1, o :: st, seen =>
    if seen.contains o then dfs s n st seen else dfs s n (s.succs o ++ st) (o :: seen)

def Store.edgeCount (s : Store) : Nat := s.objs.foldl (fun a ob => a + ob.refs.length) 0

def reachList (s : Store) (roots : List ObjId) : List ObjId :=
  dfs s (s.edgeCount + s.next + roots.length + 1) roots []

/-- certificate: `l` contains the roots and is closed under successor -/
def closedB (s : Store) (roots l : List ObjId) : Bool :=
  roots.all l.contains && l.all (fun o => (s.succs o).all l.contains)

def wfB (s : Store) : Bool := s.objs.all (fun ob => ob.refs.all (fun o' => decide (o' < s.next)))

def liveB (s : Store) (roots : List ObjId) : Bool := roots.all (fun r => decide (r < s.next))

/-- executable footprint (list of ids) -/
def footprintList (s : Store) : Op → List ObjId
  | .fit m ds _ => (reachList s (m :: ds)).filter s.isMut
  | _ => []

/-- the observed written ids all lie in the declared footprint -/
def admissibleB (s : Store) (op : Op) (written : List ObjId) : Bool :=
  written.all (footprintList s op).contains

/-- written ids outside the declared footprint -/
def offenders (s : Store) (op : Op) (written : List ObjId) : List ObjId :=
  written.filter (fun o => !(footprintList s op).contains o)

/-- model prediction: the sub-store of `root` is touched by the observed writes -/
def touchedB (s : Store) (root : ObjId) (written : List ObjId) : Bool :=
  written.any (reachList s [root]).contains

/-- mutable objects reachable from both roots -/
def sharedMut (s : Store) (as : List ObjId) (b : ObjId) : List ObjId :=
  ((reachList s as).filter (reachList s [b]).contains).filter s.isMut

def sharedAny (s : Store) (as : List ObjId) (b : ObjId) : List ObjId :=
  (reachList s as).filter (reachList s [b]).contains

def noCaptureB (s : Store) (fr : List ObjId) (e : Effect) : Bool :=
  let r := reachList s fr
  let ok := fun (ob : Obj) => ob.refs.all (fun o' => decide (s.next ≤ o') || r.contains o')
  e.writes.all (fun w => ok w.2) && e.allocs.all ok

def effWFB (s : Store) (e : Effect) : Bool :=
  let ok := fun (ob : Obj) => ob.refs.all (fun o' => decide (o' < s.next + e.allocs.length))
  e.writes.all (fun w => ok w.2) && e.allocs.all ok

/-- the result rooted at `r` (in the store after the effect) consists, as far as it is mutable,
of objects allocated by this very effect -/
def freshResultB (s : Store) (e : Effect) (r : ObjId) : Bool :=
  let s' := s.apply e
  ((reachList s' [r]).filter s'.isMut).all (fun o => decide (s.next ≤ o))

/-! ### `ConditionalDistribution.fit`: one template, one fitted copy per interval -/

/-- `fits` are the parameter vectors the per-interval `fit` calls write (leaf values).
With `useCopy` (the code: `dist = copy.deepcopy(self.distribution)`) each interval gets a fresh
object; without it (counter-model: `dist = self.distribution`) the template itself is written.
Returns the final store and the ids stored in `distributions_per_interval`. -/
def condFit (useCopy : Bool) (s : Store) (t : ObjId) : List (List Val) → Store × List ObjId
  | [] => (s, [])
  | p :: ps =>
    match s.get t with
    | none => (s, [])
    | some tob =>
      if useCopy then
        let d := s.next
        let s1 : Store := ⟨s.objs ++ [tob]⟩
        let s2 := s1.write (d, { tob with fields := p })
        let r := condFit useCopy s2 t ps
        (r.1, d :: r.2)
      else
        let s2 := s.write (t, { tob with fields := p })
        let r := condFit useCopy s2 t ps
        (r.1, t :: r.2)

end VirVerif.Heap
