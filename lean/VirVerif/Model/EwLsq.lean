/-
Model of the least-squares fit of the exponentiated Weibull distribution
(`ExponentiatedWeibullDistribution._fit_lsq`, `_estimate_alpha_beta`, `_wlsq_error` in
virocon/distributions.py).  Core Lean only (no Mathlib): compiled into the driver, run at
`Float` (leaves `np.log10`, `np.log`, `np.power` come from TABLE lines) and at `Rat` (exact).

Pipeline of the code (after the `fix:` commits for DESIGN section 4 #5 / #5b):

  _fit_lsq(data, weights):
      x = sort(data)
      weights: None        -> ones / n
               'linear'    -> x / sum(x)          ('quadratic' x**2, 'cubic' x**3)
               array       -> reordered with lexsort((weights, data)), divided by its sum
      p = (arange(1, n+1) - 0.5) / n
      delta fixed: (alpha, beta) = _estimate_alpha_beta(delta, x, p, weights)
      delta free : delta = fmin(_wlsq_error, delta0, args=(x, p, weights))[0]; then as above

  _estimate_alpha_beta(delta, x, p, w):
      drop the triples with x == 0; w = w / sum(w)
      x* = log10 x;  p* = log10(-ln(1 - p^(1/delta)))
      closed-form weighted regression of x* on p*  ->  a_hat, b_hat
      alpha_hat = 10^a_hat;  beta_hat = divisor / dividend (= 1 / b_hat)
-/
namespace VirVerif.EwLsq

/-- one observation: plotting position (or `p*`), value (or `x*`), weight -/
structure Pt (α : Type) where
  p : α
  x : α
  w : α

/-- plain sum, written as the fold the theorems reason about (`np.sum` is pairwise in numpy:
the correspondence compares sums with a conditioning-aware tolerance and at `Rat`) -/
def sumBy {α} [Add α] [OfNat α 0] (g : Pt α → α) (d : List (Pt α)) : α :=
  (d.map g).foldr (· + ·) 0

/-- `np.sum(w * f)` -/
def wsum {α} [Add α] [Mul α] [OfNat α 0] (f : Pt α → α) (d : List (Pt α)) : α :=
  sumBy (fun t => t.w * f t) d

/-- the four quantities `_estimate_alpha_beta` computes from `w`, `p_star`, `x_star` -/
structure Moments (α : Type) where
  pbar : α      -- p_star_bar = sum(w * p_star)
  xbar : α      -- x_star_bar = sum(w * x_star)
  dividend : α  -- sum(w * p_star * x_star) - p_star_bar * x_star_bar
  divisor : α   -- sum(w * p_star**2) - p_star_bar**2

def moments {α} [Add α] [Sub α] [Mul α] [OfNat α 0] (d : List (Pt α)) : Moments α :=
  let pbar := sumBy (fun t => t.w * t.p) d
  let xbar := sumBy (fun t => t.w * t.x) d
  { pbar := pbar, xbar := xbar,
    dividend := sumBy (fun t => t.w * t.p * t.x) d - pbar * xbar,
    divisor := sumBy (fun t => t.w * (t.p * t.p)) d - pbar * pbar }

/-- the closed form of `_estimate_alpha_beta` in log10-log10 coordinates: `(a_hat, b_hat)`.
This is the formula of the code *as it was* (no normalisation of `w` inside). -/
def wls {α} [Add α] [Sub α] [Mul α] [Div α] [OfNat α 0] (d : List (Pt α)) : α × α :=
  let m := moments d
  let b := m.dividend / m.divisor
  (m.xbar - b * m.pbar, b)

/-- weighted squared error of the line `x = a + b p` -/
def sse {α} [Add α] [Sub α] [Mul α] [OfNat α 0] (a b : α) (d : List (Pt α)) : α :=
  wsum (fun t => (t.x - a - b * t.p) * (t.x - a - b * t.p)) d

/-- `np.sum(w)` -/
def total {α} [Add α] [OfNat α 0] (d : List (Pt α)) : α := sumBy (fun t => t.w) d

/-- `w / np.sum(w)` -/
def normalise {α} [Add α] [Div α] [OfNat α 0] (d : List (Pt α)) : List (Pt α) :=
  let s := total d
  d.map fun t => { t with w := t.w / s }

/-- `w ↦ c * w` (a user scaling the weights) -/
def scaleW {α} [Mul α] (c : α) (d : List (Pt α)) : List (Pt α) :=
  d.map fun t => { t with w := c * t.w }

/-- `x != 0` as numpy's `nonzero` sees it (finite input) -/
def isNonzero {α} [LT α] [DecidableLT α] [OfNat α 0] (x : α) : Bool :=
  decide (x < 0) || decide (0 < x)

/-- `indices = np.nonzero(x); x, p, w = x[indices], p[indices], w[indices]` -/
def dropZeros {α} [LT α] [DecidableLT α] [OfNat α 0] (d : List (Pt α)) : List (Pt α) :=
  d.filter fun t => isNonzero t.x

/-- numpy leaves and conversions the pipeline uses -/
structure Env (α : Type) where
  lg10 : α → α       -- np.log10
  ln : α → α         -- np.log
  pow : α → α → α    -- np.power
  ofN : Nat → α      -- int -> float64
  half : α           -- 0.5

/-- `-np.log(1 - p ** (1 / delta))` -/
def qOf {α} [Sub α] [Div α] [Neg α] [OfNat α 1] (E : Env α) (δ p : α) : α :=
  -(E.ln (1 - E.pow p (1 / δ)))

/-- `x_star = log10 x`, `p_star = log10(-ln(1 - p^(1/delta)))` -/
def star {α} [Sub α] [Div α] [Neg α] [OfNat α 1] (E : Env α) (δ : α) (t : Pt α) : Pt α :=
  { p := E.lg10 (qOf E δ t.p), x := E.lg10 t.x, w := t.w }

inductive LsqErr where
  | noWeight        -- sum of the weights of the non-zero observations is 0: 0/0 in the code
  | degenerate      -- b_hat_divisor = 0 (all p* equal): division by zero in the code
  | flat            -- b_hat_dividend = 0 (slope 0): beta_hat = divisor / 0 in the code
  | lengthMismatch  -- len(weights) != len(data): exception in the code
  deriving Repr, DecidableEq

structure Est (α : Type) where
  aHat : α
  bHat : α
  alphaHat : α
  betaHat : α

def isZero {α} [LT α] [DecidableLT α] [OfNat α 0] (x : α) : Bool := !isNonzero x

/-- regression step on already transformed, already filtered points: normalise, closed form -/
def regress {α} [Add α] [Sub α] [Mul α] [Div α] [OfNat α 0] [LT α] [DecidableLT α]
    (d : List (Pt α)) : Except LsqErr (α × α × α) :=
  if isZero (total d) then .error .noWeight else
  let m := moments (normalise d)
  if isZero m.divisor then .error .degenerate else
  if isZero m.dividend then .error .flat else
  let b := m.dividend / m.divisor
  .ok (m.xbar - b * m.pbar, b, m.divisor / m.dividend)

/-- `_estimate_alpha_beta(delta, x, p, w)` -/
def estimate {α} [Add α] [Sub α] [Mul α] [Div α] [Neg α] [OfNat α 0] [OfNat α 1]
    [LT α] [DecidableLT α] (E : Env α) (δ : α) (pts : List (Pt α)) : Except LsqErr (Est α) :=
  match regress ((dropZeros pts).map (star E δ)) with
  | .error e => .error e
  | .ok (a, b, beta) =>
    .ok { aHat := a, bHat := b, alphaHat := E.pow (E.ofN 10) a, betaHat := beta }

/-- `_wlsq_error(delta, x, p, w)`: weighted squared quantile error in x-space -/
def wlsqError {α} [Add α] [Sub α] [Mul α] [Div α] [Neg α] [OfNat α 0] [OfNat α 1]
    [LT α] [DecidableLT α] (E : Env α) (δ : α) (pts : List (Pt α)) : Except LsqErr α :=
  let d := dropZeros pts
  match estimate E δ d with
  | .error e => .error e
  | .ok r =>
    .ok (sumBy (fun t =>
      let xhat := r.alphaHat * E.pow (qOf E δ t.p) (1 / r.betaHat)
      t.w * ((t.x - xhat) * (t.x - xhat))) d)

/-! ### `_fit_lsq`: sorting, plotting positions, weight specifications -/

/-- `np.sort(data)` -/
def sortData {α} [LE α] [DecidableLE α] (data : List α) : List α :=
  data.mergeSort fun a b => decide (a ≤ b)

/-- order of `np.lexsort((weights, data))`: by value, ties by weight -/
def lexLe {α} [LT α] [LE α] [DecidableLT α] [DecidableLE α] (a b : α × α) : Bool :=
  decide (a.1 < b.1) || (!decide (b.1 < a.1) && decide (a.2 ≤ b.2))

def sortPairs {α} [LT α] [LE α] [DecidableLT α] [DecidableLE α] (l : List (α × α)) :
    List (α × α) :=
  l.mergeSort lexLe

/-- `p_i = (i - 0.5) / n`, `i = 1..n` -/
def position {α} [Sub α] [Div α] (E : Env α) (n i : Nat) : α :=
  (E.ofN (i + 1) - E.half) / E.ofN n

def positions {α} [Sub α] [Div α] (E : Env α) (n : Nat) : List α :=
  (List.range n).map (position E n)

inductive WSpec (α : Type) where
  | none
  | linear
  | quadratic
  | cubic
  | array (ws : List α)

def lsum {α} [Add α] [OfNat α 0] (l : List α) : α := l.foldr (· + ·) 0

/-- `k(x) / np.sum(k(x))` -/
def kwWeights {α} [Add α] [Div α] [OfNat α 0] (k : α → α) (xs : List α) : List α :=
  let s := lsum (xs.map k)
  xs.map fun x => k x / s

/-- sorted values and their weights, as `_fit_lsq` hands them to the estimator -/
def sortedWithWeights {α} [Add α] [Mul α] [Div α] [OfNat α 0] [OfNat α 1]
    [LT α] [LE α] [DecidableLT α] [DecidableLE α] (E : Env α) (spec : WSpec α) (data : List α) :
    Except LsqErr (List (α × α)) :=
  match spec with
  | .none =>
    let x := sortData data
    .ok (x.map fun v => (v, 1 / E.ofN x.length))
  | .linear => let x := sortData data; .ok (x.zip (kwWeights (fun v => v) x))
  | .quadratic => let x := sortData data; .ok (x.zip (kwWeights (fun v => v * v) x))
  | .cubic => let x := sortData data; .ok (x.zip (kwWeights (fun v => E.pow v (E.ofN 3)) x))
  | .array ws =>
    if data.length ≠ ws.length then .error .lengthMismatch else
    let s := sortPairs (data.zip ws)
    let tot := lsum (s.map Prod.snd)
    .ok (s.map fun xw => (xw.1, xw.2 / tot))

/-- attach the plotting positions by rank: the `i`-th smallest of all `n` observations
(zeros included) gets `(i - 0.5) / n` -/
def attachPositions {α} [Sub α] [Div α] (E : Env α) (xw : List (α × α)) : List (Pt α) :=
  (xw.zipIdx).map fun (v, i) => { p := position E xw.length i, x := v.1, w := v.2 }

/-- the arguments `(x, p, weights)` of `_estimate_alpha_beta` / `_wlsq_error` -/
def prepare {α} [Add α] [Sub α] [Mul α] [Div α] [OfNat α 0] [OfNat α 1]
    [LT α] [LE α] [DecidableLT α] [DecidableLE α] (E : Env α) (spec : WSpec α) (data : List α) :
    Except LsqErr (List (Pt α)) :=
  match sortedWithWeights E spec data with
  | .error e => .error e
  | .ok xw => .ok (attachPositions E xw)

/-- `fit(data, 'lsq'|'wlsq', weights)` with `f_delta` given -/
def fitFixed {α} [Add α] [Sub α] [Mul α] [Div α] [Neg α] [OfNat α 0] [OfNat α 1]
    [LT α] [LE α] [DecidableLT α] [DecidableLE α] (E : Env α) (spec : WSpec α) (δ : α)
    (data : List α) : Except LsqErr (Est α) :=
  match prepare E spec data with
  | .error e => .error e
  | .ok pts => estimate E δ pts

/-- `fit` with delta free: `search` stands for `scipy.optimize.fmin` (its result is only
observed; it receives the error function of this data and the start value) -/
def fitFree {α} [Add α] [Sub α] [Mul α] [Div α] [Neg α] [OfNat α 0] [OfNat α 1]
    [LT α] [LE α] [DecidableLT α] [DecidableLE α] (E : Env α)
    (search : (α → Except LsqErr α) → α → α) (spec : WSpec α) (δ0 : α) (data : List α) :
    Except LsqErr (α × Est α) :=
  match prepare E spec data with
  | .error e => .error e
  | .ok pts =>
    let δ := search (fun d => wlsqError E d pts) δ0
    match estimate E δ pts with
    | .error e => .error e
    | .ok r => .ok (δ, r)

end VirVerif.EwLsq
