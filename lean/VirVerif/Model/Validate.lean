/-
Validation of model, fit, contour and slicer specifications (property C18).  Core Lean only.

Abstract descriptions carry exactly the features the code's checks look at; every
`validate…` function performs the checks in the ORDER of the code, so that the first error it
reports (check, position, argument) is the one the code raises:

  validateDesc      GlobalHierarchicalModel.__init__:  _check_dist_descriptions over all dimensions
                    (phase 1), then ConditionalDistribution.__init__ per conditional dimension
                    (phase 2), then the first-dimension check (phase 3)
  validateFit       GlobalHierarchicalModel.fit: _check_and_fill_fit_desc, data dimension, then per
                    dimension the slicer of the conditioning variable (reference keyword, too few
                    intervals) and Distribution.fit's method dispatch / EW weight keywords
  validateGrid      HighestDensityContour._check_grid and the limit-tuple loop of _compute
  validateSlicer    IntervalSlicer.__init__ (kwargs), reference keyword, min_n_intervals
  validatePoints    np.asarray_chkfinite in pdf / cdf
  validateTwoD      the n_dim != 2 guards of DirectSampling / And / Or contours
  validateIformModel  IFORMContour's model type check

`Check.kind` is the exception class (a small enum) of each check.  `ErrKind.leaf` marks
rejections that happen inside numpy (np.arange with a zero / NaN step, an empty grid, a fit of
a dependence function to no interval): the class of those is not modelled, only that the call
does not return.
-/
namespace VirVerif.Validate

inductive ErrKind where
  | valueError | typeError | runtimeError | notImplemented | indexError | attributeError | leaf
  deriving DecidableEq, Repr, Inhabited

inductive Check where
  -- phase 1: GlobalHierarchicalModel._check_dist_descriptions
  | missingDistribution | missingParameters | unknownKeys | hierarchy
  -- phase 2: ConditionalDistribution.__init__
  | unknownParam | paramNeither | paramBoth
  -- phase 3: end of GlobalHierarchicalModel.__init__
  | emptyModel | firstConditional
  -- GlobalHierarchicalModel.fit
  | fitLength | missingMethod | dataScalar | dataDim | dataFlat
  | unknownReference | referenceType | tooFewIntervals | noIntervalPpi | noInterval
  | methodType | unknownMethod | lsqUnsupported | unknownWeights | weightsType | weightsNonFinite
  -- HighestDensityContour
  | limitsLength | limitSubscript | limitIndex | deltasLength | limitTuple | deltaStep | deltaNegative
  | limitEntry | limitNonFinite | nanDensity
  -- IntervalSlicer.__init__
  | unknownKwarg
  -- pdf / cdf
  | nonFinite
  -- contours
  | notTwoDim | modelType
  deriving DecidableEq, Repr, Inhabited

def Check.kind : Check → ErrKind
  | .missingDistribution | .missingParameters | .unknownKeys | .hierarchy => .valueError
  | .unknownParam | .paramNeither | .paramBoth => .valueError
  | .emptyModel => .indexError
  | .firstConditional => .runtimeError
  | .fitLength | .missingMethod | .dataDim => .valueError
  | .dataScalar | .dataFlat => .indexError
  | .unknownReference => .valueError
  | .referenceType => .typeError
  | .tooFewIntervals => .runtimeError
  | .noIntervalPpi => .indexError
  | .noInterval => .leaf
  | .methodType => .attributeError
  | .unknownMethod => .valueError
  | .lsqUnsupported => .notImplemented
  | .unknownWeights | .weightsType | .weightsNonFinite => .valueError
  | .limitsLength | .deltasLength | .limitTuple => .valueError
  | .limitSubscript => .typeError
  | .limitIndex => .indexError
  | .deltaStep | .deltaNegative => .leaf
  | .limitEntry => .typeError
  | .limitNonFinite => .leaf
  | .nanDensity => .valueError
  | .unknownKwarg => .typeError
  | .nonFinite => .valueError
  | .notTwoDim => .notImplemented
  | .modelType => .typeError

/-- what is reported: which check fired, at which position (dimension / index), about which
argument (parameter name id; 0 when the check has no argument) -/
structure Err where
  check : Check
  pos : Nat
  arg : Nat
  deriving DecidableEq, Repr, Inhabited

/-- Run the per-position check `chk i x` over a list, positions counted from `i`; stop at the
first position that fails (the `for i, … in enumerate(…): if …: raise` loops of the code). -/
def firstFail {β : Type} (chk : Nat → β → Option (Check × Nat)) : Nat → List β → Except Err Unit
  | _, [] => .ok ()
  | i, x :: xs =>
    match chk i x with
    | some ca => .error ⟨ca.1, i, ca.2⟩
    | none => firstFail chk (i + 1) xs

/-- sequencing of two validation stages (`Except.bind`, written out) -/
def andThen (a : Except Err Unit) (b : Except Err Unit) : Except Err Unit :=
  match a with
  | .error e => .error e
  | .ok _ => b

/-! ### model descriptions -/

/-- value of the `conditional_on` key -/
inductive CondTag where
  | idx (j : Int)   -- an integer (may be negative, equal to or beyond the own dimension)
  | other           -- anything else: "a", 1.5, None, True
  deriving DecidableEq, Repr, Inhabited

structure DimDesc where
  hasDistribution : Bool
  /-- `none`: key absent -/
  conditionalOn : Option CondTag
  hasParameters : Bool
  /-- keys outside {distribution, intervals, conditional_on, parameters} -/
  unknownKeys : List Nat
  /-- parameter names of the template distribution, in its order -/
  paramNames : List Nat
  /-- names `p` with `f_p is not None` in the template -/
  fixed : List Nat
  /-- keys of the `parameters` dict -/
  dependent : List Nat
  deriving Repr, Inhabited

/-- checks of `_check_dist_descriptions` for dimension `i`, in the code's order.  With
`hier = false` this is the code before the fix of DESIGN section 4 #8 (no hierarchy check). -/
def check1 (hier : Bool) (i : Nat) (d : DimDesc) : Option Check :=
  if !d.hasDistribution then some .missingDistribution
  else if d.conditionalOn.isSome && !d.hasParameters then some .missingParameters
  else if !d.unknownKeys.isEmpty then some .unknownKeys
  else if hier then
    match d.conditionalOn with
    | none => none
    | some .other => some .hierarchy
    | some (.idx j) => if 0 ≤ j ∧ j < (i : Int) then none else some .hierarchy
  else none

/-- the `for par_name in self.param_names` loop of `ConditionalDistribution.__init__` -/
def paramCheck (d : DimDesc) : List Nat → Option (Check × Nat)
  | [] => none
  | p :: ps =>
    if d.dependent.contains p then
      if d.fixed.contains p then some (.paramBoth, p) else paramCheck d ps
    else
      if d.fixed.contains p then paramCheck d ps else some (.paramNeither, p)

/-- `ConditionalDistribution.__init__` (only run for conditional dimensions) -/
def check2 (d : DimDesc) : Option (Check × Nat) :=
  match d.conditionalOn with
  | none => none
  | some _ =>
    match d.dependent.find? (fun p => !d.paramNames.contains p) with
    | some p => some (.unknownParam, p)
    | none => paramCheck d d.paramNames

/-- `self.conditional_on[0] is not None` (an `IndexError` for an empty description list) -/
def phase3 : List DimDesc → Except Err Unit
  | [] => .error ⟨.emptyModel, 0, 0⟩
  | d :: _ => if d.conditionalOn.isSome then .error ⟨.firstConditional, 0, 0⟩ else .ok ()

def phase1 (hier : Bool) (ds : List DimDesc) : Except Err Unit :=
  firstFail (fun i d => (check1 hier i d).map fun c => (c, 0)) 0 ds

def phase2 (ds : List DimDesc) : Except Err Unit :=
  firstFail (fun _ d => check2 d) 0 ds

def validateDescG (hier : Bool) (ds : List DimDesc) : Except Err Unit :=
  andThen (phase1 hier ds) (andThen (phase2 ds) (phase3 ds))

/-- `GlobalHierarchicalModel(dist_descriptions)` as it is now (with the hierarchy check) -/
def validateDesc (ds : List DimDesc) : Except Err Unit := validateDescG true ds

/-- the constructor before the fix (DESIGN section 4 #8) -/
def validateDescOld (ds : List DimDesc) : Except Err Unit := validateDescG false ds

/-! ### fit -/

inductive MethodTag where
  | mle | lsq | wlsq   -- compared case-insensitively by the code
  | unknown             -- any other string
  | nonString           -- None, a number: `.lower()` fails
  deriving DecidableEq, Repr, Inhabited

inductive WeightsTag where
  | none | linear | quadratic | cubic
  | unknownStr | arrayOk | arrayNonFinite | nonIterable
  deriving DecidableEq, Repr, Inhabited

structure FitDesc where
  hasMethod : Bool
  method : MethodTag
  weights : WeightsTag
  deriving Repr, Inhabited

inductive SlicerKind where
  | width | number | ppi
  deriving DecidableEq, Repr, Inhabited

inductive RefTag where
  | center | left | right   -- case-insensitive
  | unknownStr | callable | other
  deriving DecidableEq, Repr, Inhabited

/-- what `slice_` of the conditioning dimension's slicer looks at: the reference keyword, the
number of intervals left after dropping the small ones, the effective `min_n_intervals` -/
structure SliceInfo where
  kind : SlicerKind
  ref : RefTag
  nKept : Nat
  minN : Nat
  deriving Repr, Inhabited

/-- `_slice` (reference keyword; PointsPerInterval indexes the first kept interval) followed by
the `min_n_intervals` test of `slice_`.  `noInterval`: nothing kept and nothing demanded - the
caller then fits dependence functions to no point at all. -/
def sliceCheck (s : SliceInfo) : Option Check :=
  match s.kind with
  | .ppi =>
    if s.nKept = 0 then some .noIntervalPpi
    else if s.nKept < s.minN then some .tooFewIntervals else none
  | _ =>
    match s.ref with
    | .unknownStr => some .unknownReference
    | .other => some .referenceType
    | _ =>
      if s.nKept < s.minN then some .tooFewIntervals
      else if s.nKept = 0 then some .noInterval else none

/-- `Distribution.fit` dispatch and `ExponentiatedWeibullDistribution._fit_lsq` weights;
`lsqOk`: the family implements least squares (only the exponentiated Weibull does) -/
def methodCheck (lsqOk : Bool) (m : MethodTag) (w : WeightsTag) : Option Check :=
  match m with
  | .nonString => some .methodType
  | .unknown => some .unknownMethod
  | .mle => none
  | _ =>
    if !lsqOk then some .lsqUnsupported
    else match w with
      | .unknownStr => some .unknownWeights
      | .nonIterable => some .weightsType
      | .arrayNonFinite => some .weightsNonFinite
      | _ => none

structure FitDim where
  /-- `some` for a conditional dimension: the slicing of its conditioning variable -/
  slice : Option SliceInfo
  lsqOk : Bool
  deriving Repr, Inhabited

/-- `None` entries and a missing fit_descriptions argument mean {"method": "mle", "weights": None} -/
def fillDesc : Option FitDesc → FitDesc
  | none => ⟨true, .mle, .none⟩
  | some d => d

def dimFitCheck (x : FitDim × FitDesc) : Option Check :=
  match (match x.1.slice with | none => none | some s => sliceCheck s) with
  | some c => some c
  | none => methodCheck x.1.lsqOk x.2.method x.2.weights

def missingMethodCheck (d : Option FitDesc) : Option Check :=
  match d with
  | none => none
  | some d => if d.hasMethod then none else some .missingMethod

structure FitSpec where
  dims : List FitDim
  descs : Option (List (Option FitDesc))
  /-- `np.array(data).shape`: `[]` for a scalar, `[k]` for a flat sequence, `[rows, cols]` for a table, … -/
  dataShape : List Nat
  deriving Repr, Inhabited

def filledDescs (f : FitSpec) : List FitDesc :=
  match f.descs with
  | none => List.replicate f.dims.length (fillDesc none)
  | some l => l.map fillDesc

def checkDescs (f : FitSpec) : Except Err Unit :=
  match f.descs with
  | none => .ok ()
  | some l =>
    if l.length ≠ f.dims.length then .error ⟨.fitLength, 0, 0⟩
    else firstFail (fun _ d => (missingMethodCheck d).map fun c => (c, 0)) 0 l

/-- `data.shape[-1] != self.n_dim` (an `IndexError` for a 0-axis array: `()[-1]`), then the first
pass of the loop evaluates `data[:, 0]` (dimension 0 is always unconditional) before any fit is
called: an `IndexError` for a one-axis array.  The code has no check on the number of axes beyond
that: an array with three or more axes whose LAST axis has length n_dim gets past the checks. -/
def checkData (f : FitSpec) : Except Err Unit :=
  match f.dataShape.getLast? with
  | none => .error ⟨.dataScalar, 0, 0⟩
  | some k =>
    if k ≠ f.dims.length then .error ⟨.dataDim, 0, 0⟩
    else if 0 < f.dims.length ∧ f.dataShape.length < 2 then .error ⟨.dataFlat, 0, 0⟩
    else .ok ()

def fitLoop (f : FitSpec) : Except Err Unit :=
  firstFail (fun _ x => (dimFitCheck x).map fun c => (c, 0)) 0 (f.dims.zip (filledDescs f))

/-- `GlobalHierarchicalModel.fit(data, fit_descriptions)` up to (not including) the numerical fits -/
def validateFit (f : FitSpec) : Except Err Unit :=
  andThen (checkDescs f) (andThen (checkData f) (fitLoop f))

/-! ### highest density contour grid -/

inductive LimTag where
  | tuple (len : Nat)   -- a sequence of `len` finite numbers (tuple, list, array)
  | scalar
  | nonNumeric          -- two entries that are not numbers: (None, 4), "ab", ("0", "4")
  | nonFinite           -- two numbers, one of them NaN or infinite
  deriving DecidableEq, Repr, Inhabited

inductive DVal where
  | pos | zero | neg | nan
  deriving DecidableEq, Repr, Inhabited

inductive DeltasTag where
  | none
  | scalar (v : DVal)
  | list (vs : List DVal)
  deriving Repr, Inhabited

structure GridSpec where
  nDim : Nat
  limits : Option (List LimTag)
  deltas : DeltasTag
  deriving Repr, Inhabited

/-- limits after `_check_grid` (computed from the marginal icdf when not given) -/
def gridLimits (g : GridSpec) : List LimTag :=
  match g.limits with
  | none => List.replicate g.nDim (.tuple 2)
  | some l => l

def checkLimitsLength (g : GridSpec) : Except Err Unit :=
  match g.limits with
  | none => .ok ()
  | some l => if l.length ≠ g.nDim then .error ⟨.limitsLength, 0, 0⟩ else .ok ()

/-- `(limits[i][1] - limits[i][0]) * 0.0025` for default deltas -/
def defaultDeltaCheck (lim : LimTag) : Option Check :=
  match lim with
  | .scalar => some .limitSubscript
  | .tuple k => if k < 2 then some .limitIndex else none
  | .nonNumeric => some .limitEntry   -- `None - 0`, `"b" - "a"`
  | .nonFinite => none                -- the default step is NaN / inf; `np.arange` fails later

def checkDeltas (g : GridSpec) : Except Err Unit :=
  match g.deltas with
  | .none => firstFail (fun _ l => (defaultDeltaCheck l).map fun c => (c, 0)) 0 (gridLimits g)
  | .scalar _ => .ok ()
  | .list vs => if vs.length ≠ g.nDim then .error ⟨.deltasLength, 0, 0⟩ else .ok ()

/-- one delta per dimension after `_check_grid` -/
def gridDeltas (g : GridSpec) : List DVal :=
  match g.deltas with
  | .none => List.replicate g.nDim .pos
  | .scalar v => List.replicate g.nDim v
  | .list vs => vs

/-- loop body of `_compute`: the limit tuple check, then `np.arange(min_, max_ + delta, delta)` -/
def cellCheck (x : LimTag × DVal) : Option Check :=
  match x.1 with
  | .scalar => some .limitTuple
  | .nonNumeric => some .limitEntry      -- `min((None, 4))`, `"b" + delta`
  | .nonFinite => some .limitNonFinite   -- inside numpy: `np.arange` with a NaN / infinite bound, or an axis of one cell
  | .tuple k =>
    if k ≠ 2 then some .limitTuple
    else match x.2 with
      | .zero => some .deltaStep
      | .nan => some .deltaStep
      | _ => none

def computeLoop (g : GridSpec) : Except Err Unit :=
  firstFail (fun _ x => (cellCheck x).map fun c => (c, 0)) 0 ((gridLimits g).zip (gridDeltas g))

/-- a negative delta gives an empty axis; the cell averaging then fails -/
def negCheck (g : GridSpec) : Except Err Unit :=
  firstFail (fun _ v => if v = DVal.neg then some (.deltaNegative, 0) else none) 0 (gridDeltas g)

def validateGrid (g : GridSpec) : Except Err Unit :=
  andThen (checkLimitsLength g) (andThen (checkDeltas g) (andThen (computeLoop g) (negCheck g)))

/-! ### slicers -/

structure SlicerSpec where
  kind : SlicerKind
  /-- keyword arguments outside {min_n_intervals, min_n_points} -/
  unknownKwargs : List Nat
  ref : RefTag
  /-- `n_intervals` of a NumberOfIntervalsSlicer (ignored otherwise) -/
  nIntervals : Nat
  minN : Nat
  nKept : Nat
  deriving Repr, Inhabited

/-- constructor: unknown keyword arguments; a PointsPerIntervalSlicer needs a callable reference -/
def validateSlicerCtor (s : SlicerSpec) : Except Err Unit :=
  if !s.unknownKwargs.isEmpty then .error ⟨.unknownKwarg, 0, 0⟩
  else if s.kind = .ppi ∧ s.ref ≠ .callable then .error ⟨.referenceType, 0, 0⟩
  else .ok ()

/-- `NumberOfIntervalsSlicer.__init__` lowers min_n_intervals to n_intervals -/
def effMin (s : SlicerSpec) : Nat :=
  if s.kind = .number ∧ s.nIntervals < s.minN then s.nIntervals else s.minN

def validateSlice (s : SlicerSpec) : Except Err Unit :=
  match sliceCheck ⟨s.kind, s.ref, s.nKept, effMin s⟩ with
  | some c => .error ⟨c, 0, 0⟩
  | none => .ok ()

def validateSlicer (s : SlicerSpec) : Except Err Unit :=
  andThen (validateSlicerCtor s) (validateSlice s)

/-! ### evaluation points, 2-D-only contours, IFORM model type -/

inductive PtTag where
  | finite | nan | posInf | negInf
  deriving DecidableEq, Repr, Inhabited

/-- `np.asarray_chkfinite(x)`: numpy does not say where the offending entry is -/
def validatePoints (rows : List (List PtTag)) : Except Err Unit :=
  if rows.all (fun r => r.all (fun t => t = .finite)) then .ok () else .error ⟨.nonFinite, 0, 0⟩

/-- the NaN tests of `HighestDensityContour._compute` (cell-averaged joint pdf) and of
`cumsum_biggest_until`: a density table containing NaN (e.g. a model with a NaN parameter) is
rejected with a `ValueError`, nothing is summed -/
def validateDensity (hasNan : Bool) : Except Err Unit :=
  if hasNan then .error ⟨.nanDensity, 0, 0⟩ else .ok ()

def validateTwoD (nDim : Nat) : Except Err Unit :=
  if nDim ≠ 2 then .error ⟨.notTwoDim, 0, 0⟩ else .ok ()

inductive ModelTypeTag where
  | ghm | transformed | other
  deriving DecidableEq, Repr, Inhabited

def validateIformModel (t : ModelTypeTag) : Except Err Unit :=
  match t with
  | .other => .error ⟨.modelType, 0, 0⟩
  | _ => .ok ()

end VirVerif.Validate
