/-
Model of virocon's export / plot-data / dataset-reader code (property C20).  Core Lean only.

  * `save_contour_coordinates` (virocon/contours.py): `os.path.splitext` rule for appending
    ".txt", header built from the semantics, `np.savetxt(fmt="%1.6f", delimiter=";",
    header=…, comments="")`.
  * `plot_2D_contour` (virocon/plotting.py): closed polyline, axis exchange, scatter data.
  * `plot_dependence_functions`, `plot_histograms_of_interval_distributions`: the x grid
    (`np.linspace`, endpoint included) and the curve handed to matplotlib.
  * `read_ec_benchmark_dataset` (virocon/utils.py): `;`-separated text, initial spaces
    skipped, first column parsed with `%Y-%m-%d-%H` and used as index.

Text is `List Char` (`Str`) so that every function is structurally recursive or a `foldr`
(both have tail-recursive compiled code in core Lean, files of 10⁴ lines do not overflow the
stack) and the theorems need no `String` internals.  A double is modelled by its exact value
`± num/den` (`valOfBits` decodes the IEEE-754 bit pattern); `%1.6f` is round-half-even of
that exact value to 6 decimals (`roundDec 6`, integer arithmetic), printed by `fmtDec`.
-/
namespace VirVerif

abbrev Str := List Char

/-! ### decimal digits -/

def digitChar : Nat → Char
  | 0 => '0' | 1 => '1' | 2 => '2' | 3 => '3' | 4 => '4'
  | 5 => '5' | 6 => '6' | 7 => '7' | 8 => '8' | _ => '9'

/-- decimal digits of `n`, most significant first, no leading zeros (`"0"` for 0) -/
def natDigits (n : Nat) : Str :=
  if n < 10 then [digitChar n] else natDigits (n / 10) ++ [digitChar (n % 10)]
decreasing_by omega

/-- exactly `w` decimal digits of `n % 10^w`, zero padded -/
def fixedDigits : Nat → Nat → Str
  | 0, _ => []
  | w + 1, n => fixedDigits w (n / 10) ++ [digitChar (n % 10)]

def parseDigitsFrom (acc : Nat) : Str → Option Nat
  | [] => some acc
  | c :: cs => if c.isDigit then parseDigitsFrom (acc * 10 + (c.toNat - 48)) cs else none

/-- a non-empty string of decimal digits -/
def parseNat (s : Str) : Option Nat := if s = [] then none else parseDigitsFrom 0 s

/-! ### splitting and joining -/

/-- split at every occurrence of `sep` (like Python's `str.split(sep)`: n separators give n+1 pieces) -/
def splitOn (sep : Char) (l : Str) : List Str :=
  l.foldr (fun c acc =>
    if c = sep then [] :: acc
    else match acc with
      | [] => [[c]]
      | h :: t => (c :: h) :: t) [[]]

/-- `sep.join(pieces)` for a one-character separator -/
def joinSep (sep : Char) : List Str → Str
  | [] => []
  | [a] => a
  | a :: b :: t => a ++ sep :: joinSep sep (b :: t)

/-! ### exact values and fixed-point decimals -/

/-- exact value of a double: `± num/den`, or a non-finite value -/
inductive Val where
  | fin (neg : Bool) (num den : Nat)
  | nan
  | inf (neg : Bool)
  deriving DecidableEq, Repr

/-- a decimal with `scale` digits after the point: `± mant / 10^scale`, or non-finite -/
inductive Dec where
  | fin (neg : Bool) (mant scale : Nat)
  | nan
  | inf (neg : Bool)
  deriving DecidableEq, Repr

/-- exact value of the IEEE-754 binary64 number with bit pattern `b` -/
def valOfBits (b : Nat) : Val :=
  let neg : Bool := b / 2 ^ 63 % 2 == 1
  let ef := b / 2 ^ 52 % 2048
  let mant := b % 2 ^ 52
  if ef = 2047 then (if mant = 0 then .inf neg else .nan)
  else if ef = 0 then .fin neg mant (2 ^ 1074)
  else if 1075 ≤ ef then .fin neg ((mant + 2 ^ 52) * 2 ^ (ef - 1075)) 1
  else .fin neg (mant + 2 ^ 52) (2 ^ (1075 - ef))

/-- `n/d` rounded to the nearest integer, ties to even -/
def roundHalfEven (n d : Nat) : Nat :=
  let q := n / d
  let r := n % d
  if 2 * r < d then q else if d < 2 * r then q + 1 else if q % 2 = 0 then q else q + 1

/-- the value rounded (half-even, on the exact value) to `p` decimals -/
def roundDec (p : Nat) : Val → Dec
  | .fin s n d => .fin s (roundHalfEven (n * 10 ^ p) d) p
  | .nan => .nan
  | .inf s => .inf s

/-- fixed-point text of a decimal (what C / Python `%1.<scale>f` prints for that value) -/
def fmtDec : Dec → Str
  | .fin s m p =>
    (if s then ['-'] else []) ++ natDigits (m / 10 ^ p) ++
      (if p = 0 then [] else '.' :: fixedDigits p (m % 10 ^ p))
  | .nan => ['n', 'a', 'n']
  | .inf s => (if s then ['-'] else []) ++ ['i', 'n', 'f']

/-- `"%1.6f" % x` -/
def fmt6 (v : Val) : Str := fmtDec (roundDec 6 v)

/-- digits, optionally `.` and digits (the part after the sign) -/
def parseBody (neg : Bool) (body : Str) : Option Dec :=
  match splitOn '.' body with
  | [a] => (parseNat a).map fun m => .fin neg m 0
  | [a, b] => if a = [] then none else (parseDigitsFrom 0 (a ++ b)).map fun m => .fin neg m b.length
  | _ => none

/-- inverse of `fmtDec`: optional `-`, digits, optionally `.` and digits; `nan`, `inf`, `-inf` -/
def parseDecimal (cs : Str) : Option Dec :=
  if cs = ['n', 'a', 'n'] then some .nan
  else if cs = ['i', 'n', 'f'] then some (.inf false)
  else if cs = ['-', 'i', 'n', 'f'] then some (.inf true)
  else match cs with
    | '-' :: body => parseBody true body
    | _ => parseBody false cs

/-! ### `save_contour_coordinates` -/

/-- `f"{name} ({unit})"` -/
def label (name unit : Str) : Str := name ++ [' ', '('] ++ unit ++ [')']

/-- the header: labels of the first `nDim` dimensions joined by `;`; `none` = IndexError -/
def headerOf (names units : List Str) (nDim : Nat) : Option Str :=
  if nDim ≤ names.length ∧ nDim ≤ units.length then
    some (joinSep ';' (List.zipWith label (names.take nDim) (units.take nDim)))
  else none

/-- `get_default_semantics(n)`: names `Variable k`, units `arb. unit` -/
def defaultNames (n : Nat) : List Str :=
  (List.range n).map fun d => "Variable ".toList ++ natDigits (d + 1)
def defaultUnits (n : Nat) : List Str := List.replicate n "arb. unit".toList

def rowLine (r : List Val) : Str := joinSep ';' (r.map fmt6)

/-- file content written by `np.savetxt(fmt="%1.6f", delimiter=";", header=hdr, comments="")`:
the header line (only if the header is non-empty), then one line per row, each ended by `\n`. -/
def saveText (hdr : Str) (rows : List (List Val)) : Str :=
  (if hdr = [] then [] else hdr ++ ['\n']) ++ rows.flatMap fun r => rowLine r ++ ['\n']

def parseRow (l : Str) : Option (List Dec) :=
  if l = [] then some [] else (splitOn ';' l).mapM parseDecimal

def parseLines : List Str → Option (List (List Dec))
  | [] => none
  | [l] => if l = [] then some [] else none
  | l :: m :: rest =>
    match parseRow l, parseLines (m :: rest) with
    | some r, some rs => some (r :: rs)
    | _, _ => none

/-- read back a file written by `saveText`: first line = header, then the rows -/
def parseText (cs : Str) : Option (Str × List (List Dec)) :=
  match splitOn '\n' cs with
  | [] => none
  | hdr :: rest => (parseLines rest).map fun rows => (hdr, rows)

def notSlash (c : Char) : Bool := c != '/'
def notDot (c : Char) : Bool := c != '.'

/-- second half of `splitext`: `rest` is the reversed last path component from its last dot on -/
def splitextAux (p revDir revExt : Str) : Str → Str × Str
  | [] => (p, [])
  | dot :: revStem =>
    if revStem.any notDot then ((revStem ++ revDir).reverse, dot :: revExt.reverse)
    else (p, [])

/-- `os.path.splitext` (posix): the extension starts at the last `.` of the last path
component, unless only dots precede it in that component -/
def splitext (p : Str) : Str × Str :=
  let revBase := p.reverse.takeWhile notSlash
  splitextAux p (p.reverse.dropWhile notSlash) (revBase.takeWhile notDot) (revBase.dropWhile notDot)

/-- the path actually written -/
def savePath (p : Str) : Str :=
  if (splitext p).2 = [] then p ++ ['.', 't', 'x', 't'] else p

/-! ### `plot_2D_contour` -/

def orient {α} (swap : Bool) (p : α × α) : α × α := if swap then (p.2, p.1) else p

/-- the line drawn: the points in order (axes exchanged iff `swap`), the first one repeated at
the end; `none` = IndexError on an empty contour -/
def closePolyline {α} (swap : Bool) : List (α × α) → Option (List (α × α))
  | [] => none
  | p :: rest => some ((p :: rest).map (orient swap) ++ [orient swap p])

/-- the sample scatter: `(sample[:, x_idx], sample[:, y_idx])` -/
def scatterPts {α} (swap : Bool) (pts : List (α × α)) : List (α × α) := pts.map (orient swap)

/-- the `design_conditions` argument: `None`, a boolean, or an array of points -/
inductive DCArg (α : Type) where
  | none
  | flag (b : Bool)
  | arr (pts : List (α × α))

/-- what is scattered (after the fix): nothing for `None`/`False`, the default design conditions
for `True`, the supplied array as it is -/
def designPts {α : Type} (dflt : List (α × α)) : DCArg α → Option (List (α × α))
  | .none => Option.none
  | .flag false => Option.none
  | .flag true => some dflt
  | .arr pts => some pts

/-- the code before the fix tested `if design_conditions:`; numpy refuses the truth value of an
array with more than one element (`error`), and treats an empty array as false -/
def designPtsOld {α : Type} (dflt : List (α × α)) : DCArg α → Except Unit (Option (List (α × α)))
  | .none => .ok Option.none
  | .flag false => .ok Option.none
  | .flag true => .ok (some dflt)
  | .arr pts => if 2 * pts.length > 1 then .error () else .ok Option.none

/-! ### curves handed to matplotlib by the other plot functions -/

/-- `np.linspace(a, b, num)` (endpoint included), operation by operation as numpy computes it -/
def linspaceEndF (a b : Float) (num : Nat) : List Float :=
  if num = 0 then [] else
  if num = 1 then [a] else
  let div := Float.ofNat (num - 1)
  let delta := b - a
  let step := delta / div
  (List.range num).map fun i =>
    if i = num - 1 then b
    else if step == 0 then (Float.ofNat i / div) * delta + a
    else Float.ofNat i * step + a

/-- the curve `(x, f x)` for an uninterpreted leaf `f` (pdf, dependence function);
`none` if the leaf is undefined at some abscissa -/
def curve {α β} (f : α → Option β) (xs : List α) : Option (List (α × β)) :=
  xs.mapM fun x => (f x).map fun y => (x, y)

/-! ### `read_ec_benchmark_dataset` -/

structure Stamp where
  year : Nat
  month : Nat
  day : Nat
  hour : Nat
  deriving DecidableEq, Repr

def isLeap (y : Nat) : Bool := (y % 4 == 0 && y % 100 != 0) || y % 400 == 0

def daysInMonth (y m : Nat) : Nat :=
  if m = 2 then (if isLeap y then 29 else 28)
  else if m = 4 ∨ m = 6 ∨ m = 9 ∨ m = 11 then 30 else 31

def Stamp.valid (s : Stamp) : Bool :=
  decide (1 ≤ s.year) && decide (s.year ≤ 9999) && decide (1 ≤ s.month) && decide (s.month ≤ 12) &&
    decide (1 ≤ s.day) && decide (s.day ≤ daysInMonth s.year s.month) && decide (s.hour ≤ 23)

/-- `%Y-%m-%d-%H`: 4-digit year, 1–2 digit month, day, hour, all in range -/
def parseStamp (s : Str) : Option Stamp :=
  match splitOn '-' s with
  | [y, m, d, h] =>
    if y.length = 4 ∧ (m.length = 1 ∨ m.length = 2) ∧ (d.length = 1 ∨ d.length = 2) ∧
        (h.length = 1 ∨ h.length = 2) then
      match parseNat y, parseNat m, parseNat d, parseNat h with
      | some y, some m, some d, some h =>
        let st : Stamp := ⟨y, m, d, h⟩
        if st.valid then some st else none
      | _, _, _, _ => none
    else none
  | _ => none

def fmtStamp (s : Stamp) : Str :=
  fixedDigits 4 s.year ++ ('-' :: (fixedDigits 2 s.month ++ ('-' :: (fixedDigits 2 s.day ++
    ('-' :: fixedDigits 2 s.hour)))))

/-- `skipinitialspace=True` -/
def stripInitial (s : Str) : Str := s.dropWhile (· = ' ')

def fields (l : Str) : List Str := (splitOn ';' l).map stripInitial

def parseBenchRow (nCols : Nat) (l : Str) : Option (Stamp × List Dec) :=
  match fields l with
  | [] => none
  | t :: vs =>
    if vs.length + 1 = nCols then
      match parseStamp t, vs.mapM parseDecimal with
      | some st, some vals => some (st, vals)
      | _, _ => none
    else none

/-- the DataFrame: column names (first line; the first one names the index column) and, for
every non-blank data line in file order, the time stamp and the exact decimal values -/
def readBenchmark (text : Str) : Option (List Str × List (Stamp × List Dec)) :=
  match (splitOn '\n' text).filter (· ≠ []) with
  | [] => none
  | h :: rows =>
    let cols := fields h
    (rows.mapM (parseBenchRow cols.length)).map fun rs => (cols, rs)

/-- a benchmark-format line: fields separated by `"; "` -/
def benchLine : List Str → Str
  | [] => []
  | f :: rest => joinSep ';' (f :: rest.map (' ' :: ·))

def renderBenchRow (r : Stamp × List Dec) : Str := benchLine (fmtStamp r.1 :: r.2.map fmtDec)

/-- a benchmark-format file -/
def renderBenchmark (cols : List Str) (rows : List (Stamp × List Dec)) : Str :=
  benchLine cols ++ '\n' :: rows.flatMap fun r => renderBenchRow r ++ ['\n']

/-- one step of `normalizeEol`, from the right: a `\r` directly in front of a line end is dropped -/
def eolStep (c : Char) (acc : Str) : Str :=
  if c = '\r' ∧ acc.head? = some '\n' then acc else c :: acc

/-- Windows line ends: `\r\n` becomes `\n` (pandas' tokenizer treats `\r\n` as one line end);
a `foldr`, so that compiled code does not use stack on files of 10⁵ lines -/
def normalizeEol (t : Str) : Str := t.foldr eolStep []

/-- the same text with Windows line ends -/
def toCRLF : Str → Str
  | [] => []
  | c :: t => if c = '\n' then '\r' :: '\n' :: toCRLF t else c :: toCRLF t

/-- `read_ec_benchmark_dataset` on a file with `\n` or `\r\n` line ends -/
def readBenchmarkU (text : Str) : Option (List Str × List (Stamp × List Dec)) :=
  readBenchmark (normalizeEol text)

/-- a line whose fields are separated by `;` and any number of blanks (`pads`) -/
def padLine (f : Str) (rest : List (Nat × Str)) : Str :=
  joinSep ';' (f :: rest.map fun p => List.replicate p.1 ' ' ++ p.2)

end VirVerif
