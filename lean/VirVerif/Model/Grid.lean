/-
Model of the boundary extraction of `HighestDensityContour._compute` (contours.py):

    structure = np.ones((3,)*n_dim, dtype=bool)
    HDC = HDR - ndi.binary_erosion(HDR, structure=structure)       -- border_value = 0
    labeled_array, n_modes = ndi.label(HDC, structure=structure)
    for i in 1..n_modes: idx = np.nonzero(labeled_array == i)        -- C order
                         coords[dim] = cell_center_coordinates[dim][idx[dim]]

n-D boolean grids are functions on index vectors `List Int` (one entry per axis) together with
a shape `List Nat`; cells outside the shape count as `false`.  Core Lean only.
-/
namespace VirVerif

/-- all offset vectors of the full `3^n` structuring element, `{-1,0,1}^n` -/
def offsets : Nat → List (List Int)
  | 0 => [[]]
  | n + 1 => [(-1 : Int), 0, 1].flatMap fun o => (offsets n).map fun t => o :: t

/-- component-wise sum of an index vector and an offset -/
def addVec : List Int → List Int → List Int
  | a :: as, b :: bs => (a + b) :: addVec as bs
  | _, _ => []

/-- `idx` is a valid index of an array of shape `shape` -/
def inGrid : List Nat → List Int → Bool
  | [], [] => true
  | s :: ss, i :: is => decide (0 ≤ i) && decide (i < (s : Int)) && inGrid ss is
  | _, _ => false

/-- value of the (zero-padded) region at `idx`: `border_value = 0` outside the grid -/
def cellAt (shape : List Nat) (region : List Int → Bool) (idx : List Int) : Bool :=
  inGrid shape idx && region idx

/-- `binary_erosion(region, structure = ones(3^n))` at `idx`: every cell of the 3^n block
around `idx` (the centre included) lies in the grid and in the region -/
def erodeAt (shape : List Nat) (region : List Int → Bool) (idx : List Int) : Bool :=
  (offsets shape.length).all fun o => cellAt shape region (addVec idx o)

/-- `HDC = HDR - erosion(HDR)` as a mask: in the region and not in the erosion -/
def boundaryAt (shape : List Nat) (region : List Int → Bool) (idx : List Int) : Bool :=
  cellAt shape region idx && !erodeAt shape region idx

/-- all index vectors of the grid in C order (last axis fastest) = order of `np.nonzero` -/
def cells : List Nat → List (List Int)
  | [] => [[]]
  | s :: ss => (List.range s).flatMap fun (i : Nat) => (cells ss).map fun t => (i : Int) :: t

/-- the boundary cells, in C order -/
def boundaryCells (shape : List Nat) (region : List Int → Bool) : List (List Int) :=
  (cells shape).filter (boundaryAt shape region)

/-- `np.nonzero(labeled_array == i)` for `i = 1..m`: per label the cells carrying it, in C order -/
def gatherIdx (shape : List Nat) (label : List Int → Nat) (m : Nat) : List (List (List Int)) :=
  (List.range m).map fun i => (cells shape).filter fun c => label c == i + 1

/-- coordinates of one cell: entry `d` is `cell_center_coordinates[d][idx[d]]` -/
def coordsFrom {α} (axis : Nat → Nat → α) : Nat → List Int → List α
  | _, [] => []
  | d, i :: is => axis d i.toNat :: coordsFrom axis (d + 1) is

def coordsOf {α} (axis : Nat → Nat → α) (idx : List Int) : List α := coordsFrom axis 0 idx

/-- the coordinate sets `_compute` collects: one per label, rows = cells in C order -/
def gather {α} (shape : List Nat) (label : List Int → Nat) (m : Nat) (axis : Nat → Nat → α) :
    List (List (List α)) :=
  (gatherIdx shape label m).map fun comp => comp.map (coordsOf axis)

/-! ### executable connected-component labelling (full connectivity), flat C-order arrays -/

/-- flat C-order position of an in-grid index vector -/
def flatIndex : List Nat → List Int → Nat
  | _ :: ss, i :: is => i.toNat * ss.foldl (· * ·) 1 + flatIndex ss is
  | _, _ => 0

/-- in-grid neighbours of a cell (3^n block, the cell itself included - harmless) -/
def nbrs (shape : List Nat) (idx : List Int) : List (List Int) :=
  ((offsets shape.length).map (addVec idx)).filter (inGrid shape)

/-- flood fill with an explicit stack: every reachable mask cell without a label gets `lab` -/
def flood (shape : List Nat) (mask : List Int → Bool) (lab : Nat) :
    Nat → List (List Int) → Array Nat → Array Nat
  | 0, _, labels => labels
  | _ + 1, [], labels => labels
  | fuel + 1, c :: rest, labels =>
    let k := flatIndex shape c
    if mask c && labels.getD k 1 == 0 then
      flood shape mask lab fuel (nbrs shape c ++ rest) (labels.setIfInBounds k lab)
    else flood shape mask lab fuel rest labels

/-- labels `1..m` in order of first occurrence in C order (the numbering of
`scipy.ndimage.label`), `0` = background.  Returns the flat label array and `m`. -/
def labelComponents (shape : List Nat) (mask : List Int → Bool) : Array Nat × Nat :=
  let cs := cells shape
  let fuel := cs.length * ((offsets shape.length).length + 1) + 1
  cs.foldl (fun (st : Array Nat × Nat) c =>
    if mask c && st.1.getD (flatIndex shape c) 1 == 0 then
      (flood shape mask (st.2 + 1) fuel [c] st.1, st.2 + 1)
    else st) (Array.replicate cs.length 0, 0)

end VirVerif
