/-
Model of `AndContour._compute` and `OrContour._compute` (virocon/contours.py), core Lean only.

Per ray (angle `theta`, unit vector `(c, s) = (cos, sin)(theta/180*pi)`), the code runs

    rel_dist = 0.2; rel_step_size = 0.1; current_pe = 0; nr_iterations = 0
    while abs(current_pe - alpha) / alpha > allowed_error:
        abs_dist = rel_dist * max_distance
        current_vector = unity_vector * abs_dist
        current_pe = count(x > v[0]  and/or  y > v[1]) / n
        if current_pe > alpha: rel_dist = rel_dist + rel_step_size
        else: rel_step_size = 0.5 * rel_step_size; rel_dist = rel_dist - rel_step_size
        nr_iterations = nr_iterations + 1
        if nr_iterations == max_iterations: warn; break
    coords[i] = current_vector

The state record below is exactly `(rel_dist, rel_step_size, current_pe, current_vector,
nr_iterations)`; `current_vector` is represented by the distance it was built from
(`none` = the Python variable is not bound yet).
-/
import VirVerif.Model.Num
namespace VirVerif

structure SearchSt (α : Type) where
  relDist : α
  relStep : α
  pe : α
  /-- `abs_dist` from which `current_vector = unity_vector * abs_dist` was built; `none` = unbound -/
  dist : Option α
  iters : Nat

def absv {α} [Neg α] [LT α] [DecidableLT α] [OfNat α 0] (x : α) : α := if x < 0 then -x else x

/-- the `while` condition: `abs(current_pe - alpha) / alpha > allowed_error`. -/
def needMore {α} [Neg α] [Sub α] [Div α] [LT α] [DecidableLT α] [OfNat α 0]
    (alpha err pe : α) : Bool :=
  decide (err < absv (pe - alpha) / alpha)

/-- one pass through the loop body (without the iteration-limit test). -/
def searchStep {α} [Add α] [Sub α] [Mul α] [LT α] [DecidableLT α]
    (peAt : α → α) (alpha maxDist half : α) (st : SearchSt α) : SearchSt α :=
  let d := st.relDist * maxDist
  let p := peAt d
  if alpha < p then
    { relDist := st.relDist + st.relStep, relStep := st.relStep, pe := p, dist := some d,
      iters := st.iters + 1 }
  else
    let h := half * st.relStep
    { relDist := st.relDist - h, relStep := h, pe := p, dist := some d, iters := st.iters + 1 }

/-- the loop with `fuel` = iterations still allowed; the flag is "warning emitted". -/
def searchLoop {α} [Add α] [Sub α] [Mul α] [Div α] [Neg α] [LT α] [DecidableLT α] [OfNat α 0]
    (peAt : α → α) (alpha err maxDist half : α) : Nat → SearchSt α → SearchSt α × Bool
  | 0, st => (st, false)
  | fuel + 1, st =>
    if needMore alpha err st.pe then
      let st' := searchStep peAt alpha maxDist half st
      if fuel = 0 then (st', true) else searchLoop peAt alpha err maxDist half fuel st'
    else (st, false)

def searchInit {α} [OfNat α 0] (d0 s0 : α) : SearchSt α :=
  { relDist := d0, relStep := s0, pe := 0, dist := none, iters := 0 }

/-- strict exceedance counts. -/
def exceedAnd {α} [LT α] [DecidableLT α] (sample : List (α × α)) (vx vy : α) : Nat :=
  sample.countP fun p => decide (vx < p.1) && decide (vy < p.2)

def exceedOr {α} [LT α] [DecidableLT α] (sample : List (α × α)) (vx vy : α) : Nat :=
  sample.countP fun p => decide (vx < p.1) || decide (vy < p.2)

/-- probability of exceedance at distance `d` along the ray `(c, s)`. -/
def peAtRay {α} [Mul α] [Div α] [LT α] [DecidableLT α] (ofN : Nat → α) (isOr : Bool)
    (sample : List (α × α)) (c s d : α) : α :=
  ofN ((if isOr then exceedOr else exceedAnd) sample (c * d) (s * d)) / ofN sample.length

structure RayResult (α : Type) where
  x : α
  y : α
  pe : α
  iters : Nat
  warned : Bool

inductive AndOrErr where
  | unboundVector   -- loop body never ran: `current_vector` is unbound (NameError) or stale
  | emptyKept       -- OR: every searched point was filtered out: `coords_y[-1]` IndexError
  | emptySample
  deriving Repr, DecidableEq

/-- constants of the search: `rel_dist = 0.2`, `rel_step_size = 0.1`, factor `0.5`,
`max_iterations = 100`. -/
structure SearchConst (α : Type) where
  d0 : α
  s0 : α
  half : α
  maxIter : Nat

def searchRay {α} [Add α] [Sub α] [Mul α] [Div α] [Neg α] [LT α] [DecidableLT α] [OfNat α 0]
    (k : SearchConst α) (ofN : Nat → α) (isOr : Bool) (sample : List (α × α))
    (alpha err maxDist c s : α) : Except AndOrErr (RayResult α) :=
  let r := searchLoop (peAtRay ofN isOr sample c s) alpha err maxDist k.half k.maxIter
    (searchInit k.d0 k.s0)
  match r.1.dist with
  | none => .error .unboundVector
  | some d => .ok { x := c * d, y := s * d, pe := r.1.pe, iters := r.1.iters, warned := r.2 }

/-- all rays; `dirs` are the unit vectors `(cos, sin)` of the thetas. -/
def searchRays {α} [Add α] [Sub α] [Mul α] [Div α] [Neg α] [LT α] [DecidableLT α] [OfNat α 0]
    (k : SearchConst α) (ofN : Nat → α) (isOr : Bool) (sample : List (α × α))
    (alpha err maxDist : α) : List (α × α) → Except AndOrErr (List (RayResult α))
  | [] => .ok []
  | cs :: rest =>
    match searchRay k ofN isOr sample alpha err maxDist cs.1 cs.2 with
    | .error e => .error e
    | .ok r =>
      match searchRays k ofN isOr sample alpha err maxDist rest with
      | .error e => .error e
      | .ok rs => .ok (r :: rs)

/-- `AndContour.coordinates`: the searched points, then `(0, 0)`. -/
def andClose {α} [OfNat α 0] (pts : List (α × α)) : List (α × α) := pts ++ [(0, 0)]

/-- the OR range filter: `v[0] < x_max_consider and v[1] < y_max_consider`. -/
def orKeep {α} [LT α] [DecidableLT α] (xmax ymax : α) (pts : List (α × α)) : List (α × α) :=
  pts.filter fun p => decide (p.1 < xmax) && decide (p.2 < ymax)

/-- `OrContour.coordinates`: kept points, then `(0, y_last)`, `(0, 0)`, `(x_first, 0)`. -/
def orClose {α} [OfNat α 0] (kept : List (α × α)) : Except AndOrErr (List (α × α)) :=
  match kept.head?, kept.getLast? with
  | some f, some l => .ok (kept ++ [(0, l.2), (0, 0), (f.1, 0)])
  | _, _ => .error .emptyKept

def andContour {α} [Add α] [Sub α] [Mul α] [Div α] [Neg α] [LT α] [DecidableLT α] [OfNat α 0]
    (k : SearchConst α) (ofN : Nat → α) (sample : List (α × α)) (alpha err maxDist : α)
    (dirs : List (α × α)) : Except AndOrErr (List (α × α) × List (RayResult α)) :=
  match searchRays k ofN false sample alpha err maxDist dirs with
  | .error e => .error e
  | .ok rs => .ok (andClose (rs.map fun r => (r.x, r.y)), rs)

def orContour {α} [Add α] [Sub α] [Mul α] [Div α] [Neg α] [LT α] [DecidableLT α] [OfNat α 0]
    (k : SearchConst α) (ofN : Nat → α) (sample : List (α × α)) (alpha err maxDist factor : α)
    (dirs : List (α × α)) : Except AndOrErr (List (α × α) × List (RayResult α)) :=
  match listMax (sample.map Prod.fst), listMax (sample.map Prod.snd) with
  | some mx, some my =>
    match searchRays k ofN true sample alpha err maxDist dirs with
    | .error e => .error e
    | .ok rs =>
      match orClose (orKeep (factor * mx) (factor * my) (rs.map fun r => (r.x, r.y))) with
      | .error e => .error e
      | .ok c => .ok (c, rs)
  | _, _ => .error .emptySample

/-! ### Float instance -/

def searchConstF : SearchConst Float := { d0 := 0.2, s0 := 0.1, half := 0.5, maxIter := 100 }

/-- `max_factor = 1.1` of `OrContour._compute` (points with a coordinate at or beyond 1.1 times the sample
maximum are dropped) -/
def orMaxFactorF : Float := 1.1

/-- the OR contour as the driver runs it: constants of the code pinned -/
def orContourF (sample : List (Float × Float)) (alpha err maxDist : Float) (dirs : List (Float × Float)) :=
  orContour searchConstF Float.ofNat sample alpha err maxDist orMaxFactorF dirs

/-- argument of `cos`/`sin` for a theta in degrees: `theta / 180 * np.pi`. -/
def thetaArgF (pi theta : Float) : Float := theta / 180.0 * pi

end VirVerif
