/-
ConditionalDistribution (distributions.py 30-268) and DependenceFunction.__call__ /
functools.partial binding (dependencies.py 74-112). Core Lean only.
-/
import VirVerif.Model.Doubles
namespace VirVerif

/-- how a template parameter is specified in a ConditionalDistribution -/
inductive ParSpec (α : Type) where
  | fixed (v : α)
  | dep (d : DepFn α)

/-- `_get_param_values(given)`: in template parameter order, dependent parameters are their
dependence function's value at `given`, fixed ones their fixed value. -/
def paramValues {α} [Add α] [Mul α] [Div α] [OfNat α 1]
    (specs : List (String × ParSpec α)) (g : α) : List (String × α) :=
  specs.map fun (name, s) => match s with
    | .fixed v => (name, v)
    | .dep d => (name, d.eval g)

/-- a conditional distribution's method: the template's method with those keyword arguments -/
def condEval {α β} [Add α] [Mul α] [Div α] [OfNat α 1]
    (template : List (String × α) → α → β) (specs : List (String × ParSpec α)) (x g : α) : β :=
  template (paramValues specs g) x

/-- vectorised call: pairs `(x_j, g_j)`; a scalar `given` is the constant list -/
def condEvalVec {α β} [Add α] [Mul α] [Div α] [OfNat α 1]
    (template : List (String × α) → α → β) (specs : List (String × ParSpec α))
    (xs gs : List α) : List β :=
  List.zipWith (condEval template specs) xs gs

/-! ### the conditional rational double — this is what the driver runs

`harness/doubles.py` builds `ConditionalDistribution(RatDist(...), {"s": dep_s, "l": dep_l})` where a
parameter described by the token `c a` is a FIXED parameter of the template instance and every other
description is a real `DependenceFunction`. The three functions below are that object's
`cdf`/`icdf`/`pdf` expressed with `condEval`; `Drv/Hier.lean` (`cdfOf`, `qOf`, `pdfOf`, conditioned
case) and the `cond` op of `Drv/C08.lean` call them. -/

/-- how the doubles' description of a parameter reaches `ConditionalDistribution`: a constant is a
fixed parameter, everything else a dependence function -/
def ParSpec.ofDep {α} : DepFn α → ParSpec α
  | .const a => .fixed a
  | d => .dep d

/-- `(name, spec)` in the template's parameter order `s`, `l` -/
def ratParSpecs {α} (spec : RatSpec α) : List (String × ParSpec α) :=
  [("s", ParSpec.ofDep spec.s), ("l", ParSpec.ofDep spec.l)]

/-- the template family `RatDist` called with keyword arguments: the method `m s l x` of the instance
constructed from the keywords `s` and `l`; `none` (a `TypeError` in Python) when one is missing -/
def ratTemplate {α β} (m : α → α → α → β) (kw : List (String × α)) (x : α) : Option β :=
  match kw.lookup "s", kw.lookup "l" with
  | some s, some l => some (m s l x)
  | _, _ => none

/-- a method of the conditional rational double at one `(x, given)` -/
def ratCond {α β} [Add α] [Mul α] [Div α] [OfNat α 1]
    (m : α → α → α → β) (spec : RatSpec α) (x g : α) : Option β :=
  condEval (ratTemplate m) (ratParSpecs spec) x g

/-- … at many pairs in one (vectorised) call -/
def ratCondVec {α β} [Add α] [Mul α] [Div α] [OfNat α 1]
    (m : α → α → α → β) (spec : RatSpec α) (xs gs : List α) : List (Option β) :=
  condEvalVec (ratTemplate m) (ratParSpecs spec) xs gs

/-! ### evaluation of nested dependence functions with a call log -/

/-- `DepFn.eval` instrumented: the value together with the list of calls `(inner function, argument)`
made to inner dependence functions at every depth (in call order). `evalLog_value` (C08) shows that
the first component IS `DepFn.eval`, the function the driver runs. -/
def DepFn.evalLog {α} [Add α] [Mul α] [Div α] [OfNat α 1] : DepFn α → α → α × List (DepFn α × α)
  | .const a, _ => (a, [])
  | .affine a b, x => (a + b * x, [])
  | .asym a b c, x => (a + b / (1 + c * x), [])
  | .chained a b d, x =>
    let r := d.evalLog x
    ((a + b * x) / r.1, (d, x) :: r.2)
  | .ratio a n d, x =>
    let rn := n.evalLog x
    let rd := d.evalLog x
    ((a + rn.1) / rd.1, (n, x) :: rn.2 ++ (d, x) :: rd.2)

/-- all strict sub-functions of a dependence function -/
def DepFn.inner {α} : DepFn α → List (DepFn α)
  | .chained _ _ d => d :: d.inner
  | .ratio _ n d => n :: n.inner ++ d :: d.inner
  | _ => []

/-! ### keyword binding of dependent dependence functions -/

/-- `DependenceFunction.__init__` binds every dependence-function-valued keyword with
`functools.partial(func, **{key: dep})` and deletes it from the parameter dict;
`__call__` then passes the remaining parameter values *positionally* after `x`.
Python assigns positional arguments to the first parameter names; if one of those is already
bound by keyword the call raises `TypeError: multiple values`. `names` are the parameters of
the callable after `x`, `bound` the keyword-bound ones. Result: for each name its source. -/
inductive ArgSource where
  | positional (k : Nat)   -- k-th remaining parameter value
  | boundDep               -- the bound dependence function
  deriving Repr, DecidableEq

def bindCall (names bound : List String) : Except String (List (String × ArgSource)) :=
  let nFree := (names.filter fun n => !bound.contains n).length
  -- the first nFree names receive the positionals
  if (names.take nFree).any (fun n => bound.contains n) then .error "multipleValues"
  else .ok ((names.take nFree).zipIdx.map (fun (n, k) => (n, .positional k)) ++
            (names.drop nFree).map (fun n => (n, .boundDep)))

/-! ### signature defaults and the explicit-parameter call -/

/-- `DependenceFunction.__init__` reads the parameters of the callable after `x` from its
signature: a parameter with a default keeps it, one without gets the value `1`.
`sig` lists (name, default?) in declaration order. -/
def defaultParams {α} [OfNat α 1] (sig : List (String × Option α)) : List (String × α) :=
  sig.map fun (n, d) => (n, d.getD 1)

/-- which values `DependenceFunction.__call__(x, *args, **kwargs)` hands to the callable:
the stored parameters when no value is given, the given ones when their number equals the number
of free (not dependence-function-bound) parameters, otherwise `ValueError`. -/
inductive CallMode where
  | stored
  | explicit
  | error
  deriving Repr, DecidableEq

def callMode (nFree nArgs nKw : Nat) : CallMode :=
  if nArgs + nKw = 0 then .stored
  else if nArgs + nKw = nFree then .explicit
  else .error

end VirVerif
