/-
The shipped variable transformations (virocon/variable_transform.py), the predefined
`_transform / _inv_transform / _jacobian` triple of the two EW sea-state models
(virocon/predefined.py) and the composition logic of `TransformedModel`
(virocon/jointmodels.py).  Core Lean only; the square root is a parameter so that the same
definitions run at `Float` (`Float.sqrt`, IEEE-correctly rounded like `np.sqrt`) and are
reasoned about at `ℝ` (`Real.sqrt`).  `F` is `variable_transform.factor` (= 2π/g) — the
harness passes the module's own value and checks it against `2*np.pi/9.81`.
-/
namespace VirVerif

section transforms
variable {α : Type} [Add α] [Sub α] [Mul α] [Div α] [OfNat α 1] [OfNat α 2] [OfNat α 4] [OfNat α 16]

/-- `hs_tz_to_s_d`: `s = factor*hs/(tz*tz)`, `d = sqrt(hs*hs + tz*tz/2)` -/
def hsTzToSD (sqrt : α → α) (F hs tz : α) : α × α :=
  (F * hs / (tz * tz), sqrt (hs * hs + tz * tz / 2))

/-- `s_d_to_hs_tz` (numpy evaluates `d**2` as `d*d`):
`hs = (sqrt(16 d² s² + F²) − F)/(4 s)`,
`tz = 1/2 * sqrt((F*sqrt(16 d² s² + F²))/s² − F²/s²)` -/
def sDToHsTz (sqrt : α → α) (F s d : α) : α × α :=
  let r := sqrt (16 * (d * d) * (s * s) + F * F)
  ((r - F) / (4 * s), 1 / 2 * sqrt ((F * r) / (s * s) - (F * F) / (s * s)))

/-- `hs_tz_to_hs_s` -/
def hsTzToHsS (F hs tz : α) : α × α := (hs, F * hs / (tz * tz))

/-- `hs_s_to_hs_tz`: `tz = factor_sqrt * sqrt(hs/s)` with `factor_sqrt = sqrt(factor)` -/
def hsSToHsTz (sqrt : α → α) (F hs s : α) : α × α := (hs, sqrt F * sqrt (hs / s))

/-- `hs_tz_to_s_tz` -/
def hsTzToSTz (F hs tz : α) : α × α := (F * hs / (tz * tz), tz)

/-- `s_tz_to_hs_tz`: `hs = s * np.square(tz) / factor` -/
def sTzToHsTz (F s tz : α) : α × α := (s * (tz * tz) / F, tz)

/-- predefined `_transform(hs_tz)`: `(hs, s)` with `s` from `hs_tz_to_s_d` -/
def predefTransform (sqrt : α → α) (F : α) (x : α × α) : α × α :=
  (x.1, (hsTzToSD sqrt F x.1 x.2).1)

/-- predefined `_inv_transform(hs_s)` -/
def predefInverse (sqrt : α → α) (F : α) (y : α × α) : α × α := hsSToHsTz sqrt F y.1 y.2

/-- predefined `_jacobian(x)`: `2*factor*x[:,0]/x[:,1]**3` (`cube` is `x ↦ x**3`, numpy's `power`
leaf, `b^3` over ℝ).  The argument is called `hs_s` in
the source, but `TransformedModel.pdf` calls it with points `x` of the TRANSFORMED space
(hs, tz); it is then `|∂s/∂tz|` of `_transform` (theorem `C16.jacobian_hs_s`). -/
def predefJacobian (cube : α → α) (F : α) (x : α × α) : α := 2 * F * x.1 / cube x.2

end transforms

/-! ### `TransformedModel` composition logic -/

/-- `TransformedModel.pdf(x) = model.pdf(transform(x)) * jacobian(x)` -/
def tPdf {β α : Type} [Mul α] (basePdf : β → α) (transform : β → β) (jac : β → α) (x : β) : α :=
  basePdf (transform x) * jac x

/-- `TransformedModel.draw_sample(n) = inverse(model.draw_sample(n))` — the callables receive the
whole array -/
def tDraw {S : Type} (inverse : S → S) (baseDraw : Nat → S) (n : Nat) : S := inverse (baseDraw n)

/-- a row-wise callable lifted to an array (what the shipped `_inv_transform`/`_transform` do) -/
def rowwise {β : Type} (f : β → β) (rows : List β) : List β := rows.map f

/-- `(sample <= x).all(axis=-1)` for one sample row and one event -/
def rowLeq {α : Type} [LE α] [DecidableLE α] : List α → List α → Bool
  | [], [] => true
  | a :: as, b :: bs => decide (a ≤ b) && rowLeq as bs
  | _, _ => false

/-- `TransformedModel.empirical_cdf(x, sample)`: number of sample rows that are componentwise
`<= x` (the harness divides by `len(sample)`) -/
def ecdfCount {α : Type} [LE α] [DecidableLE α] (sample : List (List α)) (x : List α) : Nat :=
  (sample.filter fun r => rowLeq r x).length

/-! ### which random stream the IFORM branch for a `TransformedModel` uses -/

/-- `np.random.default_rng(random_state)`: a seed determines the stream; `None` takes fresh
entropy from the operating system (`entropy` stands for it: a different value in every call). -/
def rngOf {S : Type} (streamOf : Nat → S) (entropy : Nat) : Option Nat → S
  | some seed => streamOf seed
  | none => streamOf entropy

/-- The `TransformedModel` branch of `IFORMContour._compute` for one contour point: the first
coordinate is a Monte-Carlo marginal quantile, the second a Monte-Carlo conditional quantile given
the first. `forwardMarg` says whether `marginal_icdf` receives the model's `random_state` (the code
after the repair of defect #16) or draws with `random_state=None` (before). `e0`, `e1` are the
entropy values the two calls would see. -/
def iformTPoint {S A B : Type} (streamOf : Nat → S) (marg : S → A) (cond : S → A → B)
    (randomState : Option Nat) (forwardMarg : Bool) (e0 e1 : Nat) : A × B :=
  let a := marg (rngOf streamOf e0 (if forwardMarg then randomState else none))
  (a, cond (rngOf streamOf e1 randomState) a)

/-! ### `pdf_like` of `conditional_sample`: the evaluation row -/

/-- the loop `for i in range(n_dim): x_hat[:, i] = x if i == dim else given[j]; j += 1`.
`none` = `IndexError` (too few conditioning values). -/
def xHatGo {α : Type} (dim : Nat) (x : α) : Nat → Nat → List α → Option (List α)
  | 0, _, _ => some []
  | k + 1, i, g =>
    if i = dim then (xHatGo dim x k (i + 1) g).map (x :: ·)
    else match g with
      | [] => none
      | v :: g' => (xHatGo dim x k (i + 1) g').map (v :: ·)

def xHat {α : Type} (nDim dim : Nat) (given : List α) (x : α) : Option (List α) :=
  xHatGo dim x nDim 0 given

end VirVerif
