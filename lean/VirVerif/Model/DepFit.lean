/-
Numeric side of dependence-function fitting (`virocon._fitting`, `DependenceFunction._fit`):
  * `convertBounds`      = `convert_bounds_for_curve_fit`
  * `dispatch`           = the decision logic of `_fit` / `fit_function` / `fit_constrained_function`:
                           which optimiser is called with which start, sigma, bounds, constraints
  * `sse`, `grad`, `isNormalSolution`, `affineLsq`
                         = weighted linear least squares (reference for shapes linear in their
                           parameters; executed at `Rat` by the driver)
Core Lean only.
-/
namespace VirVerif.Dep

/-! ### bounds -/

/-- `convert_bounds_for_curve_fit`: list of `(lower | None, upper | None)` per parameter →
`[lower_bounds, upper_bounds]` with `None` replaced by `∓inf` -/
def convertBounds {α} (ninf pinf : α) (bounds : List (Option α × Option α)) : List α × List α :=
  (bounds.map fun b => match b.1 with | some l => l | none => ninf,
   bounds.map fun b => match b.2 with | some u => u | none => pinf)

/-! ### which optimiser gets which arguments -/

/-- the declared, fit-relevant attributes of a `DependenceFunction`; constraints are identified by
the position of the constraint dict in the declaration (a single dict = one-element list) -/
structure DepSpec (α : Type) where
  bounds      : Option (List (Option α × Option α))
  constraints : Option (List Nat)

inductive OptCall (α : Type) where
  /-- `curve_fit(f, x, y, p0[, sigma=…][, bounds=…])` -/
  | curveFit (p0 : List α) (sigma : Option (List α)) (bounds : Option (List α × List α))
  /-- `minimize(sse, p0, method="SLSQP", bounds=…, constraints=…)` -/
  | slsqp (p0 : List α) (bounds : Option (List (Option α × Option α))) (constraints : List Nat)

inductive DispatchErr where
  /-- `NotImplementedError`: constrained fit with weights -/
  | notImplemented

/-- `_fit`: `w` is `weights(x, y)` (none when no weights callable was declared) -/
def dispatch {α} (ninf pinf : α) (spec : DepSpec α) (p0 : List α) (w : Option (List α)) :
    Except DispatchErr (OptCall α) :=
  match spec.constraints with
  | none => .ok (.curveFit p0 w (spec.bounds.map (convertBounds ninf pinf)))
  | some cs =>
    match w with
    | some _ => .error .notImplemented
    | none => .ok (.slsqp p0 spec.bounds cs)

/-- the code before the repair of defect #9: `constraints=` was commented out in the `minimize` call -/
def dispatchOld {α} (ninf pinf : α) (spec : DepSpec α) (p0 : List α) (w : Option (List α)) :
    Except DispatchErr (OptCall α) :=
  match spec.constraints with
  | none => .ok (.curveFit p0 w (spec.bounds.map (convertBounds ninf pinf)))
  | some _ =>
    match w with
    | some _ => .error .notImplemented
    | none => .ok (.slsqp p0 spec.bounds [])

/-! ### weighted linear least squares -/

/-- `Σ_{j<n} a j * x j` -/
def dotN {α} [Add α] [Mul α] [OfNat α 0] : Nat → (Nat → α) → (Nat → α) → α
  | 0, _, _ => 0
  | n + 1, a, x => dotN n a x + a n * x n

/-- one observation of a shape linear in its parameters: `y ≈ Σ_j row j * p j`, weight `w` -/
structure Obs (α : Type) where
  w   : α
  row : Nat → α
  y   : α

/-- weighted sum of squared residuals at parameter vector `x` -/
def sse {α} [Add α] [Sub α] [Mul α] [OfNat α 0] (n : Nat) : List (Obs α) → (Nat → α) → α
  | [], _ => 0
  | o :: os, x => o.w * ((dotN n o.row x - o.y) * (dotN n o.row x - o.y)) + sse n os x

/-- half the gradient of `sse`: component `j` of `Aᵀ W (A x − y)` -/
def grad {α} [Add α] [Sub α] [Mul α] [OfNat α 0] (n : Nat) : List (Obs α) → (Nat → α) → Nat → α
  | [], _, _ => 0
  | o :: os, x, j => o.w * (dotN n o.row x - o.y) * o.row j + grad n os x j

/-- certificate check: do the normal equations hold at `x`? -/
def isNormalSolution {α} [Add α] [Sub α] [Mul α] [OfNat α 0] [DecidableEq α]
    (n : Nat) (obs : List (Obs α)) (x : Nat → α) : Bool :=
  (List.range n).all fun j => decide (grad n obs x j = 0)

/-- weight that `curve_fit(sigma=s)` gives to an observation: residuals are divided by `s` -/
def sigmaWeight {α} [Mul α] [Div α] [OfNat α 0] [OfNat α 1] [DecidableEq α] (s : α) : Option α :=
  if s = 0 then none else some (1 / (s * s))

/-- a weighted point for the affine shape `a + b * x` -/
structure WPt (α : Type) where
  w : α
  x : α
  y : α

def wsumBy {α} [Add α] [Mul α] [OfNat α 0] (f : WPt α → α) : List (WPt α) → α
  | [] => 0
  | p :: ps => p.w * f p + wsumBy f ps

/-- closed-form weighted least squares for `a + b * x` (Cramer's rule on the normal equations);
`none` when the design is degenerate -/
def affineLsq {α} [Add α] [Sub α] [Mul α] [Div α] [OfNat α 0] [OfNat α 1] [DecidableEq α]
    (pts : List (WPt α)) : Option (α × α) :=
  let sw := wsumBy (fun _ => 1) pts
  let sx := wsumBy (fun p => p.x) pts
  let sxx := wsumBy (fun p => p.x * p.x) pts
  let sy := wsumBy (fun p => p.y) pts
  let sxy := wsumBy (fun p => p.x * p.y) pts
  let det := sw * sxx - sx * sx
  if det = 0 then none
  else some ((sxx * sy - sx * sxy) / det, (sw * sxy - sx * sy) / det)

/-- the affine shape as a linear model with rows `(1, x)` -/
def affineObs {α} [OfNat α 1] (pts : List (WPt α)) : List (Obs α) :=
  pts.map fun p => { w := p.w, row := fun j => if j = 0 then 1 else p.x, y := p.y }

def pair {α} (a b : α) : Nat → α := fun j => if j = 0 then a else b

end VirVerif.Dep
