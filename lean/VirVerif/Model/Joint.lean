/-
Joint density evaluation helpers of jointmodels.py beyond the chain itself:
argument re-ordering for `scipy.integrate.nquad` (`cdf`, `marginal_pdf`, `marginal_cdf`)
and the integration plans. Core Lean only.
-/
import VirVerif.Model.Hier
namespace VirVerif

/-- `np.argsort(order)` for a permutation `order` of `0..n-1`: position of `k` in `order`. -/
def argsortPerm (order : List Nat) : List Nat :=
  (List.range order.length).map fun k => order.idxOf k

/-- `np.array(args)[np.argsort(arg_order)]`: nquad's `j`-th argument is meant for model
position `arg_order[j]`. -/
def reorderArgs {α} (order : List Nat) (args : List α) : List (Option α) :=
  (argsortPerm order).map fun p => args[p]?

/-- `integral_order` of `marginal_pdf` / `marginal_cdf`: all other dimensions, last first,
then `dim`. -/
def marginalOrder (n dim : Nat) : List Nat :=
  ((List.range n).filter (· ≠ dim)).reverse ++ [dim]

/-- integration range of one nquad argument: `some x` = `(0, x)`, `none` = `(0, ∞)` -/
abbrev Range (α : Type) := Option α

/-- the ranges `marginal_cdf(x, dim)` hands to nquad (in nquad argument order) -/
def marginalCdfRanges {α} (n : Nat) (x : α) : List (Range α) :=
  List.replicate (n - 1) none ++ [some x]

/-- the ranges `marginal_pdf(x, dim)` hands to nquad: every OTHER variable over `(0, ∞)` (the requested
one is not integrated: it is the extra argument `x`) -/
def marginalPdfRanges {α} (n : Nat) : List (Range α) :=
  List.replicate (n - 1) none

/-- the ranges `cdf(x)` hands to nquad -/
def cdfRanges {α} (x : List α) : List (Range α) := x.map some

end VirVerif
