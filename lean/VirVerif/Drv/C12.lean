import VirVerif.Model.Likelihood
import VirVerif.Drv.Proto
namespace VirVerif.Drv
open VirVerif

def c12nan : Float := 0.0 / 0.0

/-- transcendental leaves: `TABLE <name> <arg bits>… <value>`; NaN when the model asks for an
argument the harness did not tabulate (reported as a divergence) -/
def leaf1 (st : St) (name : String) (x : Float) : Float :=
  (st.tables.get? s!"{name} {tokOfF x}").getD c12nan

def leaf2 (st : St) (name : String) (x y : Float) : Float :=
  (st.tables.get? s!"{name} {tokOfF x} {tokOfF y}").getD c12nan

def llOut (v : Float) : String :=
  if v.isNaN then "ERR missingTable-or-nan" else "OK " ++ tokOfF v

def pairOut : Option (Float × Float) → String
  | none => "ERR undefined"
  | some (a, b) => if a.isNaN || b.isNaN then "ERR missingTable-or-nan" else s!"OK {tokOfF a} {tokOfF b}"

def oneOut : Option Float → String
  | none => "ERR undefined"
  | some a => if a.isNaN then "ERR missingTable-or-nan" else s!"OK {tokOfF a}"

/-- ops
  `ll weibull a b g <data>` · `ll expweibull a b d <data>` · `ll normal l2pi mu sigma <data>` ·
  `ll lognormal l2pi mu sigma <data>` · `ll gengamma m c lam <data>` · `ll vonmises l2pi kappa mu <data>` ·
  `ll gamma a l s <data>` · `ll gumbel l s <data>`              → `OK <sum of log-densities>`
  `fit normal <data>` · `fit lognormal <data>`                  → `OK p1 p2`
  `fit normfit <data>`                                          → `OK mu_norm sigma_norm mu sigma`
  `fit normal_floc m <data>` · `fit normal_fscale <data>` · `fit lognormal_fmu m <data>` ·
  `fit lognormal_fsigma <data>`  (one parameter fixed)          → `OK <the estimated parameter>` -/
def handleC12 : Handler := fun st toks =>
  let log := leaf1 st "log"
  let exp := leaf1 st "exp"
  let expm1 := leaf1 st "expm1"
  let pow := leaf2 st "pow"
  let lgamma := leaf1 st "lgamma"
  let logI0 := leaf1 st "logi0"
  let cos := leaf1 st "cos"
  match toks with
  | "ll" :: "weibull" :: a :: b :: g :: rest =>
    match takeFloats rest with
    | some (xs, _) => some (llOut (sumLogPdf (weibullLogPdf log pow (fOfTok a) (fOfTok b) (fOfTok g)) xs))
    | none => some "ERR parse"
  | "ll" :: "expweibull" :: a :: b :: d :: rest =>
    match takeFloats rest with
    | some (xs, _) =>
      some (llOut (sumLogPdf (expWeibullLogPdf log expm1 pow (fOfTok a) (fOfTok b) (fOfTok d)) xs))
    | none => some "ERR parse"
  | "ll" :: "normal" :: l2pi :: mu :: sigma :: rest =>
    match takeFloats rest with
    | some (xs, _) =>
      some (llOut (sumLogPdf (normalLogPdf log (fOfTok l2pi) (fOfTok mu) (fOfTok sigma)) xs))
    | none => some "ERR parse"
  | "ll" :: "lognormal" :: l2pi :: mu :: sigma :: rest =>
    match takeFloats rest with
    | some (xs, _) =>
      some (llOut (sumLogPdf (lognormalLogPdf log (fOfTok l2pi) (fOfTok mu) (fOfTok sigma)) xs))
    | none => some "ERR parse"
  | "ll" :: "gengamma" :: m :: c :: lam :: rest =>
    match takeFloats rest with
    | some (xs, _) =>
      some (llOut (sumLogPdf (genGammaLogPdf log lgamma pow (fOfTok m) (fOfTok c) (fOfTok lam)) xs))
    | none => some "ERR parse"
  | "ll" :: "vonmises" :: l2pi :: kappa :: mu :: rest =>
    match takeFloats rest with
    | some (xs, _) =>
      some (llOut (sumLogPdf (vonMisesLogPdf cos logI0 (fOfTok l2pi) (fOfTok kappa) (fOfTok mu)) xs))
    | none => some "ERR parse"
  | "ll" :: "gamma" :: a :: l :: s :: rest =>
    match takeFloats rest with
    | some (xs, _) =>
      some (llOut (sumLogPdf (gammaLogPdf log lgamma (fOfTok a) (fOfTok l) (fOfTok s)) xs))
    | none => some "ERR parse"
  | "ll" :: "gumbel" :: l :: s :: rest =>
    match takeFloats rest with
    | some (xs, _) => some (llOut (sumLogPdf (gumbelLogPdf log exp (fOfTok l) (fOfTok s)) xs))
    | none => some "ERR parse"
  | "fit" :: "normal" :: rest =>
    match takeFloats rest with
    | some (xs, _) => some (pairOut (normalFit Float.sqrt xs))
    | none => some "ERR parse"
  | "fit" :: "lognormal" :: rest =>
    match takeFloats rest with
    | some (xs, _) => some (pairOut (lognormalFit log exp Float.sqrt xs))
    | none => some "ERR parse"
  | "fit" :: "normal_floc" :: m :: rest =>
    match takeFloats rest with
    | some (xs, _) => some (oneOut (normalFitFixedLoc Float.sqrt (fOfTok m) xs))
    | none => some "ERR parse"
  | "fit" :: "normal_fscale" :: rest =>
    match takeFloats rest with
    | some (xs, _) => some (oneOut (normalFitFixedScale xs))
    | none => some "ERR parse"
  | "fit" :: "lognormal_fmu" :: m :: rest =>
    match takeFloats rest with
    | some (xs, _) => some (oneOut (lognormalFitFixedMu log exp Float.sqrt (fOfTok m) xs))
    | none => some "ERR parse"
  | "fit" :: "lognormal_fsigma" :: rest =>
    match takeFloats rest with
    | some (xs, _) => some (oneOut (lognormalFitFixedSigma log exp xs))
    | none => some "ERR parse"
  | "fit" :: "normfit" :: rest =>
    match takeFloats rest with
    | some (xs, _) =>
      match normFit Float.sqrt xs with
      | none => some "ERR undefined"
      | some (m, s) =>
        let mu := normFitMu log Float.sqrt m s
        let sg := normFitSigma log Float.sqrt m s
        if mu.isNaN || sg.isNaN then some "ERR missingTable-or-nan"
        else some s!"OK {tokOfF m} {tokOfF s} {tokOfF mu} {tokOfF sg}"
    | none => some "ERR parse"
  | _ => none

end VirVerif.Drv
