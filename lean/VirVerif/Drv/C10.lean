import VirVerif.Model.Slicers
import VirVerif.Drv.Proto
namespace VirVerif.Drv
open VirVerif

def refKindOfTok : String → RefKind
  | "0" => .center | "1" => .right | "2" => .left | _ => .callable

def errStr : SliceErr → String
  | .tooFewIntervals _ _ => "tooFewIntervals"
  | .emptyData => "emptyData"
  | .badPerm => "badPerm"
  | .splitZero => "splitZero"

def intervalsOut (r : Except SliceErr (List (Interval Float))) : String :=
  match r with
  | .error e => "ERR " ++ errStr e
  | .ok ivs =>
    "OK " ++ " ".intercalate (toString ivs.length :: ivs.map fun iv =>
      maskStr iv.mask ++ " " ++ (match iv.ref with | some r => tokOfF r | none => "-") ++ " " ++
        tokOfF iv.lo ++ " " ++ tokOfF iv.hi)

/-- ops: `width w rightOpen ref vmin vmax minPts minIv n data…`,
`number k includeMax ref lo hi minPts minIv n data…`, `ppi nPts lastFull minPts minIv n perm… n data…` -/
def handleC10 : Handler := fun _ toks =>
  match toks with
  | "width" :: w :: ro :: rk :: vmin :: vmax :: mp :: mi :: rest =>
    match takeFloats rest with
    | some (data, _) =>
      some (intervalsOut (widthSliceF (fOfTok w) (bOfTok ro) (refKindOfTok rk) (optF vmin) (optF vmax)
        (nOfTok mp) (nOfTok mi) data))
    | none => some "ERR parse"
  | "number" :: k :: im :: rk :: lo :: hi :: mp :: mi :: rest =>
    match takeFloats rest with
    | some (data, _) =>
      let range := match optF lo, optF hi with
        | some a, some b => some (a, b)
        | _, _ => none
      some (intervalsOut (numberSliceF (nOfTok k) (bOfTok im) (refKindOfTok rk) range
        (nOfTok mp) (nOfTok mi) data))
    | none => some "ERR parse"
  | "ppi" :: np :: lf :: mp :: mi :: rest =>
    match takeNats rest with
    | some (perm, rest') =>
      match takeFloats rest' with
      | some (data, _) =>
        some (intervalsOut (ppiSlice (nOfTok np) (bOfTok lf) (nOfTok mp) (nOfTok mi) perm data))
      | none => some "ERR parse"
    | none => some "ERR parse"
  | _ => none

end VirVerif.Drv
