import VirVerif.Model.Heap
import VirVerif.Drv.Proto
namespace VirVerif.Drv
open VirVerif.Heap

/-! Driver ops for C19 (heap model).

  obj   := <mutable 0|1> <k> <field>*k          field := i<nat> | r<objid>
  heapstep N obj*N  R root*R  <opkind> <target> <nargs> arg* <ndescs> desc*  W (id obj)*W  A obj*A
  getterpair N0 obj*N0  A1 obj*A1 r1  A2 obj*A2 r2
  condfit <copy 0|1> N obj*N t P (k field*k)*P
-/

abbrev P19 (α : Type) := List String → Option (α × List String)

def pNat : P19 Nat
  | [] => none
  | t :: r => t.toNat?.map (·, r)

def pField : P19 Val
  | [] => none
  | t :: r =>
    match t.toList with
    | 'i' :: ds => (String.ofList ds).toNat?.map (fun n => (Val.imm (Int.ofNat n), r))
    | 'r' :: ds => (String.ofList ds).toNat?.map (fun n => (Val.ref n, r))
    | _ => none

def pMany {α : Type} (p : P19 α) : Nat → P19 (List α)
  | 0, ts => some ([], ts)
  | n + 1, ts =>
    match p ts with
    | none => none
    | some (a, r) =>
      match pMany p n r with
      | none => none
      | some (as, r') => some (a :: as, r')

def pCounted {α : Type} (p : P19 α) : P19 (List α) := fun ts =>
  match pNat ts with
  | none => none
  | some (n, r) => pMany p n r

def pFields : P19 (List Val) := pCounted pField

def pObj : P19 Obj := fun ts =>
  match ts with
  | m :: r =>
    match pFields r with
    | some (fs, r') => some (⟨m == "1", fs⟩, r')
    | none => none
  | [] => none

def pWrite : P19 (Nat × Obj) := fun ts =>
  match pNat ts with
  | none => none
  | some (i, r) =>
    match pObj r with
    | none => none
    | some (ob, r') => some ((i, ob), r')

def pOp : P19 Op := fun ts =>
  match ts with
  | kind :: r =>
    match pNat r with
    | none => none
    | some (tgt, r1) =>
      match pCounted pNat r1 with
      | none => none
      | some (args, r1') =>
       match pCounted pNat r1' with
       | none => none
       | some (descs, r2) =>
        let op : Option Op := match kind with
          | "eval" => some (.eval tgt args)
          | "contour" => some (.contour tgt args)
          | "design" => some (.design tgt args)
          | "plot" => some (.plot args)
          | "save" => some (.save tgt args)
          | "deepcopy" => some (.deepcopy tgt)
          | "getter" => some (.getter tgt)
          | "fit" => some (.fit tgt descs args)
          | _ => none
        op.map (·, r2)
  | [] => none

def natsOut19 (l : List Nat) : String :=
  if l.isEmpty then "-" else ",".intercalate (l.map toString)

def valOut : Val → String
  | .imm v => "i" ++ toString v
  | .ref o => "r" ++ toString o

def fieldsOut (l : List Val) : String :=
  " ".intercalate (toString l.length :: l.map valOut)

def certRoot (s : Store) (r : Nat) : Bool := closedB s [r] (reachList s [r])

def heapStep (toks : List String) : Option String := do
  let (objs, r1) ← pCounted pObj toks
  let (roots, r2) ← pCounted pNat r1
  let (op, r3) ← pOp r2
  let (writes, r4) ← pCounted pWrite r3
  let (allocs, _) ← pCounted pObj r4
  let s : Store := ⟨objs⟩
  let e : Effect := ⟨writes, allocs⟩
  let written := writes.map (·.1)
  let targets : List Nat := match op with
    | .fit m ds _ => m :: ds
    | _ => []
  let cert := (roots ++ targets).all (certRoot s) && closedB s targets (reachList s targets)
  let wf := wfB s && liveB s (roots ++ targets)
  let adm := admissibleB s op written
  let off := offenders s op written
  let touched := maskStr (roots.map fun r => touchedB s r written)
  let base := s!"OK cert={tokOfB cert} wf={tokOfB wf} adm={tokOfB adm} effwf={tokOfB (effWFB s e)} " ++
    s!"off={natsOut19 off} touched={if roots.isEmpty then "-" else touched} fp={(footprintList s op).length}"
  match op with
  | .fit m ds _ =>
    let smut := roots.map fun r => (sharedMut s (m :: ds) r).length
    let sany := roots.map fun r => (sharedAny s (m :: ds) r).length
    some (base ++ s!" nocap={tokOfB (noCaptureB s (m :: ds) e)} smut={natsOut19 smut} sany={natsOut19 sany}")
  | _ => some base

def getterPair (toks : List String) : Option String := do
  let (objs, r1) ← pCounted pObj toks
  let (a1, r2) ← pCounted pObj r1
  let (root1, r3) ← pNat r2
  let (a2, r4) ← pCounted pObj r3
  let (root2, _) ← pNat r4
  let s : Store := ⟨objs⟩
  let e1 : Effect := ⟨[], a1⟩
  let e2 : Effect := ⟨[], a2⟩
  let s1 := s.apply e1
  let s2 := s1.apply e2
  let cert := certRoot s1 root1 && certRoot s2 root1 && certRoot s2 root2
  let wf := wfB s && effWFB s e1 && effWFB s1 e2 && decide (root1 < s1.next) && decide (root2 < s2.next)
  let shared := sharedMut s2 [root1] root2
  some (s!"OK cert={tokOfB cert} wf={tokOfB wf} fresh1={tokOfB (freshResultB s e1 root1)} " ++
    s!"fresh2={tokOfB (freshResultB s1 e2 root2)} shared={natsOut19 shared} " ++
    s!"n1={(reachList s2 [root1]).length} n2={(reachList s2 [root2]).length}")

def condFitOp (toks : List String) : Option String := do
  match toks with
  | copy :: rest =>
    let (objs, r1) ← pCounted pObj rest
    let (t, r2) ← pNat r1
    let (ps, _) ← pCounted pFields r2
    let s : Store := ⟨objs⟩
    let (s', ids) := condFit (copy == "1") s t ps
    let tOut := match s'.get t with
      | some ob => fieldsOut ob.fields
      | none => "none"
    let objsOut := ids.map fun d => match s'.get d with
      | some ob => fieldsOut ob.fields
      | none => "none"
    some ("OK " ++ tOut ++ " " ++ " ".intercalate (toString ids.length :: ids.map toString) ++
      (if objsOut.isEmpty then "" else " " ++ " ".intercalate objsOut))
  | [] => none

def handleC19 : Handler := fun _ toks =>
  match toks with
  | "heapstep" :: rest => some ((heapStep rest).getD "ERR parse")
  | "getterpair" :: rest => some ((getterPair rest).getD "ERR parse")
  | "condfit" :: rest => some ((condFitOp rest).getD "ERR parse")
  | _ => none

end VirVerif.Drv
