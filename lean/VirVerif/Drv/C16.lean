import VirVerif.Model.Rejection
import VirVerif.Model.TStub
import VirVerif.Model.McSize
import VirVerif.Drv.Proto
namespace VirVerif.Drv
open VirVerif

namespace C16

def nanF : Float := 0.0 / 0.0

/-- `x**3`: numpy's `power` leaf from `TABLE pow3 <x> <v>` or the plain product -/
def cubeOf (st : St) (mode : String) : Float → Float :=
  if mode == "table" then fun b => (st.tables.get? s!"pow3 {tokOfF b}").getD nanF
  else fun b => b * b * b

def pairsOut (l : List (Float × Float)) : String :=
  "OK " ++ floatsOut (l.map (·.1)) ++ " " ++ floatsOut (l.map (·.2))

/-- split a flat list into rows of length `d` -/
def chunk (d : Nat) : Nat → List Float → List (List Float)
  | 0, _ => []
  | n + 1, l => l.take d :: chunk d n (l.drop d)

def consts : RejConst Float :=
  { xMin := 1e-16, hi := 100, lo := 0.05, thr := 1e-7, mult := 0.7, slack := 1.001, gridN := 1000 }

def errStr : RejErr → String
  | .noIter => "noIter"
  | .badN => "badN"
  | .batchSize i w gx gy => s!"batchSize {i} {w} {gx} {gy}"
  | .outOfBatches => "outOfBatches"
  | .couldNotSample => "couldNotSample"
  | .xmaxFuel => "xmaxFuel"
  | .indexError => "indexError"
  | .emptyGrid => "emptyGrid"

/-- read `<nb> {<len> xs… <len> ys…}*` -/
def takeBatches : Nat → List String → Option (List (List Float × List Float))
  | 0, _ => some []
  | k + 1, toks =>
    match takeFloats toks with
    | some (xs, r1) =>
      match takeFloats r1 with
      | some (ys, r2) => (takeBatches k r2).map ((xs, ys) :: ·)
      | none => none
    | none => none

def rowKey (row : List Float) : String := " ".intercalate ("pdf" :: row.map tokOfF)

/-- Python's `int()` of a non-negative double below 2^64 -/
def truncNat (x : Float) : Nat := x.toUInt64.toNat

/-- `np.min` / `np.max` of a non-empty list (no NaN) -/
def minF : List Float → Float
  | [] => nanF
  | x :: xs => xs.foldl (fun a b => if b < a then b else a) x
def maxF : List Float → Float
  | [] => nanF
  | x :: xs => xs.foldl (fun a b => if a < b then b else a) x

end C16
open C16

/-- ops
* `c16consts` → the literals of `conditional_sample` as the model holds them
* `tf <name> <F> <n> a… <n> b…` → the transform evaluated pointwise
* `jac <cubeMode> <F> <n> a… <n> b…`
* `tpdf <nDim> <cubeMode> <k> <s1> <c0> <c1> <e0> <e1> <m> flatrows…`
* `tsample <nDim> <k> <m> flatrows…`
* `ecdf <nDim> <m> flat sample… <q> flat events…`
* `xhat <nDim> <dim> <g> given… <x>`
* `c16nmarg <pf> <k> p…` / `c16ncond <pf> <k> p…` / `c16ncdf` → Monte-Carlo sample sizes (Model/McSize.lean)
* `rej <pdfMode> [stub: <cubeMode> <k> <s1> <c0> <c1> <e0> <e1>] <nDim> <dim> <g> given… <n> <maxIter>
       <xmaxH> <fmaxH> <nb> {<len> xs… <len> ys…}*` -/
def handleC16 : Handler := fun st toks =>
  match toks with
  | ["c16consts"] =>
    some ("OK " ++ floatsOut [consts.xMin, consts.hi, consts.lo, consts.thr, consts.mult, consts.slack] ++
      s!" {consts.gridN}")
  | "tf" :: name :: F :: rest =>
    match takeFloats rest with
    | some (as, r1) =>
      match takeFloats r1 with
      | some (bs, _) =>
        let F := fOfTok F
        let f : Option (Float → Float → Float × Float) := match name with
          | "hs_tz_to_s_d" => some (hsTzToSD Float.sqrt F)
          | "s_d_to_hs_tz" => some (sDToHsTz Float.sqrt F)
          | "hs_tz_to_hs_s" => some (hsTzToHsS F)
          | "hs_s_to_hs_tz" => some (hsSToHsTz Float.sqrt F)
          | "hs_tz_to_s_tz" => some (hsTzToSTz F)
          | "s_tz_to_hs_tz" => some (sTzToHsTz F)
          | "predef_transform" => some (fun a b => predefTransform Float.sqrt F (a, b))
          | "predef_inverse" => some (fun a b => predefInverse Float.sqrt F (a, b))
          | _ => none
        match f with
        | some f => some (pairsOut ((as.zip bs).map fun (a, b) => f a b))
        | none => some "ERR unknown-transform"
      | none => some "ERR parse"
    | none => some "ERR parse"
  | "jac" :: mode :: F :: rest =>
    match takeFloats rest with
    | some (as, r1) =>
      match takeFloats r1 with
      | some (bs, _) =>
        some ("OK " ++ floatsOut ((as.zip bs).map fun (a, b) => predefJacobian (cubeOf st mode) (fOfTok F) (a, b)))
      | none => some "ERR parse"
    | none => some "ERR parse"
  | "tpdf" :: nDim :: mode :: k :: s1 :: c0 :: c1 :: e0 :: e1 :: rest =>
    match takeFloats rest with
    | some (flat, _) =>
      let d := nDim.toNat!
      let base : StubBase := ⟨fOfTok s1, fOfTok c0, fOfTok c1, fOfTok e0, fOfTok e1⟩
      let k := fOfTok k
      let rows := chunk d (flat.length / d) flat
      some ("OK " ++ floatsOut (rows.map fun r => tPdf base.pdf (stubTransform k) (stubJacobian (cubeOf st mode) k) r))
    | none => some "ERR parse"
  | "tsample" :: nDim :: k :: rest =>
    match takeFloats rest with
    | some (flat, _) =>
      let d := nDim.toNat!
      let rows := chunk d (flat.length / d) flat
      let out := tDraw (rowwise (stubInverse (fOfTok k))) (fun _ => rows) rows.length
      some ("OK " ++ floatsOut out.flatten)
    | none => some "ERR parse"
  | "ecdf" :: nDim :: rest =>
    match takeFloats rest with
    | some (flat, r1) =>
      match takeFloats r1 with
      | some (ev, _) =>
        let d := nDim.toNat!
        let sample := chunk d (flat.length / d) flat
        let events := chunk d (ev.length / d) ev
        some ("OK " ++ " ".intercalate (toString events.length :: events.map fun e => toString (ecdfCount sample e)))
      | none => some "ERR parse"
    | none => some "ERR parse"
  | "c16nmarg" :: pf :: rest =>
    -- sample size of marginal_icdf(p, dim, precision_factor) for the probabilities p
    match takeFloats rest with
    | some (ps, _) =>
      if ps.isEmpty then some "ERR empty" else
      let pSmall := McSize.pSmallMarginal (minF ps) (maxF ps)
      some s!"OK {McSize.marginalN truncNat pSmall (fOfTok pf)}"
    | none => some "ERR parse"
  | "c16ncond" :: pf :: rest =>
    -- sample sizes of conditional_icdf(p, dim, given, precision_factor), one per probability
    match takeFloats rest with
    | some (ps, _) =>
      some ("OK " ++ " ".intercalate (toString ps.length ::
        ps.map fun p => toString (McSize.condN truncNat 0.5 p (fOfTok pf))))
    | none => some "ERR parse"
  | ["c16ncdf"] => some s!"OK {McSize.cdfN}"
  | "xhat" :: nDim :: dim :: rest =>
    match takeFloats rest with
    | some (given, x :: _) =>
      match xHat nDim.toNat! dim.toNat! given (fOfTok x) with
      | some row => some ("OK " ++ floatsOut row)
      | none => some "ERR indexError"
    | _ => some "ERR parse"
  | "rej" :: mode :: rest =>
    let parsed : Option ((List Float → Float) × List String) :=
      if mode == "table" then
        some (fun row => (st.tables.get? (rowKey row)).getD nanF, rest)
      else match rest with
        | cm :: k :: s1 :: c0 :: c1 :: e0 :: e1 :: rest' =>
          let base : StubBase := ⟨fOfTok s1, fOfTok c0, fOfTok c1, fOfTok e0, fOfTok e1⟩
          let k := fOfTok k
          some (tPdf base.pdf (stubTransform k) (stubJacobian (cubeOf st cm) k), rest')
        | _ => none
    match parsed with
    | some (pdfRow, nDim :: dim :: rest1) =>
      match takeFloats rest1 with
      | some (given, n :: maxIter :: xmaxH :: fmaxH :: nb :: rest2) =>
        match takeBatches nb.toNat! rest2 with
        | some batches =>
          -- the batches were drawn by the harness with ITS x_max / f_max (given for the record);
          -- the answer carries the model's x_max / f_max and the harness compares them first
          let _ := (xmaxH, fmaxH)
          let draws := fun (_ _ : Float) => batches
          match condSample pdfRow linspaceIncl consts nDim.toNat! dim.toNat! given n.toNat! maxIter.toNat! draws with
          | .ok o =>
            some (s!"OK {tokOfF o.xMax} {tokOfB o.xMaxWarning} {tokOfF o.fMax} {tokOfB o.out.maxIterWarning} " ++
              s!"{o.out.iterations} {o.out.accepted} " ++ floatsOut o.out.sample)
          | .error e => some ("ERR " ++ errStr e)
        | none => some "ERR parse"
      | _ => some "ERR parse"
    | _ => some "ERR parse"
  | _ => none

end VirVerif.Drv
