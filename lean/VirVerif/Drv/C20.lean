import VirVerif.Model.Export
import VirVerif.Drv.Proto
namespace VirVerif.Drv
open VirVerif

/-- strings cross the protocol as one token: `s` followed by comma-separated code points -/
def strOfTok (t : String) : Str :=
  (((t.drop 1).toString.splitOn ",").filter (· ≠ "")).map fun c => Char.ofNat c.toNat!

def hexDigit (n : Nat) : Char :=
  if n < 10 then Char.ofNat (48 + n) else Char.ofNat (87 + n)

def hexOf (n : Nat) : List Char :=
  if n < 16 then [hexDigit n] else hexOf (n / 16) ++ [hexDigit (n % 16)]
decreasing_by omega

/-- answers carry text with everything outside printable ASCII (and `\`, blank) escaped as `\hex;` -/
def escTok (s : Str) : String :=
  s.foldl (fun acc c =>
    if 33 ≤ c.toNat ∧ c.toNat ≤ 126 ∧ c ≠ '\\' then acc.push c
    else (hexOf c.toNat).foldl String.push (acc.push '\\') |>.push ';') "e"

def takeStrs : List String → Option (List Str × List String)
  | [] => none
  | n :: rest =>
    let k := n.toNat!
    if rest.length < k then none else some ((rest.take k).map strOfTok, rest.drop k)

def takeVals (n : Nat) (toks : List String) : List Val := (toks.take n).map fun t => valOfBits t.toNat!

def chunk {α} (w : Nat) : Nat → List α → List (List α)
  | 0, _ => []
  | n + 1, l => l.take w :: chunk w n (l.drop w)

def pairsOf : List Float → List (Float × Float)
  | a :: b :: t => (a, b) :: pairsOf t
  | _ => []

def pairsOut (l : List (Float × Float)) : String :=
  " ".intercalate (toString l.length :: l.map fun p => tokOfF p.1 ++ " " ++ tokOfF p.2)

def decOut : Dec → String
  | .fin s m p => "f " ++ tokOfB s ++ " " ++ toString m ++ " " ++ toString p
  | .nan => "nan"
  | .inf s => "inf " ++ tokOfB s

def handleC20 : Handler := fun st toks =>
  match toks with
  -- save20 <0|1 semantics given> nDim [k names… k units…] nRows nCols bits…
  | "save20" :: given :: nd :: rest =>
    let nDim := nOfTok nd
    let sem : Option (List Str × List Str × List String) :=
      if given == "1" then
        match takeStrs rest with
        | some (names, r1) =>
          match takeStrs r1 with
          | some (units, r2) => some (names, units, r2)
          | none => none
        | none => none
      else some (defaultNames nDim, defaultUnits nDim, rest)
    match sem with
    | some (names, units, nr :: nc :: bits) =>
      match headerOf names units nDim with
      | none => some "ERR index"
      | some hdr =>
        let rows := chunk (nOfTok nc) (nOfTok nr) (takeVals (nOfTok nr * nOfTok nc) bits)
        some ("OK " ++ escTok (saveText hdr rows))
    | _ => some "ERR parse"
  | ["savepath", p] =>
    let q := strOfTok p
    some ("OK " ++ escTok (savePath q) ++ " " ++ escTok (splitext q).1 ++ " " ++ escTok (splitext q).2)
  | "polyline" :: sw :: rest =>
    match takeFloats rest with
    | some (xs, _) =>
      match closePolyline (bOfTok sw) (pairsOf xs) with
      | some line => some ("OK " ++ pairsOut line)
      | none => some "ERR empty"
    | none => some "ERR parse"
  | "scatter" :: sw :: rest =>
    match takeFloats rest with
    | some (xs, _) => some ("OK " ++ pairsOut (scatterPts (bOfTok sw) (pairsOf xs)))
    | none => some "ERR parse"
  -- design <none|false|true|arr> n dflt… n pts…
  | "design" :: kind :: rest =>
    match takeFloats rest with
    | some (dflt, r1) =>
      match takeFloats r1 with
      | some (pts, _) =>
        let arg : DCArg Float := match kind with
          | "none" => .none | "false" => .flag false | "true" => .flag true | _ => .arr (pairsOf pts)
        match designPts (pairsOf dflt) arg with
        | none => some "OK none"
        | some l => some ("OK " ++ pairsOut l)
      | none => some "ERR parse"
    | none => some "ERR parse"
  | ["linspace", a, b, n] => some ("OK " ++ floatsOut (linspaceEndF (fOfTok a) (fOfTok b) (nOfTok n)))
  -- curve <table> n xs… : ordinates looked up in the oracle table of the real leaf
  | "curve" :: name :: rest =>
    match takeFloats rest with
    | some (xs, _) =>
      match curve (fun x => st.tables[name ++ " " ++ tokOfF x]?) xs with
      | some c => some ("OK " ++ pairsOut c)
      | none => some "ERR missingTable"
    | none => some "ERR parse"
  -- curve2 <table> n x0 y0 x1 y1 … : a leaf of two arguments (joint pdf on grid nodes)
  | "curve2" :: name :: rest =>
    match takeFloats rest with
    | some (xs, _) =>
      match curve (fun (p : Float × Float) => st.tables[name ++ " " ++ tokOfF p.1 ++ " " ++ tokOfF p.2]?)
          (pairsOf xs) with
      | some c => some ("OK " ++ floatsOut (c.map Prod.snd))
      | none => some "ERR missingTable"
    | none => some "ERR parse"
  | ["readbench", t] =>
    match readBenchmarkU (strOfTok t) with
    | none => some "ERR reject"
    | some (cols, rows) =>
      some ("OK " ++ " ".intercalate (toString cols.length :: cols.map escTok) ++ " " ++
        " ".intercalate (toString rows.length :: rows.map fun r =>
          " ".intercalate ([toString r.1.year, toString r.1.month, toString r.1.day, toString r.1.hour,
            toString r.2.length] ++ r.2.map decOut)))
  | ["parsetext", t] =>
    match parseText (strOfTok t) with
    | none => some "ERR reject"
    | some (hdr, rows) =>
      some ("OK " ++ escTok hdr ++ " " ++ " ".intercalate (toString rows.length :: rows.map fun r =>
        " ".intercalate (toString r.length :: r.map decOut)))
  | _ => none

end VirVerif.Drv
