/-
Line protocol helpers for the model driver (core Lean only).
Floats cross the protocol as decimal UInt64 bit patterns.
-/
import Std.Data.HashMap
namespace VirVerif.Drv

def fOfTok (s : String) : Float := Float.ofBits (UInt64.ofNat s.toNat!)
def tokOfF (x : Float) : String := toString x.toBits.toNat
def nOfTok (s : String) : Nat := s.toNat!
def bOfTok (s : String) : Bool := s == "1"
def tokOfB (b : Bool) : String := if b then "1" else "0"
def maskStr (m : List Bool) : String := String.ofList (m.map fun b => if b then '1' else '0')

/-- read a length-prefixed list of floats from the token stream -/
def takeFloats : List String → Option (List Float × List String)
  | [] => none
  | n :: rest =>
    let k := n.toNat!
    if rest.length < k then none else some ((rest.take k).map fOfTok, rest.drop k)

def takeNats : List String → Option (List Nat × List String)
  | [] => none
  | n :: rest =>
    let k := n.toNat!
    if rest.length < k then none else some ((rest.take k).map nOfTok, rest.drop k)

def optF : String → Option Float
  | "-" => none
  | s => some (fOfTok s)

def floatsOut (l : List Float) : String :=
  " ".intercalate (toString l.length :: l.map tokOfF)

structure St where
  tables : Std.HashMap String Float := {}
  deriving Inhabited

abbrev Handler := St → List String → Option String

end VirVerif.Drv
