import VirVerif.Model.Grid
import VirVerif.Model.Dfs
import VirVerif.Drv.Proto
namespace VirVerif.Drv
open VirVerif

def bitsOfTok (s : String) : Array Bool := (s.toList.map (· == '1')).toArray

def natsOut15 (l : List Nat) : String := " ".intercalate (toString l.length :: l.map toString)

/-- region / mask given as flat C-order bits -/
def maskFn (shape : List Nat) (bits : Array Bool) : List Int → Bool :=
  fun idx => bits.getD (flatIndex shape idx) false

def readAxes : Nat → List String → List (Array Float) → Option (List (Array Float) × List String)
  | 0, toks, acc => some (acc.reverse, toks)
  | k + 1, toks, acc =>
    match takeFloats toks with
    | some (ax, r) => readAxes k r (ax.toArray :: acc)
    | none => none

/-- squared Euclidean distance exactly as numpy evaluates `((p - q) ** 2).sum(1)` on two columns -/
def sqDist (xs ys : Array Float) (i j : Nat) : Float :=
  let dx := xs.getD j 0.0 - xs.getD i 0.0
  let dy := ys.getD j 0.0 - ys.getD i 0.0
  dx * dx + dy * dy

/-- ops
 `c15boundary <ndim> s… <bits> 0`            → `OK <boundary bits> m k labels-of-boundary-cells…`
 `c15boundary <ndim> s… <bits> 1 axes…`      → `OK <boundary bits> m (k rows…)*m`   (rows = k·ndim floats)
 `c15label <ndim> s… <bits>`                 → `OK m k labels-of-mask-cells…`
 `c15sorter <opt 0|1> <start> n x… n y… 2n knn…` → `OK closed start n order…`  -/
def handleC15 : Handler := fun _ toks =>
  match toks with
  | "c15boundary" :: nd :: rest =>
    let n := nd.toNat!
    if rest.length < n + 2 then some "ERR parse" else
    let shape := (rest.take n).map nOfTok
    let bits := bitsOfTok (rest.getD n "")
    let withAxes := rest.getD (n + 1) "0" == "1"
    let region := maskFn shape bits
    let cs := cells shape
    if bits.size != cs.length then some "ERR size" else
    let bmask := cs.map (boundaryAt shape region)
    let barr := bmask.toArray
    let (labels, m) := labelComponents shape (maskFn shape barr)
    if withAxes then
      match readAxes n (rest.drop (n + 2)) [] with
      | some (axes, _) =>
        let axArr := axes.toArray
        let axis : Nat → Nat → Float := fun d k => (axArr.getD d #[]).getD k (0.0 / 0.0)
        let label : List Int → Nat := fun idx => labels.getD (flatIndex shape idx) 0
        let sets := gather shape label m axis
        let body := sets.map fun rows =>
          " ".intercalate (toString rows.length :: rows.flatten.map tokOfF)
        some ("OK " ++ " ".intercalate ([maskStr bmask, toString m] ++ body))
      | none => some "ERR parse"
    else
      let labs := (List.range cs.length).filterMap fun k =>
        if barr.getD k false then some (labels.getD k 0) else none
      some ("OK " ++ maskStr bmask ++ " " ++ toString m ++ " " ++ natsOut15 labs)
  | "c15label" :: nd :: rest =>
    let n := nd.toNat!
    if rest.length < n + 1 then some "ERR parse" else
    let shape := (rest.take n).map nOfTok
    let bits := bitsOfTok (rest.getD n "")
    let cs := cells shape
    if bits.size != cs.length then some "ERR size" else
    let (labels, m) := labelComponents shape (maskFn shape bits)
    let labs := (List.range cs.length).filterMap fun k =>
      if bits.getD k false then some (labels.getD k 0) else none
    some ("OK " ++ toString m ++ " " ++ natsOut15 labs)
  | "c15sorter" :: opt :: start :: rest =>
    match takeFloats rest with
    | some (xs, r1) =>
      match takeFloats r1 with
      | some (ys, r2) =>
        match takeNats r2 with
        | some (knnFlat, _) =>
          let n := xs.length
          if ys.length != n || knnFlat.length != 2 * n then some "ERR parse" else
          let knn := (List.range n).map fun i => [knnFlat.getD (2 * i) 0, knnFlat.getD (2 * i + 1) 0]
          let adj := adjFn (buildAdj knn)
          let xa := xs.toArray
          let ya := ys.toArray
          let d := sqDist xa ya
          let closed := closedB n adj
          if bOfTok opt then
            let paths := ((List.range n).map fun i => sorterFrom adj d n i).toArray
            match optimalStart 0.0 (fun i => paths.getD i []) d n with
            | some s => some s!"OK {tokOfB closed} {s} {natsOut15 (paths.getD s [])}"
            | none => some "ERR empty"
          else
            let s := start.toNat!
            some s!"OK {tokOfB closed} {s} {natsOut15 (sorterFrom adj d n s)}"
        | none => some "ERR parse"
      | none => some "ERR parse"
    | none => some "ERR parse"
  | _ => none

end VirVerif.Drv
