import VirVerif.Model.Validate
import VirVerif.Drv.Proto
namespace VirVerif.Drv
open VirVerif.Validate

def kindStr : ErrKind → String
  | .valueError => "ValueError"
  | .typeError => "TypeError"
  | .runtimeError => "RuntimeError"
  | .notImplemented => "NotImplementedError"
  | .indexError => "IndexError"
  | .attributeError => "AttributeError"
  | .leaf => "leaf"

def resultStr (r : Except Err Unit) : String :=
  match r with
  | .ok _ => "OK"
  | .error e =>
    "ERR " ++ kindStr e.check.kind ++ " " ++ (reprStr e.check).replace "VirVerif.Validate.Check." "" ++ " " ++
      toString e.pos ++ " " ++ toString e.arg

def condOfTok (s : String) : Option CondTag :=
  if s == "-" then none
  else if s == "x" then some .other
  else some (.idx (s.drop 1).toInt!)

def parseDescs : Nat → List String → List DimDesc → Option (List DimDesc × List String)
  | 0, rest, acc => some (acc.reverse, rest)
  | n + 1, hd :: c :: hp :: rest, acc =>
    match takeNats rest with
    | some (uk, r1) =>
      match takeNats r1 with
      | some (names, r2) =>
        match takeNats r2 with
        | some (fixed, r3) =>
          match takeNats r3 with
          | some (dep, r4) =>
            parseDescs n r4 (⟨bOfTok hd, condOfTok c, bOfTok hp, uk, names, fixed, dep⟩ :: acc)
          | none => none
        | none => none
      | none => none
    | none => none
  | _, _, _ => none

def methodOfTok : String → MethodTag
  | "mle" => .mle | "lsq" => .lsq | "wlsq" => .wlsq | "unknown" => .unknown | _ => .nonString

def weightsOfTok : String → WeightsTag
  | "none" => .none | "linear" => .linear | "quadratic" => .quadratic | "cubic" => .cubic
  | "unknownStr" => .unknownStr | "arrayOk" => .arrayOk | "arrayNonFinite" => .arrayNonFinite
  | _ => .nonIterable

def kindOfTok : String → SlicerKind
  | "width" => .width | "number" => .number | _ => .ppi

def refOfTok : String → RefTag
  | "center" => .center | "left" => .left | "right" => .right | "unknownStr" => .unknownStr
  | "callable" => .callable | _ => .other

/-- fit descriptions: `-` (argument None) or `k` followed by k entries `-` | `d hasMethod method weights` -/
def parseFitDescs : Nat → List String → List (Option FitDesc) → Option (List (Option FitDesc) × List String)
  | 0, rest, acc => some (acc.reverse, rest)
  | n + 1, "-" :: rest, acc => parseFitDescs n rest (none :: acc)
  | n + 1, "d" :: hm :: m :: w :: rest, acc =>
    parseFitDescs n rest (some ⟨bOfTok hm, methodOfTok m, weightsOfTok w⟩ :: acc)
  | _, _, _ => none

/-- fit dimensions: `u lsqOk` (unconditional) | `c kind ref nKept minN lsqOk` -/
def parseFitDims : Nat → List String → List FitDim → Option (List FitDim × List String)
  | 0, rest, acc => some (acc.reverse, rest)
  | n + 1, "u" :: l :: rest, acc => parseFitDims n rest (⟨none, bOfTok l⟩ :: acc)
  | n + 1, "c" :: k :: r :: nk :: mn :: l :: rest, acc =>
    parseFitDims n rest (⟨some ⟨kindOfTok k, refOfTok r, nOfTok nk, nOfTok mn⟩, bOfTok l⟩ :: acc)
  | _, _, _ => none

def limOfTok (s : String) : LimTag :=
  if s == "s" then .scalar else if s == "e" then .nonNumeric else if s == "x" then .nonFinite
  else .tuple (s.drop 1).toNat!

def dvalOfTok : String → DVal
  | "p" => .pos | "z" => .zero | "n" => .neg | _ => .nan

def ptOfTok : String → PtTag
  | "f" => .finite | "nan" => .nan | "inf" => .posInf | _ => .negInf

def chunk18 {α} (k : Nat) : Nat → List α → List (List α)
  | 0, _ => []
  | n + 1, l => l.take k :: chunk18 k n (l.drop k)

/-- ops
  `c18desc n <dims…>`
  `c18fit n <fit dims…> (- | k <descs…>) k <data shape…>`
  `c18grid n (- | k <lims…>) (- | s v | l k <vs…>)`
  `c18slicer kind nUnknownKw ref nIntervals minN nKept`
  `c18density (0|1)` ; `c18points rows cols <tags…>` ; `c18twod nDim` ; `c18iform (ghm|transformed|other)` -/
def handleC18 : Handler := fun _ toks =>
  match toks with
  | "c18desc" :: n :: rest =>
    match parseDescs (nOfTok n) rest [] with
    | some (ds, _) => some (resultStr (validateDesc ds))
    | none => some "ERR parse"
  | "c18descold" :: n :: rest =>
    match parseDescs (nOfTok n) rest [] with
    | some (ds, _) => some (resultStr (validateDescOld ds))
    | none => some "ERR parse"
  | "c18fit" :: n :: rest =>
    match parseFitDims (nOfTok n) rest [] with
    | some (dims, "-" :: r1) =>
      match takeNats r1 with
      | some (shape, _) => some (resultStr (validateFit ⟨dims, none, shape⟩))
      | none => some "ERR parse"
    | some (dims, k :: r1) =>
      match parseFitDescs (nOfTok k) r1 [] with
      | some (descs, r2) =>
        match takeNats r2 with
        | some (shape, _) => some (resultStr (validateFit ⟨dims, some descs, shape⟩))
        | none => some "ERR parse"
      | _ => some "ERR parse"
    | _ => some "ERR parse"
  | "c18grid" :: n :: rest =>
    let lims : Option (Option (List LimTag) × List String) :=
      match rest with
      | "-" :: r => some (none, r)
      | k :: r => if r.length < nOfTok k then none
                  else some (some ((r.take (nOfTok k)).map limOfTok), r.drop (nOfTok k))
      | [] => none
    match lims with
    | some (l, "-" :: _) => some (resultStr (validateGrid ⟨nOfTok n, l, .none⟩))
    | some (l, "s" :: v :: _) => some (resultStr (validateGrid ⟨nOfTok n, l, .scalar (dvalOfTok v)⟩))
    | some (l, "l" :: k :: r) =>
      some (resultStr (validateGrid ⟨nOfTok n, l, .list ((r.take (nOfTok k)).map dvalOfTok)⟩))
    | _ => some "ERR parse"
  | ["c18slicer", kind, nuk, ref, niv, minN, nKept] =>
    let s : SlicerSpec := ⟨kindOfTok kind, List.range (nOfTok nuk), refOfTok ref, nOfTok niv, nOfTok minN,
      nOfTok nKept⟩
    some (match validateSlicerCtor s with
      | .error e => resultStr (.error e) ++ " ctor"
      | .ok _ => match validateSlice s with
        | .error e => resultStr (.error e) ++ " slice"
        | .ok _ => "OK")
  | "c18points" :: rows :: cols :: rest =>
    some (resultStr (validatePoints (chunk18 (nOfTok cols) (nOfTok rows) (rest.map ptOfTok))))
  | ["c18density", b] => some (resultStr (validateDensity (bOfTok b)))
  | ["c18twod", n] => some (resultStr (validateTwoD (nOfTok n)))
  | ["c18iform", t] =>
    some (resultStr (validateIformModel (match t with
      | "ghm" => .ghm | "transformed" => .transformed | _ => .other)))
  | _ => none

end VirVerif.Drv
