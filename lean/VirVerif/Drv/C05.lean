/-
Driver ops for C05: the documented formulas of Model/Families.lean evaluated at `Float`.

  RUN c05arg <fam> <meth> <nθ θ…> <nx x…>   → OK <n leaf-arguments…>
  RUN c05    <fam> <meth> <nθ θ…> <nx x…>   → OK <n values…> | ERR missingTable <name>

fam: 0 Weibull(α,β,γ) 1 LogNormal(μ,σ) 2 Normal(μ,σ) 3 LogNormalNormFit(m,s) 4 ExpWeibull(α,β,δ)
     5 GeneralizedGamma(m,c,λ) 6 VonMises(κ,μ) 7 Gumbel(loc,scale) [ScipyDistribution subclass of
     gumbel_r, no leaf];  meth: 0 cdf 1 icdf 2 pdf.
Special functions are leaves looked up in TABLE lines (`Phi z`, `PhiInv p`, `P m t`, `PInv m p`,
`Gamma m`, `I0 κ`, `V κ z`, `VInv κ p`), filled by the harness from scipy.special / the standard
forms, independent of virocon.  `c05arg` returns, per x, the argument at which the model will
consult its leaf (the model run with the identity as leaf), so that the harness can table exactly
those points.
-/
import VirVerif.Model.Families
import VirVerif.Drv.Proto
namespace VirVerif.Drv
open VirVerif

def floatTr : Tr Float :=
  { exp := Float.exp, log := Float.log, pow := Float.pow, sqrt := Float.sqrt, cos := Float.cos,
    pi := 3.141592653589793 }

/-- leaf name and (parameter part of the key, whether the per-x argument is part of the key) -/
def c05Leaf (fam meth : Nat) (θ : List Float) : Option (String × List Float × Bool) :=
  match fam, meth, θ with
  | 1, 0, _ | 2, 0, _ | 3, 0, _ => some ("Phi", [], true)
  | 1, 1, _ | 2, 1, _ | 3, 1, _ => some ("PhiInv", [], true)
  | 5, 0, [m, _, _] => some ("P", [m], true)
  | 5, 1, [m, _, _] => some ("PInv", [m], true)
  | 5, 2, [m, _, _] => some ("Gamma", [m], false)
  | 6, 0, [k, _] => some ("V", [k], true)
  | 6, 1, [k, _] => some ("VInv", [k], true)
  | 6, 2, [k, _] => some ("I0", [k], false)
  | _, _, _ => none

/-- the documented formula with the leaf given as a function of its per-x argument -/
def c05Doc (fam meth : Nat) (θ : List Float) (leaf : Float → Float) (x : Float) : Option Float :=
  let T := floatTr
  match fam, θ with
  | 0, [a, b, g] => some (match meth with
      | 0 => weibullCdf T a b g x | 1 => weibullIcdf T a b g x | _ => weibullPdf T a b g x)
  | 1, [mu, sigma] => some (match meth with
      | 0 => lognormalCdf T leaf mu sigma x | 1 => lognormalIcdf T leaf mu sigma x
      | _ => lognormalPdf T mu sigma x)
  | 2, [mu, sigma] => some (match meth with
      | 0 => normalCdf leaf mu sigma x | 1 => normalIcdf leaf mu sigma x
      | _ => normalPdf T mu sigma x)
  | 3, [m, s] =>
      let mu := lnnfMu T m s
      let sigma := lnnfSigma T m s
      some (match meth with
      | 0 => lognormalCdf T leaf mu sigma x | 1 => lognormalIcdf T leaf mu sigma x
      | _ => lognormalPdf T mu sigma x)
  | 4, [a, b, d] => some (match meth with
      | 0 => ewCdf T a b d x | 1 => ewIcdf T a b d x | _ => ewPdf T a b d x)
  | 5, [m, c, lam] => some (match meth with
      | 0 => ggCdf T (fun _ t => leaf t) m c lam x
      | 1 => ggIcdf T (fun _ p => leaf p) m c lam x
      | _ => ggPdf T (leaf m) m c lam x)
  | 6, [k, mu] => some (match meth with
      | 0 => vonMisesCdf leaf mu x | 1 => vonMisesIcdf leaf mu x
      | _ => vonMisesPdf T (leaf k) k mu x)
  | 7, [loc, scale] => some (match meth with
      | 0 => gumbelCdf T loc scale x | 1 => gumbelIcdf T loc scale x | _ => gumbelPdf T loc scale x)
  | _, _ => none

/-- per-x argument of the leaf: run the model with the identity as leaf where the argument is
computed by the model (cdf of the Φ / P / V families), else the input itself -/
def c05Arg (fam meth : Nat) (θ : List Float) (x : Float) : Float :=
  match fam, meth with
  | 1, 0 | 2, 0 | 3, 0 | 5, 0 | 6, 0 => (c05Doc fam meth θ id x).getD x
  | _, _ => x

def c05Key (name : String) (ps : List Float) (perX : Bool) (a : Float) : String :=
  name ++ " " ++ " ".intercalate ((ps ++ (if perX then [a] else [])).map tokOfF)

def handleC05 : Handler := fun st toks =>
  match toks with
  | op :: fam :: meth :: rest =>
    if op != "c05" && op != "c05arg" then none else
    match takeFloats rest with
    | none => some "ERR parse"
    | some (θ, rest') =>
      match takeFloats rest' with
      | none => some "ERR parse"
      | some (xs, _) =>
        let f := nOfTok fam
        let m := nOfTok meth
        if op == "c05arg" then some ("OK " ++ floatsOut (xs.map (c05Arg f m θ))) else
        match c05Leaf f m θ with
        | none =>
          match xs.mapM (c05Doc f m θ id) with
          | some vs => some ("OK " ++ floatsOut vs)
          | none => some "ERR badFamily"
        | some (name, ps, perX) =>
          let keys := xs.map fun x => c05Key name ps perX (c05Arg f m θ x)
          match keys.find? (fun k => !(st.tables.contains k)) with
          | some k => some ("ERR missingTable " ++ k)
          | none =>
            -- the leaf as the model sees it: a function of its argument, backed by the table
            let leaf := fun (a : Float) => (st.tables.get? (c05Key name ps perX a)).getD (0.0 / 0.0)
            match xs.mapM (c05Doc f m θ leaf) with
            | some vs => some ("OK " ++ floatsOut vs)
            | none => some "ERR badFamily"
  | _ => none

end VirVerif.Drv
