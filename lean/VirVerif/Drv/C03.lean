import VirVerif.Model.DirectSampling
import VirVerif.Drv.Proto
namespace VirVerif.Drv
open VirVerif

def tableFn (st : St) (name : String) (x : Float) : Float :=
  st.tables.getD (name ++ " " ++ tokOfF x) (0.0 / 0.0)

def tableHas (st : St) (name : String) (xs : List Float) : Bool :=
  xs.all fun x => st.tables.contains (name ++ " " ++ tokOfF x)

def vertexOut : Option (Float × Float) → String
  | some (x, y) => tokOfF x ++ " " ++ tokOfF y
  | none => "- -"

/-- `ds <pi> <degStep> <alpha> n x… n y…` with tables `cos`, `sin` on the direction angles →
`OK N (theta r)… (vx vy)…`; `angles <pi> <degStep>` → the direction grid;
`q7 <q> n z…` → `np.quantile(z, q)`. -/
def handleC03 : Handler := fun st toks =>
  match toks with
  | "c03angles" :: pi :: deg :: _ => some ("OK " ++ floatsOut (dsAnglesF (fOfTok pi) (fOfTok deg)))
  | "c03anglesold" :: pi :: deg :: _ => some ("OK " ++ floatsOut (dsAnglesOldF (fOfTok pi) (fOfTok deg)))
  | "c03q7" :: q :: rest =>
    match takeFloats rest with
    | some (z, _) =>
      match quantile7 floorNatF Float.ofNat 0.5 z (fOfTok q) with
      | some r => some ("OK " ++ tokOfF r)
      | none => some "ERR emptySample"
    | none => some "ERR parse"
  | "c03ds" :: pi :: deg :: alpha :: rest =>
    match takeFloats rest with
    | some (xs, rest') =>
      match takeFloats rest' with
      | some (ys, _) =>
        if xs.length ≠ ys.length then some "ERR parse" else
        let angles := dsAnglesF (fOfTok pi) (fOfTok deg)
        if !(tableHas st "cos" angles && tableHas st "sin" angles) then some "ERR missingTable" else
        let pts := xs.zip ys
        match tangentLines floorNatF Float.ofNat 0.5 (tableFn st "cos") (tableFn st "sin") pts
            (1.0 - fOfTok alpha) angles with
        | none => some "ERR emptySample"
        | some ls =>
          let vs := vertices ls
          some ("OK " ++ toString ls.length ++ " " ++
            " ".intercalate ((angles.zip ls).map fun (th, l) => tokOfF th ++ " " ++ tokOfF l.r) ++ " " ++
            " ".intercalate (vs.map vertexOut))
      | none => some "ERR parse"
    | none => some "ERR parse"
  | _ => none

end VirVerif.Drv
