import VirVerif.Model.EwLsq
import VirVerif.Drv.Proto
namespace VirVerif.Drv
open VirVerif.EwLsq

namespace C13

def nanF : Float := 0.0 / 0.0

/-- numpy leaves as TABLE lookups (`TABLE log10 <x> <v>`, `TABLE log <x> <v>`,
`TABLE power <x> <y> <v>`); NaN when the key is missing -/
def envF (st : St) : Env Float :=
  { lg10 := fun x => (st.tables.get? s!"log10 {tokOfF x}").getD nanF
    ln := fun x => (st.tables.get? s!"log {tokOfF x}").getD nanF
    pow := fun x y => (st.tables.get? s!"power {tokOfF x} {tokOfF y}").getD nanF
    ofN := Float.ofNat
    half := 0.5 }

/-- exact rational value of a double given by its bit pattern (finite doubles) -/
def ratOfBits (n : Nat) : Rat :=
  let neg := n / 2 ^ 63 == 1
  let e := (n / 2 ^ 52) % 2048
  let m := n % 2 ^ 52
  let mag : Rat :=
    if e == 0 then mkRat (Int.ofNat m) (2 ^ 1074)
    else if e ≥ 1075 then ((2 ^ 52 + m) * 2 ^ (e - 1075) : Nat)
    else mkRat (Int.ofNat (2 ^ 52 + m)) (2 ^ (1075 - e))
  if neg then -mag else mag

def takeRats : List String → Option (List Rat × List String)
  | [] => none
  | n :: rest =>
    let k := n.toNat!
    if rest.length < k then none else some ((rest.take k).map fun s => ratOfBits s.toNat!, rest.drop k)

def ratOut (r : Rat) : String := s!"{r.num}/{r.den}"

def errStr : LsqErr → String
  | .noWeight => "noWeight"
  | .degenerate => "degenerate"
  | .flat => "flat"
  | .lengthMismatch => "lengthMismatch"

def mkPts {α} : List α → List α → List α → List (Pt α)
  | p :: ps, x :: xs, w :: ws => { p := p, x := x, w := w } :: mkPts ps xs ws
  | _, _, _ => []

def take3 (toks : List String) : Option (List (Pt Float)) :=
  match takeFloats toks with
  | some (p, r1) =>
    match takeFloats r1 with
    | some (x, r2) =>
      match takeFloats r2 with
      | some (w, _) => if p.length == x.length && x.length == w.length then some (mkPts p x w) else none
      | none => none
    | none => none
  | none => none

def parseSpec (kind : String) (rest : List String) : Option (WSpec Float) :=
  match kind with
  | "none" => some .none
  | "linear" => some .linear
  | "quadratic" => some .quadratic
  | "cubic" => some .cubic
  | "array" => (takeFloats rest).map fun (ws, _) => .array ws
  | _ => none

def anyNaN (l : List Float) : Bool := l.any Float.isNaN

end C13

open C13 in
/-- ops
`c13pos n`                                     → `OK n p…`
`c13prep <spec> n data… [n ws…]`               → `OK n p… n x… n w…`
`c13est δ n p… n x… n w…`                      → `OK a b beta`            (phase 1)
`c13err δ n p… n x… n w…`                      → `OK a b alpha beta err`  (phase 2: needs power tables at the model's own a, beta)
`c13fit <spec> δ n data… [n ws…]`              → `OK a b beta kept`
`c13wlsq n p*… n x*… n w…`  (exact, `Rat`)     → `OK a b beta divisor dividend total spp` as num/den -/
def handleC13 : Handler := fun st toks =>
  let E := envF st
  match toks with
  | ["c13pos", n] => some ("OK " ++ floatsOut (positions E n.toNat!))
  | "c13prep" :: kind :: rest =>
    match takeFloats rest with
    | some (data, rest') =>
      match parseSpec kind rest' with
      | some spec =>
        match prepare E spec data with
        | .ok pts =>
          let w := pts.map (·.w)
          if anyNaN w then some "ERR nan-or-missingTable" else
          some ("OK " ++ floatsOut (pts.map (·.p)) ++ " " ++ floatsOut (pts.map (·.x)) ++ " " ++ floatsOut w)
        | .error e => some ("ERR " ++ errStr e)
      | none => some "ERR parse"
    | none => some "ERR parse"
  | "c13est" :: δ :: rest =>
    match take3 rest with
    | some pts =>
      match regress ((dropZeros pts).map (star E (fOfTok δ))) with
      | .ok (a, b, beta) =>
        if anyNaN [a, b, beta] then some "ERR nan-or-missingTable" else
        some s!"OK {tokOfF a} {tokOfF b} {tokOfF beta}"
      | .error e => some ("ERR " ++ errStr e)
    | none => some "ERR parse"
  | "c13err" :: δ :: rest =>
    match take3 rest with
    | some pts =>
      match estimate E (fOfTok δ) pts, wlsqError E (fOfTok δ) pts with
      | .ok r, .ok err =>
        if anyNaN [r.aHat, r.bHat, r.alphaHat, r.betaHat, err] then some "ERR nan-or-missingTable" else
        some s!"OK {tokOfF r.aHat} {tokOfF r.bHat} {tokOfF r.alphaHat} {tokOfF r.betaHat} {tokOfF err}"
      | .error e, _ => some ("ERR " ++ errStr e)
      | _, .error e => some ("ERR " ++ errStr e)
    | none => some "ERR parse"
  | "c13fit" :: kind :: δ :: rest =>
    match takeFloats rest with
    | some (data, rest') =>
      match parseSpec kind rest' with
      | some spec =>
        match prepare E spec data with
        | .error e => some ("ERR " ++ errStr e)
        | .ok pts =>
          match regress ((dropZeros pts).map (star E (fOfTok δ))) with
          | .ok (a, b, beta) =>
            if anyNaN [a, b, beta] then some "ERR nan-or-missingTable" else
            some s!"OK {tokOfF a} {tokOfF b} {tokOfF beta} {(dropZeros pts).length}"
          | .error e => some ("ERR " ++ errStr e)
      | none => some "ERR parse"
    | none => some "ERR parse"
  | "c13wlsq" :: rest =>
    match takeRats rest with
    | some (p, r1) =>
      match takeRats r1 with
      | some (x, r2) =>
        match takeRats r2 with
        | some (w, _) =>
          if !(p.length == x.length && x.length == w.length) then some "ERR parse" else
          let d := mkPts p x w
          match regress d with
          | .ok (a, b, beta) =>
            let m := moments (normalise d)
            let spp := sumBy (fun t => t.w * (t.p * t.p)) (normalise d)
            some s!"OK {ratOut a} {ratOut b} {ratOut beta} {ratOut m.divisor} {ratOut m.dividend} {ratOut (total d)} {ratOut spp}"
          | .error e => some ("ERR " ++ errStr e)
        | none => some "ERR parse"
      | none => some "ERR parse"
    | none => some "ERR parse"
  | _ => none

end VirVerif.Drv
