import VirVerif.Model.Hdc
import VirVerif.Drv.Proto
import VirVerif.Drv.Hier
namespace VirVerif.Drv
open VirVerif

def maskOfSel (n : Nat) (sel : List Nat) : String :=
  let a := sel.foldl (fun (m : Array Char) i => m.set! i '1') (Array.replicate n '0')
  String.ofList a.toList

/-- `select <limit> n v…` → `OK mask last warn` | `ERR …` -/
def handleC02 : Handler := fun st toks =>
  match toks with
  | "select" :: lim :: rest =>
    match takeFloats rest with
    | some (vals, _) =>
      match cumsumBiggestUntilChecked Float.isNaN 0.0 vals (fOfTok lim) with
      | .ok r => some s!"OK {maskOfSel vals.length r.selected} {tokOfF r.last} {tokOfB r.warn}"
      | .error .emptySelection => some "ERR emptySelection"
      | .error .emptyArray => some "ERR emptyArray"
      | .error .nanInput => some "ERR nanInput"
    | none => some "ERR parse"
  | "hdc" :: rest =>
    -- hdc <model> <alpha> (<lo> <hi> <delta>)*n  → OK n_axes axes… mask fm warn
    match parseModel rest with
    | some (m, alpha :: rest') =>
      let n := m.size
      if rest'.length < 3 * n then some "ERR parse" else
      let trip := (List.range n).map fun i =>
        (fOfTok (rest'.getD (3*i) "0"), fOfTok (rest'.getD (3*i+1) "0"), fOfTok (rest'.getD (3*i+2) "0"))
      let axes := trip.map fun (lo, hi, d) => gridAxis (if lo ≤ hi then lo else hi) (if lo ≤ hi then hi else lo) d
      let deltas := trip.map fun (_, _, d) => d
      let coords := (axes.map List.toArray).toArray
      let probs := gridProbs 1.0 0.5 (condOf m) (cdfOf st m) coords deltas
      if probs.any Float.isNaN then some "ERR nan-or-missingTable" else
      let limit := 1.0 - fOfTok alpha
      let axesOut := " ".intercalate (axes.map floatsOut)
      match hdrRegion 0.0 probs limit with
      | .ok (sel, probM, warn) =>
        some s!"OK {axesOut} {maskOfSel probs.length sel} {tokOfF (fmOf probM deltas)} {tokOfB warn}"
      | .error .emptySelection => some s!"ERR emptySelection {axesOut}"
      | .error .emptyArray => some "ERR emptyArray"
      | .error .nanInput => some "ERR nanInput"
    | _ => some "ERR parse"
  | "cellprobs" :: rest =>
    -- cellprobs <model> (n axis…)*n deltas…  → OK k probs…
    match parseModel rest with
    | some (m, rest') =>
      let n := m.size
      let rec readAxes (k : Nat) (toks : List String) (acc : List (List Float)) : Option (List (List Float) × List String) :=
        match k with
        | 0 => some (acc.reverse, toks)
        | k + 1 => match takeFloats toks with
          | some (ax, r) => readAxes k r (ax :: acc)
          | none => none
      match readAxes n rest' [] with
      | some (axes, rest2) =>
        let deltas := (rest2.take n).map fOfTok
        let coords := (axes.map List.toArray).toArray
        let probs := gridProbs 1.0 0.5 (condOf m) (cdfOf st m) coords deltas
        if probs.any Float.isNaN then some "ERR nan-or-missingTable" else some ("OK " ++ floatsOut probs)
      | none => some "ERR parse"
    | none => some "ERR parse"
  | "flat" :: n :: a :: la :: b :: lb :: rest =>
    -- flat <n> <a> <la> <b> <lb> I…  → C-order offset with broadcasting in the shape with la at axis a, lb at axis b
    let (a, la, b, lb) := (a.toNat!, la.toNat!, b.toNat!, lb.toNat!)
    let I := (rest.map String.toNat!).toArray
    some s!"OK {flatUpTo (fun j => if j = a then la else if j = b then lb else 1) (fun j => I.getD j 0) n.toNat!}"
  | _ => none

end VirVerif.Drv
