import VirVerif.Model.Hdc
import VirVerif.Drv.Proto
namespace VirVerif.Drv
open VirVerif

def maskOfSel (n : Nat) (sel : List Nat) : String :=
  let a := sel.foldl (fun (m : Array Char) i => m.set! i '1') (Array.replicate n '0')
  String.ofList a.toList

/-- `select <limit> n v…` → `OK mask last warn` | `ERR …` -/
def handleC02 : Handler := fun _ toks =>
  match toks with
  | "select" :: lim :: rest =>
    match takeFloats rest with
    | some (vals, _) =>
      match cumsumBiggestUntil 0.0 vals (fOfTok lim) with
      | .ok r => some s!"OK {maskOfSel vals.length r.selected} {tokOfF r.last} {tokOfB r.warn}"
      | .error .emptySelection => some "ERR emptySelection"
      | .error .emptyArray => some "ERR emptyArray"
    | none => some "ERR parse"
  | _ => none

end VirVerif.Drv
