import VirVerif.Drv.Hier
import VirVerif.Model.Joint
namespace VirVerif.Drv
open VirVerif

/-- `pdf <model> <k> rows…` → joint density per row;
`reorder <n> order… <n> args…` → model-order row;
`morder <n> <dim>` → integral order of marginal_pdf/cdf;
`ranges cdf <k> x…` | `ranges mcdf <n> <x>` | `ranges mpdf <n>` → the upper limits handed to nquad, in
nquad argument order (`inf` = the range `(0, ∞)`, otherwise the bits of `x` = the range `(0, x)`) -/
def handleC06 : Handler := fun st toks =>
  match toks with
  | "pdf" :: rest =>
    match parseModel rest with
    | some (m, k :: rest') =>
      match takeRows k.toNat! m.size rest' with
      | some (rows, _) =>
        let vals := rows.map fun r => jointPdfRow (condOf m) (pdfOf st m) 1.0 r
        if vals.any Option.isNone then some "ERR uninit" else
        let vs := vals.map (·.getD nan)
        if vs.any Float.isNaN then some "ERR nan-or-missingTable" else some ("OK " ++ floatsOut vs)
      | none => some "ERR parse"
    | _ => some "ERR parse"
  | "reorder" :: rest =>
    match takeNats rest with
    | some (order, rest') =>
      match takeFloats rest' with
      | some (args, _) =>
        let r := reorderArgs order args
        if r.any Option.isNone then some "ERR badOrder" else some ("OK " ++ floatsOut (r.map (·.getD nan)))
      | none => some "ERR parse"
    | none => some "ERR parse"
  | ["morder", n, dim] =>
    let o := marginalOrder n.toNat! dim.toNat!
    some ("OK " ++ " ".intercalate (o.map toString))
  | "ranges" :: which :: rest =>
    let out := fun (r : List (Range Float)) =>
      some ("OK " ++ " ".intercalate (toString r.length :: r.map fun
        | none => "inf"
        | some x => tokOfF x))
    match which, rest with
    | "cdf", _ =>
      match takeFloats rest with
      | some (x, _) => out (cdfRanges x)
      | none => some "ERR parse"
    | "mcdf", [n, x] => out (marginalCdfRanges n.toNat! (fOfTok x))
    | "mpdf", [n] => out (marginalPdfRanges n.toNat!)
    | _, _ => some "ERR parse"
  | _ => none

end VirVerif.Drv
