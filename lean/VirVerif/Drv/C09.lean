import VirVerif.Model.FitPipeline
import VirVerif.Drv.C10
namespace VirVerif.Drv
open VirVerif

def splitOut (r : Except SliceErr (List (Interval Float))) (dist : List Float) : String :=
  match r with
  | .error e => "ERR " ++ errStr e
  | .ok ivs =>
    let parts := splitData ivs dist
    "OK " ++ " ".intercalate (toString ivs.length ::
      (ivs.zip parts).map fun (iv, d) =>
        (match iv.ref with | some r => tokOfF r | none => "-") ++ " " ++ tokOfF iv.lo ++ " " ++ tokOfF iv.hi ++ " " ++ floatsOut d)

/-- `split width|number|ppi <same args as C10> n cond… [perm…] n dist…`;
`fitdesc <nDim> (none | N | D <method|-> <w: absent|none|kw>)…` -/
def handleC09 : Handler := fun _ toks =>
  match toks with
  | "split" :: "width" :: w :: ro :: rk :: vmin :: vmax :: mp :: mi :: rest =>
    match takeFloats rest with
    | some (cond, rest') => match takeFloats rest' with
      | some (dist, _) =>
        some (splitOut (widthSliceF (fOfTok w) (bOfTok ro) (refKindOfTok rk) (optF vmin) (optF vmax)
          (nOfTok mp) (nOfTok mi) cond) dist)
      | none => some "ERR parse"
    | none => some "ERR parse"
  | "split" :: "number" :: k :: im :: rk :: lo :: hi :: mp :: mi :: rest =>
    match takeFloats rest with
    | some (cond, rest') => match takeFloats rest' with
      | some (dist, _) =>
        let range := match optF lo, optF hi with
          | some a, some b => some (a, b)
          | _, _ => none
        some (splitOut (numberSliceF (nOfTok k) (bOfTok im) (refKindOfTok rk) range (nOfTok mp) (nOfTok mi) cond) dist)
      | none => some "ERR parse"
    | none => some "ERR parse"
  | "split" :: "ppi" :: np :: lf :: mp :: mi :: rest =>
    match takeNats rest with
    | some (perm, r1) => match takeFloats r1 with
      | some (cond, r2) => match takeFloats r2 with
        | some (dist, _) => some (splitOut (ppiSlice (nOfTok np) (bOfTok lf) (nOfTok mp) (nOfTok mi) perm cond) dist)
        | none => some "ERR parse"
      | none => some "ERR parse"
    | none => some "ERR parse"
  | "fitdesc" :: n :: "absent" :: _ =>
    match fillFitDesc n.toNat! none with
    | .ok ds => some ("OK " ++ " ".intercalate (ds.map fun d => d.method ++ ":" ++ d.weights.getD "None"))
    | .error _ => some "ERR"
  | "fitdesc" :: n :: rest =>
    let rec parse : List String → List FitDescIn → List FitDescIn
      | "N" :: r, acc => parse r (.none :: acc)
      | "D" :: m :: w :: r, acc =>
        parse r (.dict (if m == "-" then none else some m)
          (if w == "absent" then none else if w == "none" then some none else some (some w)) :: acc)
      | _, acc => acc.reverse
    match fillFitDesc n.toNat! (some (parse rest [])) with
    | .ok ds => some ("OK " ++ " ".intercalate (ds.map fun d => d.method ++ ":" ++ d.weights.getD "None"))
    | .error (.wrongLength _ _) => some "ERR wrongLength"
    | .error (.missingMethod i) => some s!"ERR missingMethod {i}"
  | _ => none

end VirVerif.Drv
