import VirVerif.Model.DepProtocol
import VirVerif.Model.DepFit
import VirVerif.Drv.Proto
namespace VirVerif.Drv
open VirVerif.Dep

/-- exact rational value of a finite double given by its bit pattern -/
def ratOfBits (n : Nat) : Option Rat :=
  let neg : Bool := n / 2 ^ 63 % 2 = 1
  let e : Nat := n / 2 ^ 52 % 2048
  let m : Nat := n % 2 ^ 52
  let sgn : Nat → Int := fun k => if neg then -(Int.ofNat k) else Int.ofNat k
  if e = 2047 then none
  else if e = 0 then some (mkRat (sgn m) (2 ^ 1074))
  else if e ≥ 1075 then some (mkRat (sgn ((2 ^ 52 + m) * 2 ^ (e - 1075))) 1)
  else some (mkRat (sgn (2 ^ 52 + m)) (2 ^ (1075 - e)))

def ratTok (q : Rat) : String := toString q.num ++ "/" ++ toString q.den

/-- `a/b`, `a` (decimal integers, optional minus sign) -/
def ratOfTok (s : String) : Option Rat :=
  match s.splitOn "/" with
  | [a] => a.toInt?.map fun i => mkRat i 1
  | [a, b] =>
    match a.toInt?, b.toNat? with
    | some i, some d => if d = 0 then none else some (mkRat i d)
    | _, _ => none
  | _ => none

def natsOut (l : List Nat) : String := " ".intercalate (toString l.length :: l.map toString)

/-- read `k` length-prefixed nat lists -/
def takeNatLists : Nat → List String → Option (List (List Nat) × List String)
  | 0, rest => some ([], rest)
  | k + 1, rest =>
    match takeNats rest with
    | none => none
    | some (l, rest') =>
      match takeNatLists k rest' with
      | none => none
      | some (ls, rest'') => some (l :: ls, rest'')

def optTokF : Option Float → String
  | none => "-"
  | some x => tokOfF x

/-- `k` pairs of optional floats -/
def takeOptPairs : Nat → List String → Option (List (Option Float × Option Float) × List String)
  | 0, rest => some ([], rest)
  | k + 1, a :: b :: rest =>
    match takeOptPairs k rest with
    | none => none
    | some (ps, rest') => some ((optF a, optF b) :: ps, rest')
  | _, _ => none

/-- optional bounds: `-` or `k lo hi lo hi …` -/
def takeOptBounds : List String → Option (Option (List (Option Float × Option Float)) × List String)
  | "-" :: rest => some (none, rest)
  | k :: rest =>
    match takeOptPairs k.toNat! rest with
    | some (ps, rest') => some (some ps, rest')
    | none => none
  | [] => none

def takeOptNats : List String → Option (Option (List Nat) × List String)
  | "-" :: rest => some (none, rest)
  | toks => (takeNats toks).map fun (l, r) => (some l, r)

def takeOptFloats : List String → Option (Option (List Float) × List String)
  | "-" :: rest => some (none, rest)
  | toks => (takeFloats toks).map fun (l, r) => (some l, r)

def optPairsOut (ps : List (Option Float × Option Float)) : String :=
  " ".intercalate (toString ps.length :: ps.map fun p => optTokF p.1 ++ " " ++ optTokF p.2)

def pinfF : Float := 1.0 / 0.0
def ninfF : Float := -(1.0 / 0.0)

def callOut : OptCall Float → String
  | .curveFit p0 sigma bounds =>
    "OK curve_fit " ++ floatsOut p0 ++ " " ++
      (match sigma with | none => "-" | some s => floatsOut s) ++ " " ++
      (match bounds with | none => "-" | some (lo, hi) => floatsOut lo ++ " " ++ floatsOut hi)
  | .slsqp p0 bounds cs =>
    "OK slsqp " ++ floatsOut p0 ++ " " ++
      (match bounds with | none => "-" | some ps => optPairsOut ps) ++ " " ++ natsOut cs

/-- rows of exact rationals from float bit patterns: `m` observations of (sigma|-, y, row of n) -/
def takeObs (n : Nat) : Nat → List String → Option (List (Obs Rat))
  | 0, _ => some []
  | m + 1, s :: y :: rest =>
    if rest.length < n then none else
    let rowToks := rest.take n
    match rowToks.mapM (fun t => ratOfBits t.toNat!), ratOfBits y.toNat!, takeObs n m (rest.drop n) with
    | some row, some yq, some os =>
      let w : Option Rat := if s == "-" then some 1 else (ratOfBits s.toNat!).bind sigmaWeight
      match w with
      | some wq => some ({ w := wq, row := fun j => match row[j]? with | some v => v | none => 0, y := yq } :: os)
      | none => none
    | _, _, _ => none
  | _, _ => none

def takeWPts : Nat → List String → Option (List (WPt Rat))
  | 0, _ => some []
  | m + 1, s :: x :: y :: rest =>
    match ratOfBits x.toNat!, ratOfBits y.toNat!, takeWPts m rest with
    | some xq, some yq, some ps =>
      let w : Option Rat := if s == "-" then some 1 else (ratOfBits s.toNat!).bind sigmaWeight
      match w with
      | some wq => some ({ w := wq, x := xq, y := yq } :: ps)
      | none => none
    | _, _, _ => none
  | _, _ => none

def optNatsOut (l : List (Option Nat)) : String :=
  " ".intercalate (toString l.length :: l.map fun o => match o with | some v => toString v | none => "-")

def evsOut (l : List Ev) : String :=
  " ".intercalate (toString l.length :: l.map fun ev =>
    toString ev.fn ++ " " ++ toString ev.data ++ " " ++ toString ev.p0 ++ " " ++ toString ev.call)

/-- final state of a protocol history, as the harness compares it: event log (oldest first), `_may_fit`,
stored-pairs flags, versions, seen versions, `_fitted_conditioners`; then the inputs of the fits: epoch of the
stored pairs, epoch of the last `_fit`'s pairs, `_p0` token, number of public calls, detailed events
(function, data epoch, start-value token, call number; oldest first) -/
def protoOut (N : Nat) (conds : Nat → List Nat) (s : Mut) : String :=
  let idx := List.range N
  let seen := idx.flatMap fun h => (conds h).map fun g => s.seen h g
  "OK " ++ natsOut s.log.reverse ++ " " ++ maskStr (idx.map s.mayFit) ++ " " ++
    maskStr (idx.map s.hasXY) ++ " " ++ natsOut (idx.map s.version) ++ " " ++ natsOut seen ++ " " ++
    " ".intercalate (idx.map fun h => natsOut (s.fitted h)) ++ " " ++
    optNatsOut (idx.map s.xyEpoch) ++ " " ++ optNatsOut (idx.map s.lastData) ++ " " ++
    optNatsOut (idx.map s.p0At) ++ " " ++ toString s.calls ++ " " ++ evsOut s.evlog.reverse

def protoRun (stale : Bool) (n : String) (rest : List String) : Option String :=
  let N := nOfTok n
  match takeNatLists N rest with
  | none => some "ERR parse"
  | some (decls, rest') =>
    match takeNats rest' with
    | none => some "ERR parse"
    | some (fs, rest'') =>
      match takeNats rest'' with
      | none => some "ERR parse"
      | some (es, _) =>
        if !checkDecls decls then some "ERR badDecl"
        else if !(fs.all fun f => decide (f < N)) then some "ERR badOp"
        else if fs.length != es.length then some "ERR badEpochs"
        else
          let conds := condsOf decls
          let ops := fs.zip es
          some (protoOut N conds (if stale then runHistoryStale N conds ops else runHistory N conds ops))

/-- ops:
`proto N <N nat lists: conds> <nat list: fit calls> <nat list: data epochs of the calls>`
`protostale …`  the same history on the seeded variant `fitCallStale` (diagnostics only)
`cbounds k lo hi …`
`dispatch <bounds|-> <constraint ids|-> <p0 floats> <weights floats|->`
`lsqcert n m (sigma|- y row…)… x_1 … x_n (rationals)`   normal-equation certificate at `Rat`
`affine m (sigma|- x y)…`                                closed form at `Rat` -/
def handleC14 : Handler := fun _ toks =>
  match toks with
  | "proto" :: n :: rest => protoRun false n rest
  | "protostale" :: n :: rest => protoRun true n rest
  | "cbounds" :: k :: rest =>
    match takeOptPairs (nOfTok k) rest with
    | none => some "ERR parse"
    | some (ps, _) =>
      let (lo, hi) := convertBounds ninfF pinfF ps
      some ("OK " ++ floatsOut lo ++ " " ++ floatsOut hi)
  | "dispatch" :: rest =>
    match takeOptBounds rest with
    | none => some "ERR parse"
    | some (bounds, r1) =>
      match takeOptNats r1 with
      | none => some "ERR parse"
      | some (cs, r2) =>
        match takeFloats r2 with
        | none => some "ERR parse"
        | some (p0, r3) =>
          match takeOptFloats r3 with
          | none => some "ERR parse"
          | some (w, _) =>
            match dispatch ninfF pinfF { bounds := bounds, constraints := cs } p0 w with
            | .ok call => some (callOut call)
            | .error .notImplemented => some "ERR notImplemented"
  | "lsqcert" :: n :: m :: rest =>
    let n := nOfTok n
    let m := nOfTok m
    match takeObs n m rest with
    | none => some "ERR parse"
    | some obs =>
      let xt := (rest.drop (m * (n + 2))).take n
      if xt.length < n then some "ERR parse" else
      match xt.mapM ratOfTok with
      | none => some "ERR parse"
      | some xs =>
        let x : Nat → Rat := fun j => match xs[j]? with | some v => v | none => 0
        some ("OK " ++ tokOfB (isNormalSolution n obs x) ++ " " ++ ratTok (sse n obs x))
  | "affine" :: m :: rest =>
    match takeWPts (nOfTok m) rest with
    | none => some "ERR parse"
    | some pts =>
      match affineLsq pts with
      | none => some "ERR degenerate"
      | some (a, b) =>
        some ("OK " ++ ratTok a ++ " " ++ ratTok b ++ " " ++ ratTok (sse 2 (affineObs pts) (pair a b)))
  | _ => none

end VirVerif.Drv
