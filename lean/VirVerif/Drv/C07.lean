import VirVerif.Drv.Hier
namespace VirVerif.Drv
open VirVerif

/-- `sample <model> <n> u…` (dimension-major: the `n` uniforms of dimension 0, then of
dimension 1, …, as the stream is consumed) → rows of the joint sample -/
def handleC07 : Handler := fun st toks =>
  match toks with
  | "sample" :: rest =>
    match parseModel rest with
    | some (m, n :: rest') =>
      let n := n.toNat!
      let d := m.size
      if rest'.length < n * d then some "ERR parse" else
      let us := (rest'.take (n * d)).map fOfTok |>.toArray
      let byRow := (List.range n).map fun j => (List.range d).map fun i => us[i * n + j]!
      match sampleRows (condOf m) (qOf st m) byRow with
      | some rows => some (rowsOut rows)
      | none => some "ERR uninit"
    | _ => some "ERR parse"
  | _ => none

end VirVerif.Drv
