import VirVerif.Drv.Hier
import VirVerif.Model.Sampling
namespace VirVerif.Drv
open VirVerif

/-- `sample <model> <n> u…` (dimension-major: the `n` uniforms of dimension 0, then of
dimension 1, …, as the stream is consumed) → rows of the joint sample -/
def handleC07 : Handler := fun st toks =>
  match toks with
  | "sample" :: rest =>
    match parseModel rest with
    | some (m, n :: rest') =>
      let n := n.toNat!
      let d := m.size
      if rest'.length < n * d then some "ERR parse" else
      let us := (rest'.take (n * d)).map fOfTok |>.toArray
      let byRow := (streamToRows n d us).map fun r => r.map (·.getD nan)
      match sampleRows (condOf m) (qOf st m) byRow with
      | some rows => some (rowsOut rows)
      | none => some "ERR uninit"
    | _ => some "ERR parse"
  | "rvssize" :: n :: rest =>
    -- rvssize <n> (s | v<len>)*  → flat n | matrix n len
    let pars := rest.map fun t => if t == "s" then ParShape.scalar else ParShape.vector (t.drop 1).toNat!
    match rvsSize n.toNat! pars with
    | .flat k => some s!"OK flat {k}"
    | .matrix k l => some s!"OK matrix {k} {l}"
  | "conddraws" :: n :: rest =>
    let pars := rest.map fun t => if t == "s" then ParShape.scalar else ParShape.vector (t.drop 1).toNat!
    some s!"OK {condDrawCount n.toNat! pars}"
  | _ => none

end VirVerif.Drv
