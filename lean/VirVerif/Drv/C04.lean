import VirVerif.Model.AndOr
import VirVerif.Drv.Proto
import VirVerif.Drv.C03
namespace VirVerif.Drv
open VirVerif

def errStrC04 : AndOrErr → String
  | .unboundVector => "unboundVector"
  | .emptyKept => "emptyKept"
  | .emptySample => "emptySample"

def rayOut (r : RayResult Float) : String :=
  tokOfF r.x ++ " " ++ tokOfF r.y ++ " " ++ tokOfF r.pe ++ " " ++ toString r.iters ++ " " ++ tokOfB r.warned

def contourOut (res : Except AndOrErr (List (Float × Float) × List (RayResult Float))) : String :=
  match res with
  | .error e => "ERR " ++ errStrC04 e
  | .ok (coords, rays) =>
    "OK " ++ " ".intercalate (toString rays.length :: rays.map rayOut) ++ " " ++
      " ".intercalate (toString coords.length :: coords.map fun p => tokOfF p.1 ++ " " ++ tokOfF p.2)

/-- `and|or <pi> <alpha> <err> <maxDist> <thetaStart> <thetaStop> <thetaStep> n x… n y…`
with tables `cos`, `sin` on `theta/180*pi` →
`OK nRays (x y pe iters warned)… nCoords (x y)…`. -/
def handleC04 : Handler := fun st toks =>
  match toks with
  | kind :: pi :: alpha :: err :: maxDist :: t0 :: t1 :: dt :: rest =>
    if kind ≠ "c04and" ∧ kind ≠ "c04or" then none else
    match takeFloats rest with
    | some (xs, rest') =>
      match takeFloats rest' with
      | some (ys, _) =>
        if xs.length ≠ ys.length then some "ERR parse" else
        let thetas := arange (fOfTok t0) (fOfTok t1) (fOfTok dt)
        let args := thetas.map (thetaArgF (fOfTok pi))
        if !(tableHas st "cos" args && tableHas st "sin" args) then some "ERR missingTable" else
        let dirs := args.map fun a => (tableFn st "cos" a, tableFn st "sin" a)
        let sample := xs.zip ys
        if kind = "c04and" then
          some (contourOut (andContour searchConstF Float.ofNat sample (fOfTok alpha) (fOfTok err)
            (fOfTok maxDist) dirs))
        else
          some (contourOut (orContourF sample (fOfTok alpha) (fOfTok err) (fOfTok maxDist) dirs))
      | none => some "ERR parse"
    | none => some "ERR parse"
  | _ => none

end VirVerif.Drv
