/-
Shared driver support for the hierarchical-model properties (C01, C02, C06, C07, C08):
parsing a model description and building the leaf functions `Q`, `F`, `f` either from the
exact-arithmetic doubles or from oracle TABLE lines.
-/
import VirVerif.Model.Hier
import VirVerif.Model.Doubles
import VirVerif.Model.Cond
import VirVerif.Drv.Proto
namespace VirVerif.Drv
open VirVerif

inductive Fam where
  | rat (spec : RatSpec Float)
  | table

structure DimSpec where
  cond : Option Nat
  fam : Fam

abbrev ModelSpec := Array DimSpec

partial def parseDep : List String → Option (DepFn Float × List String)
  | "c" :: a :: rest => some (.const (fOfTok a), rest)
  | "a" :: a :: b :: rest => some (.affine (fOfTok a) (fOfTok b), rest)
  | "y" :: a :: b :: c :: rest => some (.asym (fOfTok a) (fOfTok b) (fOfTok c), rest)
  | "h" :: a :: b :: rest =>
    match parseDep rest with
    | some (d, rest') => some (.chained (fOfTok a) (fOfTok b) d, rest')
    | none => none
  | "r" :: a :: rest =>
    match parseDep rest with
    | some (n, rest') =>
      match parseDep rest' with
      | some (d, rest'') => some (.ratio (fOfTok a) n d, rest'')
      | none => none
    | none => none
  | _ => none

def parseDims : Nat → List String → Array DimSpec → Option (ModelSpec × List String)
  | 0, rest, acc => some (acc, rest)
  | n + 1, c :: "rat" :: rest, acc =>
    match parseDep rest with
    | some (s, rest1) =>
      match parseDep rest1 with
      | some (l, rest2) =>
        parseDims n rest2 (acc.push { cond := if c == "-" then none else some c.toNat!, fam := .rat ⟨s, l⟩ })
      | none => none
    | none => none
  | n + 1, c :: "table" :: rest, acc =>
    parseDims n rest (acc.push { cond := if c == "-" then none else some c.toNat!, fam := .table })
  | _, _, _ => none

/-- `<n> (<cond|-> rat <s-dep> <l-dep> | <cond|-> table)*` -/
def parseModel : List String → Option (ModelSpec × List String)
  | n :: rest => parseDims n.toNat! rest #[]
  | [] => none

def nan : Float := 0.0 / 0.0

def gKey : Option Float → String
  | none => "-"
  | some g => tokOfF g

/-- leaf lookup `TABLE <kind> <dim> <arg bits> <given bits|-> <value>`; NaN when missing -/
def leafLookup (st : St) (kind : String) (i : Nat) (g : Option Float) (a : Float) : Float :=
  (st.tables.get? s!"{kind} {i} {tokOfF a} {gKey g}").getD nan

def condOf (m : ModelSpec) : Nat → Option Nat := fun i => (m[i]?).bind (·.cond)

/-- a method `m s l x` of a rational-double dimension. Conditioned (`g = some _`): the proved model
`ratCond` (= `condEval` of `Model/Cond.lean`; `VirVerif.C08.ratCond_eq_template_at_dependence_values`
shows it is never `none` and equals `m (paramAt s g) (paramAt l g) x`). Unconditional: a plain
distribution with constant parameters. -/
def ratAt (m : Float → Float → Float → Float) (spec : RatSpec Float) (g : Option Float) (x : Float) : Float :=
  match g with
  | some g => (ratCond m spec x g).getD nan
  | none => m (paramAt spec.s none) (paramAt spec.l none) x

def qOf (st : St) (m : ModelSpec) : Nat → Option Float → Float → Float := fun i g p =>
  match m[i]? with
  | some { fam := .rat spec, .. } => ratAt ratIcdf spec g p
  | some { fam := .table, .. } => leafLookup st "Q" i g p
  | none => nan

def cdfOf (st : St) (m : ModelSpec) : Nat → Option Float → Float → Float := fun i g x =>
  match m[i]? with
  | some { fam := .rat spec, .. } => ratAt ratCdf spec g x
  | some { fam := .table, .. } => leafLookup st "F" i g x
  | none => nan

def pdfOf (st : St) (m : ModelSpec) : Nat → Option Float → Float → Float := fun i g x =>
  match m[i]? with
  | some { fam := .rat spec, .. } => ratAt ratPdf spec g x
  | some { fam := .table, .. } => leafLookup st "f" i g x
  | none => nan

def tab1 (st : St) (name : String) (x : Float) : Float :=
  (st.tables.get? s!"{name} {tokOfF x}").getD nan

/-- read `k` rows of `n` floats -/
def takeRows (k n : Nat) (toks : List String) : Option (List (List Float) × List String) :=
  if toks.length < k * n then none else
  some ((List.range k).map (fun r => ((toks.drop (r * n)).take n).map fOfTok), toks.drop (k * n))

def rowsOut (rows : List (List Float)) : String :=
  if rows.any (fun r => r.any Float.isNaN) then "ERR missingTable-or-nan"
  else "OK " ++ " ".intercalate (toString rows.length :: rows.map fun r => " ".intercalate (r.map tokOfF))

end VirVerif.Drv
