/-
Driver ops for C11: the model of scipy's fit-keyword grammar (`fitTarget`), so that the harness
can compare it with what the real `scipy.stats.<d>.fit` accepts and which slot it pins.

  RUN c11kw <kw> <shape names…>   → OK <slot> | OK -
-/
import VirVerif.Model.Families
import VirVerif.Drv.Proto
namespace VirVerif.Drv
open VirVerif

def handleC11 : Handler := fun _ toks =>
  match toks with
  | "c11kw" :: kw :: shapes =>
    match fitTarget shapes kw with
    | some j => some ("OK " ++ toString j)
    | none => some "OK -"
  | _ => none

end VirVerif.Drv
