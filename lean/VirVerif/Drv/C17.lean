import VirVerif.Model.Intersect
import VirVerif.Drv.Proto
namespace VirVerif.Drv
open VirVerif

/-- exact rational value of a finite double given by its bit pattern -/
def ratOfFloat (x : Float) : Rat :=
  let b := x.toBits.toNat
  let neg := b / 2 ^ 63 == 1
  let e := (b / 2 ^ 52) % 2048
  let m := b % 2 ^ 52
  let mag : Rat :=
    if e == 0 then mkRat (Int.ofNat m) (2 ^ 1074)
    else if e ≥ 1075 then ((Int.ofNat ((m + 2 ^ 52) * 2 ^ (e - 1075)) : Int) : Rat)
    else mkRat (Int.ofNat (m + 2 ^ 52)) (2 ^ (1075 - e))
  if neg then -mag else mag

def tokOfQ (q : Rat) : String :=
  if q.den == 1 then toString q.num else toString q.num ++ "/" ++ toString q.den

section out
variable {α : Type} [LE α] [LT α] [DecidableLE α] [DecidableLT α]
  [Add α] [Sub α] [Mul α] [Div α] [OfNat α 0] [OfNat α 1]

def solOut (tok : α → String) : Option (Sol α) → String
  | none => "0"
  | some r => "1 " ++ tok r.t1 ++ " " ++ tok r.t2 ++ " " ++ tok r.x ++ " " ++ tok r.y ++ " " ++
      tokOfB (inRange r)

def ptsOut (tok : α → String) (l : List (α × α)) : String :=
  " ".intercalate (toString l.length :: l.map fun p => tok p.1 ++ " " ++ tok p.2)

/-- `ncand {i j s [t1 t2 x y inr]}* npts {x y}*` -/
def interOut (tok : α → String) (P1 P2 : List (α × α)) : String :=
  let cs := candidates P1 P2
  " ".intercalate (toString cs.length :: cs.map fun (i, j, r) =>
    toString i ++ " " ++ toString j ++ " " ++ solOut tok r) ++ " " ++ ptsOut tok (intersect P1 P2)

/-- second stage of the design-condition model at carrier `α` on the doubles computed by the
first (Float) stage: `cover nres {x y}* nsteps {ncand {i j s …}* npts {x y}*}*`; `cover` is
`probeCovers` evaluated at carrier `α` on exactly the `closed`, `ylo`, `yhi` handed to `designCore`
(the hypothesis of the theorems `design_core_*_covered`) -/
def designOut (tok : α → String) (cast : Float → α) (s : DesignSetup Float) : String :=
  let closed := s.closed.map fun p => (cast p.1, cast p.2)
  let ylo := cast s.ylo
  let yhi := cast s.yhi
  let steps := s.steps.map cast
  tokOfB (probeCovers closed ylo yhi) ++ " " ++ ptsOut tok (designCore closed ylo yhi steps) ++ " " ++
  " ".intercalate (toString steps.length :: steps.map fun x2 =>
    interOut tok closed [(x2, ylo), (x2, yhi)])

end out

def zipXY (xs ys : List Float) : List (Float × Float) := xs.zip ys

/-- ops
`c17_inter  <F|Q> fl(x1) fl(y1) fl(x2) fl(y2)`
`c17_design <F|Q> <tenth> <small> <swap> <D | N n | L fl(steps)> fl(c0) fl(c1)`  (columns 0 and 1 of
`contour.coordinates`); answer `OK nsteps steps… ylo yhi <designOut>` (`designOut` starts with the `cover` flag); `ERR empty` for no points
`c17_linspace <a> <b> <num>` -/
def handleC17 : Handler := fun _ toks =>
  match toks with
  | "c17_inter" :: car :: rest =>
    (do
      let (x1, r1) ← takeFloats rest
      let (y1, r2) ← takeFloats r1
      let (x2, r3) ← takeFloats r2
      let (y2, _) ← takeFloats r3
      let P1 := zipXY x1 y1
      let P2 := zipXY x2 y2
      if car == "Q" then
        let c := fun (p : Float × Float) => (ratOfFloat p.1, ratOfFloat p.2)
        pure ("OK " ++ interOut tokOfQ (P1.map c) (P2.map c))
      else pure ("OK " ++ interOut tokOfF P1 P2)) <|> some "ERR parse"
  | "c17_design" :: car :: tenth :: small :: swap :: rest =>
    (do
      let (spec, r0) ← (match rest with
        | "D" :: r => some (StepSpec.default, r)
        | "N" :: n :: r => some (StepSpec.count (nOfTok n), r)
        | "L" :: r => (takeFloats r).map fun (l, r') => (StepSpec.list l, r')
        | _ => none)
      let (c0, r1) ← takeFloats r0
      let (c1, _) ← takeFloats r1
      match designSetup (fOfTok tenth) (fOfTok small) Float.ofNat (zipXY c0 c1) spec (bOfTok swap) with
      | none => pure "ERR empty"
      | some s =>
        let head := "OK " ++ floatsOut s.steps ++ " " ++ tokOfF s.ylo ++ " " ++ tokOfF s.yhi ++ " "
        if car == "Q" then pure (head ++ designOut tokOfQ ratOfFloat s)
        else pure (head ++ designOut tokOfF id s)) <|> some "ERR parse"
  | "c17_linspace" :: a :: b :: n :: _ =>
    some ("OK " ++ floatsOut (linspaceEnd Float.ofNat (fOfTok a) (fOfTok b) (nOfTok n)))
  | _ => none

end VirVerif.Drv
