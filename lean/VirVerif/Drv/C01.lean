import VirVerif.Drv.Hier
namespace VirVerif.Drv
open VirVerif

/-- `iform2 <model> <oneMinusAlpha> <twoPi> <nPoints>`: 2-D IFORM/ISORM; `beta` comes from the table
`beta <1-alpha bits>` (the harness fills it with `norm.ppf(1-alpha)` for IFORM and with
`sqrt(chi2.ppf(1-alpha, n))` for ISORM under the name `betaS`).
`iformN <kind> <model> <oneMinusAlpha> <k> <rows of unit sphere points>`: n-D. -/
def handleC01 : Handler := fun st toks =>
  match toks with
  | "iform2" :: kind :: rest =>
    match parseModel rest with
    | some (m, oma :: twoPi :: n :: _) =>
      let β := tab1 st (if kind == "isorm" then "betaS" else "beta") (fOfTok oma)
      let angles := circleAngles (fOfTok twoPi) n.toNat!
      let unit := circleRows (tab1 st "cos") (tab1 st "sin") angles
      let sphere := scaleRows β unit
      match chainRows (condOf m) (qOf st m) (tab1 st "Phi") sphere with
      | some rows => some (rowsOut ([β] :: sphere ++ rows))
      | none => some "ERR uninit"
    | _ => some "ERR parse"
  | "iformN" :: kind :: rest =>
    match parseModel rest with
    | some (m, oma :: k :: rest') =>
      match takeRows k.toNat! m.size rest' with
      | some (unit, _) =>
        let β := tab1 st (if kind == "isorm" then "betaS" else "beta") (fOfTok oma)
        let sphere := scaleRows β unit
        match chainRows (condOf m) (qOf st m) (tab1 st "Phi") sphere with
        | some rows => some (rowsOut ([β] :: sphere ++ rows))
        | none => some "ERR uninit"
      | none => some "ERR parse"
    | _ => some "ERR parse"
  | _ => none

end VirVerif.Drv
