import VirVerif.Drv.Hier
import VirVerif.Model.Cond
import VirVerif.Model.Sampling
namespace VirVerif.Drv
open VirVerif

/-- (name, default | "-") token pairs of a callable's signature after `x` -/
def sigPairs : List String → List (String × Option Float)
  | n :: d :: tl => (n, if d == "-" then none else some (fOfTok d)) :: sigPairs tl
  | _ => []

/-- `cond <model> <dim> <cdf|icdf|pdf> <k> (x g)…` → conditional distribution of dimension `dim`
evaluated at `k` pairs (x_j, g_j) one at a time -/
def handleC08 : Handler := fun st toks =>
  match toks with
  | "cond" :: rest =>
    match parseModel rest with
    | some (m, dim :: meth :: k :: rest') =>
      let i := dim.toNat!
      let k := k.toNat!
      if rest'.length < 2 * k then some "ERR parse" else
      let xs := (List.range k).map fun j => fOfTok (rest'.getD (2*j) "0")
      let gs := (List.range k).map fun j => fOfTok (rest'.getD (2*j+1) "0")
      let vals := match m[i]? with
        | some { fam := .rat spec, .. } =>
          -- the proved model: `condEvalVec` of Model/Cond.lean (theorems `ratCondVec_*` of C08)
          let mth := match meth with
            | "cdf" => ratCdf
            | "icdf" => ratIcdf
            | _ => ratPdf
          (ratCondVec mth spec xs gs).map (·.getD nan)
        | _ =>
          let f := match meth with
            | "cdf" => cdfOf st m
            | "icdf" => qOf st m
            | _ => pdfOf st m
          List.zipWith (fun x g => f i (some g) x) xs gs
      if vals.any Float.isNaN then some "ERR nan-or-missingTable" else some ("OK " ++ floatsOut vals)
    | _ => some "ERR parse"
  | "bind" :: n :: rest =>
    -- bind <n> names… <k> bound…  → OK (name pos<k>|dep)* | ERR multipleValues
    let n := n.toNat!
    let names := rest.take n
    let bound := (rest.drop (n + 1))
    match bindCall names bound with
    | .ok r => some ("OK " ++ " ".intercalate (r.map fun (nm, src) => match src with
        | .positional k => s!"{nm}=pos{k}"
        | .boundDep => s!"{nm}=dep"))
    | .error e => some ("ERR " ++ e)
  | "defaults" :: rest =>
    -- defaults (name (bits | -))*  → OK (name bits)*   signature defaults, implicit 1
    let r := defaultParams (sigPairs rest)
    some ("OK" ++ String.join (r.map fun (n, v) => s!" {n} {tokOfF v}"))
  | ["callmode", nFree, nArgs, nKw] =>
    match callMode nFree.toNat! nArgs.toNat! nKw.toNat! with
    | .stored => some "OK stored"
    | .explicit => some "OK explicit"
    | .error => some "OK error"
  | "condshape" :: n :: given :: rest =>
    -- condshape <n> (- | <k>) (s | v<len>)*  → size handed to the template's sampler by
    -- ConditionalDistribution.draw_sample(n, given): flat n | matrix n len
    let raw := rest.map fun t => if t == "s" then ParShape.scalar else ParShape.vector (t.drop 1).toNat!
    let g := if given == "-" then none else some given.toNat!
    match rvsSize n.toNat! (condParShapes g raw) with
    | .flat k => some s!"OK flat {k}"
    | .matrix k l => some s!"OK matrix {k} {l}"
  | _ => none

end VirVerif.Drv
