import VirVerif.Drv.Hier
namespace VirVerif.Drv
open VirVerif

/-- `cond <model> <dim> <cdf|icdf|pdf> <k> (x g)…` → conditional distribution of dimension `dim`
evaluated at `k` pairs (x_j, g_j) one at a time -/
def handleC08 : Handler := fun st toks =>
  match toks with
  | "cond" :: rest =>
    match parseModel rest with
    | some (m, dim :: meth :: k :: rest') =>
      let i := dim.toNat!
      let k := k.toNat!
      if rest'.length < 2 * k then some "ERR parse" else
      let f := match meth with
        | "cdf" => cdfOf st m
        | "icdf" => qOf st m
        | _ => pdfOf st m
      let vals := (List.range k).map fun j =>
        f i (some (fOfTok (rest'.getD (2*j+1) "0"))) (fOfTok (rest'.getD (2*j) "0"))
      if vals.any Float.isNaN then some "ERR nan-or-missingTable" else some ("OK " ++ floatsOut vals)
    | _ => some "ERR parse"
  | _ => none

end VirVerif.Drv
