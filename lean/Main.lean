import VirVerif.Drv.All
open VirVerif.Drv

def dispatch (st : St) (toks : List String) : String :=
  match allHandlers.findSome? (fun h => h st toks) with
  | some r => r
  | none => "ERR unknown-op"

/-- FMA self-test: with a fused multiply-add `a*b+c` would be non-zero here. -/
def selfTest : String :=
  let a : Float := 1.0 + Float.ofScientific 1 true 8   -- 1 + 1e-8
  let p := a * a
  let r := a * a - p
  "SELFTEST " ++ tokOfF r ++ " " ++ tokOfF (Float.ofScientific 1 true 1 + Float.ofScientific 2 true 1)

partial def loop (h : IO.FS.Stream) (out : IO.FS.Stream) (st : St) : IO Unit := do
  let line ← h.getLine
  if line.isEmpty then return ()
  let toks := (line.trimAscii.toString.splitOn " ").filter (· ≠ "")
  match toks with
  | [] => loop h out st
  | "TABLE" :: name :: rest =>
    -- TABLE name k1 … kn v  (all tokens are kept as strings; value is the last)
    match rest.getLast? with
    | some v =>
      let key := name ++ " " ++ " ".intercalate rest.dropLast
      loop h out { st with tables := st.tables.insert key (fOfTok v) }
    | none => loop h out st
  | "CLEAR" :: _ => loop h out {}
  | "SELFTEST" :: _ => out.putStrLn selfTest; loop h out st
  | "RUN" :: rest => out.putStrLn (dispatch st rest); loop h out st
  | _ => out.putStrLn "ERR bad-line"; loop h out st

def main : IO Unit := do
  let out ← IO.getStdout
  loop (← IO.getStdin) out {}
  out.flush
