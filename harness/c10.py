"""
C10 - interval slicing partitions the data.

Correspondence: real slicers (virocon.intervals) vs Lean model (Model/Slicers.lean),
masks / references / boundaries compared exactly (bit patterns).
Oracle (on the implementation's own output): every observation inside the covered range
is in exactly one pre-drop interval, masks aligned, boundaries chained and containing
their members, references as configured, drop rule, min_n_intervals error.

The range an observation MUST be covered in (`required_cover`) and the effective thresholds
(`effective_minimums`: the constructor caps) are computed from the configuration and the data
only, never from what the implementation reports or stores.
"""
import itertools
import multiprocessing
import warnings

import numpy as np

import core
from core import f2b, fl, il

REFS = ["center", "right", "left", "callable"]


class RecordingRef:
    """callable reference that records what it is handed"""

    def __init__(self):
        self.calls = []

    def __call__(self, arr):
        self.calls.append(np.array(arr, dtype=float))
        return float(np.median(arr)) if len(arr) else float("nan")


def _mk_ref(kind):
    return RecordingRef() if kind == "callable" else kind


def _err_name(e):
    if isinstance(e, RuntimeError) and "too few intervals" in str(e):
        return "tooFewIntervals"
    return type(e).__name__


DEFAULTS = {"min_pts": 50, "min_iv": 3, "right_open": True, "include_max": True, "last_full": True,
            "value_range": None}  # documented defaults (docstrings of virocon/intervals.py)


def np_data(case):
    """the array handed to the slicer (dtype as the case says)"""
    if case.get("as_int"):
        return np.array(case["data"], dtype=float).astype(np.int64)  # integer-valued observations
    if case.get("dtype") == "float32":
        return np.array(case["data"], dtype=np.float32)
    return np.array(case["data"], dtype=float)


def run_impl(case, min_pts, min_iv, omit=False):
    """returns dict(K, masks, refs, bounds, callable_calls) or dict(err=...).
    omit=True: construct the slicer with ONLY its mandatory argument (all defaults omitted)."""
    from virocon.intervals import (
        WidthOfIntervalSlicer,
        NumberOfIntervalsSlicer,
        PointsPerIntervalSlicer,
    )

    data = np_data(case)
    arg = data.tolist() if case.get("as_list") else data
    kind = case["slicer"]
    ref = _mk_ref(case.get("ref", "callable"))
    if isinstance(ref, str) and case.get("ref_spelling"):
        ref = case["ref_spelling"]  # same keyword, other capitalisation
    try:
        if omit:
            ref = None
            if kind == "width":
                s = WidthOfIntervalSlicer(case["width"])
            elif kind == "number":
                s = NumberOfIntervalsSlicer(case["n_intervals"])
            else:
                s = PointsPerIntervalSlicer(case["n_points"])
        elif kind == "width":
            s = WidthOfIntervalSlicer(
                case["width"],
                reference=ref,
                right_open=case["right_open"],
                value_range=tuple(case["value_range"]) if case["value_range"] is not None else None,
                min_n_points=min_pts,
                min_n_intervals=min_iv,
            )
        elif kind == "number":
            s = NumberOfIntervalsSlicer(
                case["n_intervals"],
                reference=ref,
                include_max=case["include_max"],
                value_range=tuple(case["value_range"]) if case["value_range"] is not None else None,
                min_n_points=min_pts,
                min_n_intervals=min_iv,
            )
        else:
            ref = RecordingRef()
            s = PointsPerIntervalSlicer(
                case["n_points"],
                reference=ref,
                last_full=case["last_full"],
                min_n_points=min_pts,
                min_n_intervals=min_iv,
            )
        with warnings.catch_warnings():
            warnings.simplefilter("ignore")
            masks, refs, bounds = s.slice_(arg)
        out = {
            "K": len(masks),
            "masks": ["".join("1" if b else "0" for b in np.asarray(m, dtype=bool)) for m in masks],
            "masklen_ok": all(np.asarray(m).shape == data.shape for m in masks),
            "refs": [float(r) for r in refs],
            "bounds": [(float(a), float(b)) for a, b in bounds],
        }
        if not (len(out["refs"]) == len(out["bounds"]) == out["K"]):
            return {"err": "ragged", "msg": f"{out['K']} masks, {len(out['refs'])} references, "
                                            f"{len(out['bounds'])} boundaries"}
    except Exception as e:  # noqa: BLE001
        return {"err": _err_name(e), "msg": str(e)[:200]}
    if isinstance(ref, RecordingRef):
        out["calls"] = ref.calls
    return out


def model_line(case, min_pts, min_iv):
    data = case["data"]
    kind = case["slicer"]

    def opt(v):
        return "-" if v is None else str(f2b(v))

    if kind == "width":
        vr = case["value_range"] or (None, None)
        return (
            ["RUN", "width", str(f2b(case["width"])), "1" if case["right_open"] else "0",
             str(REFS.index(case["ref"])), opt(vr[0]), opt(vr[1]), str(min_pts), str(min_iv)]
            + fl(data)
        )
    if kind == "number":
        vr = case["value_range"] or (None, None)
        return (
            ["RUN", "number", str(case["n_intervals"]), "1" if case["include_max"] else "0",
             str(REFS.index(case["ref"])), opt(vr[0]), opt(vr[1]), str(min_pts), str(min_iv)]
            + fl(data)
        )
    perm = np.argsort(np.array(data, dtype=float))
    return (
        ["RUN", "ppi", str(case["n_points"]), "1" if case["last_full"] else "0", str(min_pts), str(min_iv)]
        + il(perm) + fl(data)
    )


def parse_model(ans, n=1):
    """n = number of observations: with n == 0 every mask prints as an empty token"""
    t = ans.split()
    if t[0] == "ERR":
        return {"err": t[1]}
    K = int(t[1])
    masks, refs, bounds = [], [], []
    p = 2
    for _ in range(K):
        if n == 0:
            masks.append("")
        else:
            masks.append(t[p])
            p += 1
        refs.append(None if t[p] == "-" else int(t[p]))
        bounds.append((int(t[p + 1]), int(t[p + 2])))
        p += 3
    return {"K": K, "masks": masks, "refs": refs, "bounds": bounds}


def compare(impl, model, case):
    """exact comparison; returns None or a description of the first difference"""
    if "err" in impl or "err" in model:
        ie, me = impl.get("err"), model.get("err")
        if ie == me:
            return None
        # PPI: np.split with 0 sections raises ValueError, zero n_points ZeroDivisionError
        if me == "splitZero" and ie in ("ValueError", "ZeroDivisionError"):
            return None
        if me == "emptyData" and ie in ("ValueError", "IndexError"):
            return None
        return f"error mismatch impl={ie} ({impl.get('msg')}) model={me}"
    if impl["K"] != model["K"]:
        return f"number of intervals impl={impl['K']} model={model['K']}"
    for k in range(impl["K"]):
        if impl["masks"][k] != model["masks"][k]:
            return f"mask {k} impl={impl['masks'][k][:60]} model={model['masks'][k][:60]}"
        ib = (f2b(impl["bounds"][k][0]), f2b(impl["bounds"][k][1]))
        if ib != tuple(model["bounds"][k]):
            return f"boundaries {k} impl={impl['bounds'][k]} model-bits={model['bounds'][k]}"
        if model["refs"][k] is not None and f2b(impl["refs"][k]) != model["refs"][k]:
            return f"reference {k} impl={impl['refs'][k]!r} model-bits={model['refs'][k]}"
    if "calls" in impl and case.get("ref", "callable") == "callable":
        data = np_data(case).astype(float)
        if len(impl["calls"]) != impl["K"]:
            return "callable reference not called once per interval"
        for k in range(impl["K"]):
            m = np.array([c == "1" for c in model["masks"][k]], dtype=bool)
            if not np.array_equal(impl["calls"][k], data[m]):
                return f"callable reference {k} did not receive data[mask]"
    return None


def effective_minimums(case, min_pts, min_iv):
    """thresholds the slicer has to apply, computed from the configuration ALONE (not from the slicer's
    attributes): NumberOfIntervalsSlicer lowers min_n_intervals to n_intervals, PointsPerIntervalSlicer
    lowers min_n_points to n_points (constructor rules, Properties/C10.lean number_error_iff_capped /
    ppi_kept_iff_capped); WidthOfIntervalSlicer applies both minimums as given."""
    if case["slicer"] == "number":
        min_iv = min(min_iv, case["n_intervals"])
    if case["slicer"] == "ppi":
        min_pts = min(min_pts, case["n_points"])
    return min_pts, min_iv


def required_cover(case, data):
    """observations that MUST be in exactly one pre-drop interval, from configuration and data alone
    (never from the boundaries the implementation reports).
      Width : value range [lower, upper], lower = value_range[0] or 0, upper = value_range[1] or max(data);
              right_open=True -> every x with lower <= x <= upper (the upper end lies strictly inside the last
              interval, the starts run to upper + width); right_open=False -> lower < x <= upper.
      Number: [lower, upper] = value_range or (min(data), max(data)); lower <= x <= upper with include_max,
              lower <= x < upper without.
      PointsPerInterval: every observation."""
    n = len(data)
    if n == 0:
        return np.zeros(0, dtype=bool)
    kind = case["slicer"]
    if kind == "ppi":
        return np.ones(n, dtype=bool)
    vr = case["value_range"] or (None, None)
    with np.errstate(invalid="ignore"):
        if kind == "width":
            lo = 0.0 if vr[0] is None else vr[0]
            hi = float(np.max(data)) if vr[1] is None else vr[1]
            lo_ok = (data >= lo) if case["right_open"] else (data > lo)
            return lo_ok & (data <= hi)
        lo = float(np.min(data)) if vr[0] is None else vr[0]
        hi = float(np.max(data)) if vr[1] is None else vr[1]
        return (data >= lo) & ((data <= hi) if case["include_max"] else (data < hi))


def boundary_checks(kind, data, M, b, tag="", gaps=True):
    """reported boundaries: ordered, not overlapping (Width/Number pre-drop: sharing their edge), containing
    their interval's members"""
    bad = []
    K = len(b)
    for k in range(K):
        if not (b[k][0] <= b[k][1]):
            bad.append((tag + "boundaries_ordered", f"interval {k}: {b[k]}"))
    for k in range(K - 1):
        if b[k][1] > b[k + 1][0]:
            bad.append((tag + "boundaries_overlap", f"intervals {k},{k+1}: {b[k][1]!r} > {b[k+1][0]!r}"))
        elif b[k][1] < b[k + 1][0] and kind != "ppi" and gaps:
            bad.append((tag + "boundaries_gap", f"intervals {k},{k+1}: {b[k][1]!r} < {b[k+1][0]!r}"))
    for k in range(K):
        xs = data[M[k]]
        if len(xs) and (xs.min() < b[k][0] or xs.max() > b[k][1]):
            bad.append((tag + "boundaries_contain_members",
                        f"interval {k}: {b[k]} members {xs.min()!r}..{xs.max()!r}"))
    return bad


def reference_checks(case, native, M, b, refs, tag=""):
    """references are the configured centre / left / right of the reported boundaries, or the callable of the
    interval's members"""
    ref = case.get("ref", "callable")
    K = len(b)
    if ref != "callable":
        rel = 2e-6 if case.get("dtype") == "float32" else 1e-9
        for k in range(K):
            lo, hi = b[k]
            want = {"center": (lo + hi) / 2, "left": lo, "right": hi}[ref]
            tol = rel * max(1.0, abs(lo), abs(hi))
            if not abs(refs[k] - want) <= tol:
                return [(tag + "reference_value", f"interval {k} ref {refs[k]!r} expected {want!r} ({ref})")]
    else:
        for k in range(K):
            xs = native[M[k]]
            with warnings.catch_warnings():
                warnings.simplefilter("ignore")
                want = float(np.median(xs)) if len(xs) else float("nan")
            got = refs[k]
            if not (got == want or (np.isnan(got) and np.isnan(want))):
                return [(tag + "reference_value", f"interval {k} callable ref {got!r} expected {want!r}")]
    return []


def mask_matrix(impl, n):
    return np.array([[c == "1" for c in m] for m in impl["masks"]], dtype=bool).reshape(impl["K"], n)


def error_is_legitimate(case, data):
    """inputs for which an exception other than 'too few intervals' is an accepted outcome: no data, NaN
    observations, fewer observations than n_points"""
    if len(data) == 0 or np.isnan(data).any():
        return True
    return case["slicer"] == "ppi" and len(data) < case["n_points"]


def oracle_predrop(case, impl):
    """property predicates on the implementation's pre-drop output; returns list of (predicate, detail)"""
    bad = []
    native = np_data(case)
    data = native.astype(float)
    if "err" in impl:
        if not error_is_legitimate(case, data):
            bad.append(("unexpected_error", impl["err"] + ": " + impl.get("msg", "")))
        return bad
    K = impl["K"]
    if not impl["masklen_ok"] or any(len(m) != len(data) for m in impl["masks"]):
        bad.append(("masks_aligned", "mask length differs from data length"))
        return bad
    M = mask_matrix(impl, len(data))
    counts = M.sum(axis=0)
    b = impl["bounds"]
    kind = case["slicer"]
    # the configured value range is covered: computed from configuration + data, not from reported boundaries
    req = required_cover(case, data)
    for j in np.nonzero(req & (counts != 1))[0][:3]:
        bad.append(("configured_range_covered_exactly_once",
                    f"value {data[j]!r} at position {j} lies in the configured range but is in "
                    f"{int(counts[j])} intervals"))
    if K == 0:
        return bad
    # boundaries: lo <= hi, chained, not overlapping, members inside
    bad += boundary_checks(kind, data, M, b)
    # exactly-one membership inside the range the reported boundaries span
    lo0, hiK = b[0][0], b[-1][1]
    if kind == "width":
        if case["right_open"]:
            covered = (data >= lo0) & (data < hiK)
        else:
            covered = (data > lo0) & (data <= hiK)
    elif kind == "number":
        covered = (data >= lo0) & ((data <= hiK) if case["include_max"] else (data < hiK))
    else:
        covered = np.ones(len(data), dtype=bool)
    for j in np.nonzero(covered & (counts != 1))[0][:3]:
        bad.append(("exactly_one_interval", f"value {data[j]!r} at position {j} is in {int(counts[j])} intervals"))
    for j in np.nonzero(~covered & (counts != 0))[0][:3]:
        bad.append(("outside_range_in_interval", f"value {data[j]!r} at position {j}"))
    if kind == "number" and case["include_max"] and case["value_range"] is None and len(data):
        j = int(np.argmax(data))
        if counts[j] != 1:
            bad.append(("max_included", f"max {data[j]!r} in {int(counts[j])} intervals"))
    # membership consistent with the values (alignment): equal values have equal membership
    order = np.argsort(data, kind="stable")
    if kind != "ppi":
        for a, c in zip(order[:-1], order[1:]):
            if data[a] == data[c] and not np.array_equal(M[:, a], M[:, c]):
                bad.append(("masks_aligned", f"equal values {data[a]!r} at {a},{c} differ in membership"))
                break
    else:
        # chunks: sizes and sortedness across chunks
        n, npts = len(data), case["n_points"]
        sizes = [int(x) for x in M.sum(axis=1)]
        rem = n % npts
        exp = [npts] * (n // npts)
        if rem:
            exp = ([rem] + exp) if case["last_full"] else (exp + [rem])
        if sizes != exp:
            bad.append(("ppi_chunk_sizes", f"sizes {sizes} expected {exp}"))
        for k in range(K - 1):
            a, c = data[M[k]], data[M[k + 1]]
            if len(a) and len(c) and a.max() > c.min():
                bad.append(("ppi_chunks_sorted", f"interval {k} max {a.max()!r} > interval {k+1} min {c.min()!r}"))
                break
    bad += reference_checks(case, native, M, b, impl["refs"])
    return bad


def oracle_drop(case, pre, post, min_pts, min_iv):
    """drop rule and min_n_intervals error; what is returned after the drop (masks, boundaries, references) is
    exactly what belongs to the surviving intervals"""
    bad = []
    if "err" in pre:
        return bad
    min_pts, min_iv = effective_minimums(case, min_pts, min_iv)
    native = np_data(case)
    data = native.astype(float)
    counts = [m.count("1") for m in pre["masks"]]
    keep = [k for k in range(pre["K"]) if counts[k] >= min_pts]
    if "err" in post:
        if post["err"] == "tooFewIntervals":
            if len(keep) >= min_iv:
                bad.append(("too_few_error", f"raised although {len(keep)} >= {min_iv} intervals remain"))
        else:
            bad.append(("unexpected_error", post["err"] + ": " + post.get("msg", "")))
        return bad
    if len(keep) < min_iv:
        bad.append(("too_few_error", f"{len(keep)} intervals < min_n_intervals {min_iv} but no error"))
    if post["masks"] != [pre["masks"][k] for k in keep]:
        what = "returned masks are not those of the surviving pre-drop intervals" if post["K"] == len(keep) \
            else f"kept {post['K']} intervals, expected {len(keep)}"
        bad.append(("drop_exactly_small", f"{what} (pre-drop counts {counts}, min {min_pts})"))
        return bad
    if any(len(m) != len(data) for m in post["masks"]):
        return bad
    Mpost = mask_matrix(post, len(data))
    if case["slicer"] == "ppi":
        # boundaries are recomputed from the survivors: they must contain the survivors' members and not overlap
        bad += boundary_checks("ppi", data, Mpost, post["bounds"], tag="post_drop_")
    else:
        if post["bounds"] != [pre["bounds"][k] for k in keep]:
            bad.append(("post_drop_boundaries", f"boundaries after the drop {post['bounds'][:4]} are not those of "
                                                f"the surviving intervals {[pre['bounds'][k] for k in keep][:4]}"))
        if case.get("ref", "callable") != "callable" and post["refs"] != [pre["refs"][k] for k in keep]:
            bad.append(("post_drop_references", f"references after the drop {post['refs'][:4]} are not those of "
                                                f"the surviving intervals {[pre['refs'][k] for k in keep][:4]}"))
    bad += reference_checks(case, native, Mpost, post["bounds"], post["refs"], tag="post_drop_")
    return bad


# ---------------------------------------------------------------------------
# generators


def lattice_cases(max_len, widths, ck):
    for w in widths:
        vals = [i * w / 2 for i in range(13)]
        for L in range(1, max_len + 1):
            for combo in itertools.product(vals, repeat=L):
                if max(combo) == 0:
                    continue
                for ro in (True, False):
                    yield {"slicer": "width", "width": w, "right_open": ro, "ref": "center",
                           "value_range": None, "data": list(combo), "min_pts": 1, "min_iv": 1, "gen": "lattice"}


def number_lattice_cases(max_len, full_len, widths, ns):
    """NumberOfIntervalsSlicer: all vectors of length <= max_len over {0, w/2, ..., (n + 1/2) w} (half a width
    beyond the upper end), value_range None / (0, n*w), include_max both; for length <= full_len crossed with
    all four reference kinds and two (min_n_points, min_n_intervals) settings, above that reference 'center', 1/1"""
    for w in widths:
        for n in ns:
            vals = [i * w / 2 for i in range(2 * n + 2)]
            for vr in (None, (0.0, n * w)):
                for im in (True, False):
                    for L in range(1, max_len + 1):
                        if L <= full_len:
                            opts = [(r, mp, mi) for r in REFS for (mp, mi) in ((1, 1), (2, 3))]
                        else:
                            opts = [("center", 1, 1)]
                        for combo in itertools.product(vals, repeat=L):
                            for r, mp, mi in opts:
                                yield {"slicer": "number", "n_intervals": n, "include_max": im, "ref": r,
                                       "value_range": vr, "data": list(combo), "min_pts": mp, "min_iv": mi,
                                       "gen": "lattice-number"}


def ppi_lattice_cases(max_len, widths):
    """PointsPerIntervalSlicer: all vectors (any order, ties) of length <= max_len over {0, w, 2w, 3w} x
    n_points 1..3 x last_full x three (min_n_points, min_n_intervals) settings"""
    for w in widths:
        vals = [i * w for i in range(4)]
        for L in range(1, max_len + 1):
            for combo in itertools.product(vals, repeat=L):
                for npts in (1, 2, 3):
                    if npts > L:
                        continue
                    for lf in (True, False):
                        for mp, mi in ((1, 1), (2, 1), (3, 2)):
                            yield {"slicer": "ppi", "n_points": npts, "last_full": lf, "data": list(combo),
                                   "min_pts": mp, "min_iv": mi, "gen": "lattice-ppi"}


def width_option_lattice_cases(max_len, widths):
    """WidthOfIntervalSlicer option lattice on short vectors: reference kinds x right_open x value_range shapes
    x (min_n_points, min_n_intervals)"""
    for w in widths:
        vals = [i * w / 2 for i in range(0, 9)]
        for L in range(1, max_len + 1):
            for combo in itertools.product(vals, repeat=L):
                if max(combo) == 0:
                    continue
                for ro in (True, False):
                    for vr in (None, (w, None), (None, 3 * w), (w / 2, 2 * w)):
                        for r in REFS:
                            for mp, mi in ((1, 1), (2, 3)):
                                yield {"slicer": "width", "width": w, "right_open": ro, "ref": r,
                                       "value_range": vr, "data": list(combo), "min_pts": mp, "min_iv": mi,
                                       "gen": "lattice-width-options"}


def random_data(rng, n):
    mode = rng.integers(0, 5)
    scale = float(10 ** rng.uniform(-1, 1.5))
    if mode == 0:
        x = rng.weibull(1.5, n) * scale
    elif mode == 1:
        x = np.round(rng.weibull(1.3, n) * scale, 1)
    elif mode == 2:
        x = np.round(rng.uniform(0, scale, n), 2)
    elif mode == 3:
        x = rng.integers(0, 12, n).astype(float) * float(rng.choice([0.1, 0.25, 0.3, 0.5, 0.7, 1.0]))
    else:
        x = np.sort(rng.lognormal(0, 0.6, n) * scale)
    return [float(v) for v in x]


def random_cases(rng, n_cases):
    for _ in range(n_cases):
        n = int(rng.choice([1, 2, 3, 7, 20, 60, 200, 1000]))
        data = random_data(rng, n)
        kind = rng.choice(["width", "number", "ppi"])
        mp = int(rng.choice([0, 1, 2, 3, 5, 10, 50]))
        mi = int(rng.choice([0, 1, 2, 3, 5]))
        if kind == "width":
            w = float(rng.choice([0.1, 0.2, 0.3, 0.5, 0.7, 1.0, 1.5, 2.0, float(10 ** rng.uniform(-1, 0.7))]))
            mx = max(data)
            if mx / w > 400:
                w = mx / 50.0
            vr = None
            r = rng.integers(0, 4)
            if r == 1:
                vr = (float(rng.choice([0.0, 0.5, 1.0])), None)
            elif r == 2:
                vr = (None, float(mx * rng.uniform(0.5, 1.5)) + w)
            elif r == 3:
                vr = (float(rng.choice([0.0, 0.3, 1.0])), float(mx * rng.uniform(0.5, 1.5)) + 1.0)
            yield {"slicer": "width", "width": w, "right_open": bool(rng.integers(0, 2)),
                   "ref": str(rng.choice(REFS)), "value_range": vr, "data": data,
                   "min_pts": mp, "min_iv": mi, "gen": "random"}
        elif kind == "number":
            vr = None
            if rng.integers(0, 3) == 0:
                lo = float(rng.choice([0.0, 0.5, 4.0, min(data)]))
                vr = (lo, lo + float(rng.choice([1.0, 10.5, 3.3, max(data) + 0.1])))
            yield {"slicer": "number", "n_intervals": int(rng.choice([1, 2, 3, 4, 5, 7, 10, 13, 20])),
                   "include_max": bool(rng.integers(0, 2)), "ref": str(rng.choice(REFS)),
                   "value_range": vr, "data": data, "min_pts": mp, "min_iv": mi, "gen": "random"}
        else:
            npts = int(rng.choice([1, 2, 3, 5, 10, 50]))
            if rng.integers(0, 2):
                rng.shuffle(data)
            yield {"slicer": "ppi", "n_points": npts, "last_full": bool(rng.integers(0, 2)),
                   "data": data, "min_pts": mp, "min_iv": mi, "gen": "random"}


def int_dtype_cases(rng, n_cases):
    """integer-valued data passed as an integer-dtype array (counts, rounded measurements)"""
    for case in random_cases(rng, n_cases):
        c = dict(case)
        c["data"] = [float(int(round(v * 3))) for v in case["data"]]
        if max(c["data"]) <= 0:
            continue
        if c["slicer"] == "width":
            c["width"] = float(rng.choice([1.0, 2.0, 0.5, 1.5]))
            c["value_range"] = None
        if c["slicer"] == "number" and c.get("value_range") is not None:
            c["value_range"] = None
        c["as_int"] = True
        c["gen"] = "int-dtype"
        yield c


def special_cases(rng, n_cases):
    """input classes outside 'non-negative float64 ndarray with >= 1 element':
    negative observations / negative value ranges, no observations, NaN observations (only with an explicit
    value range: otherwise the range itself is NaN), Width value_range with lower > upper, other capitalisation
    of the reference keyword, Python lists (string references only: the code indexes data for callables)"""
    for case in random_cases(rng, n_cases):
        c = dict(case)
        kind = c["slicer"]
        mode = ["negative", "all-negative", "empty", "nan", "neg-range", "reversed-range", "spelling", "list"][
            int(rng.integers(0, 8))]
        data = np.array(c["data"], dtype=float)
        span = float(data.max() - data.min()) or 1.0
        if mode == "negative":
            shift = float(np.round(rng.uniform(0.2, 0.8) * span + data.min(), 1))
            c["data"] = [float(v) for v in data - shift]
            if kind != "ppi" and c["value_range"] is not None:
                c["value_range"] = None
        elif mode == "all-negative":
            c["data"] = [float(v) for v in data - float(data.max()) - float(rng.choice([0.0, 0.05, 1.0, 10.0]))]
            if kind != "ppi":
                c["value_range"] = None
        elif mode == "empty":
            c["data"] = []
            if kind == "width" and rng.integers(0, 2):
                c["value_range"] = (0.0, 3.0 * c["width"])
            if kind == "number" and rng.integers(0, 2):
                c["value_range"] = (0.0, 3.0)
        elif mode == "nan":
            if kind == "ppi":
                continue
            lo = float(np.floor(data.min()))
            hi = float(np.ceil(data.max())) + 1.0
            if kind == "width" and (hi - lo) / c["width"] > 400:
                c["width"] = (hi - lo) / 50.0
            c["value_range"] = (lo, hi)
            d = list(c["data"])
            for _ in range(int(rng.integers(1, 4))):
                d.insert(int(rng.integers(0, len(d) + 1)), float("nan"))
            c["data"] = d
        elif mode == "neg-range":
            if kind == "ppi":
                continue
            shift = float(np.round(rng.uniform(0.2, 1.2) * span + data.min(), 1))
            nd = data - shift
            c["data"] = [float(v) for v in nd]
            lo = float(np.floor(nd.min())) - float(rng.choice([0.0, 0.5]))
            hi = float(rng.choice([lo + 1.0, -0.5, 0.0, float(nd.max())]))
            if hi <= lo:
                hi = lo + 1.0
            if kind == "width":
                if (max(hi, float(nd.max())) - lo) / c["width"] > 400:
                    c["width"] = (max(hi, float(nd.max())) - lo) / 50.0
                c["value_range"] = (lo, None) if rng.integers(0, 2) else (lo, hi)
            else:
                c["value_range"] = (lo, hi)
        elif mode == "reversed-range":
            if kind != "width":
                continue
            lo = float(rng.choice([1.0, 2.5, float(data.max())]))
            c["value_range"] = (lo, lo - float(rng.choice([0.25, 0.5, 1.0, 3.0])) * c["width"])
        elif mode == "spelling":
            if kind == "ppi" or c["ref"] == "callable":
                continue
            c["ref_spelling"] = [c["ref"].capitalize(), c["ref"].upper(),
                                 "".join(ch.upper() if i % 2 else ch for i, ch in enumerate(c["ref"]))][
                int(rng.integers(0, 3))]
        elif mode == "list":
            if kind == "ppi" or c["ref"] == "callable":
                continue
            c["as_list"] = True
        c["gen"] = "special:" + mode
        yield c


def float32_cases(rng, n_cases):
    """float32 observations (oracles only: numpy then computes edges in single precision, which the
    double-precision model does not describe)"""
    for case in random_cases(rng, n_cases):
        c = dict(case)
        if rng.integers(0, 2):
            # observations that sit exactly on edges also in single precision (binary fractions)
            w0 = float(rng.choice([0.25, 0.5, 1.0, 2.0]))
            c["data"] = [float(k) * w0 for k in rng.integers(0, 12, len(case["data"]))]
            if max(c["data"]) <= 0:
                continue
            if c["slicer"] == "width":
                c["width"] = w0 * float(rng.choice([1.0, 2.0]))
                c["value_range"] = None if rng.integers(0, 2) else (w0, None)
            elif c["slicer"] == "number":
                c["value_range"] = None if rng.integers(0, 2) else (0.0, max(c["data"]))
        c["data"] = [float(np.float32(v)) for v in c["data"]]
        c["dtype"] = "float32"
        c["gen"] = "float32"
        yield c


def default_cases(rng, n_cases):
    """the slicer is constructed with ONLY its mandatory argument; the case carries the documented defaults
    explicitly (DEFAULTS), so model and oracles judge the result against the documentation"""
    for _ in range(n_cases):
        n = int(rng.choice([3, 40, 150, 200, 400, 1000]))
        data = random_data(rng, n)
        kind = ["width", "number", "ppi"][int(rng.integers(0, 3))]
        base = {"data": data, "min_pts": DEFAULTS["min_pts"], "min_iv": DEFAULTS["min_iv"],
                "omit_defaults": True, "gen": "defaults-omitted"}
        mx = max(data)
        if kind == "width":
            if mx <= 0:
                continue
            base.update(slicer="width", width=float(mx / rng.choice([2, 3, 4, 6, 9])) * float(rng.choice([1.0, 1.01])),
                        right_open=DEFAULTS["right_open"], ref="center", value_range=None)
        elif kind == "number":
            base.update(slicer="number", n_intervals=int(rng.choice([1, 2, 3, 4, 6, 10])),
                        include_max=DEFAULTS["include_max"], ref="center", value_range=None)
        else:
            if rng.integers(0, 2):
                rng.shuffle(data)
            base.update(slicer="ppi", n_points=int(rng.choice([20, 30, 50, 60, 100, 130])),
                        last_full=DEFAULTS["last_full"])
        yield base


def edge_probe_cases(base_cases):
    """second call on data containing every reported edge and its float neighbours, with the
    value range pinned so that the intervals are the same."""
    for case in base_cases:
        if case["slicer"] == "ppi" or not case["data"]:
            continue
        pre = run_impl(case, 0, 0)
        if "err" in pre or pre["K"] == 0 or pre["K"] > 60:
            continue
        pts = []
        for lo, hi in pre["bounds"]:
            for e in (lo, hi):
                pts += [float(np.nextafter(e, -np.inf)), e, float(np.nextafter(e, np.inf))]
        c = dict(case)
        data = np.array(case["data"], dtype=float)
        if case["slicer"] == "width":
            vr = case["value_range"] or (None, None)
            c["value_range"] = (vr[0], vr[1] if vr[1] is not None else float(data.max()))
        else:
            vr = case["value_range"]
            c["value_range"] = vr if vr is not None else (float(data.min()), float(data.max()))
        c["data"] = list(case["data"]) + pts
        c["gen"] = "edge-probe"
        yield c


def corpus_cases():
    # witnesses of the defects found while reading (DESIGN section 4, #6 and #7)
    yield {"slicer": "width", "width": 0.1, "right_open": True, "ref": "center", "value_range": None,
           "data": [0.1, 0.8, 0.30000000000000004, 1.0], "min_pts": 1, "min_iv": 1, "gen": "corpus"}
    yield {"slicer": "number", "n_intervals": 10, "include_max": True, "ref": "center",
           "value_range": (4.0, 14.5), "data": [7.1499999999999995, 4.0, 14.5, 9.25], "min_pts": 1, "min_iv": 1,
           "gen": "corpus"}
    yield {"slicer": "ppi", "n_points": 2, "last_full": True, "data": [5.0, 1.0, 4.0, 2.0, 3.0, 0.0],
           "min_pts": 1, "min_iv": 1, "gen": "corpus"}
    yield {"slicer": "ppi", "n_points": 3, "last_full": False, "data": [2.0, 2.0, 1.0, 5.0, 0.5, 2.0, 7.0],
           "min_pts": 2, "min_iv": 1, "gen": "corpus"}


def check_reuse(ck, rng, n):
    """history: a slicer object that already sliced one vector must slice the next one like a fresh slicer"""
    for _ in range(n):
        cases = list(random_cases(rng, 1))
        case = cases[0]
        if case["slicer"] == "ppi":
            other = [float(v) for v in rng.permutation(case["data"])][: max(2, len(case["data"]) // 2)]
        else:
            other = [float(v) * 1.7 + 0.3 for v in case["data"]][: max(2, len(case["data"]) * 2 // 3)]
        from virocon.intervals import (NumberOfIntervalsSlicer, PointsPerIntervalSlicer, WidthOfIntervalSlicer)

        def make():
            ref = _mk_ref(case.get("ref", "callable"))
            vr = tuple(case["value_range"]) if case.get("value_range") is not None else None
            if case["slicer"] == "width":
                return WidthOfIntervalSlicer(case["width"], reference=ref, right_open=case["right_open"], value_range=vr,
                                             min_n_points=0, min_n_intervals=0)
            if case["slicer"] == "number":
                return NumberOfIntervalsSlicer(case["n_intervals"], reference=ref, include_max=case["include_max"],
                                               value_range=vr, min_n_points=0, min_n_intervals=0)
            return PointsPerIntervalSlicer(case["n_points"], reference=RecordingRef(), last_full=case["last_full"],
                                           min_n_points=0, min_n_intervals=0)

        def run(s, d):
            try:
                with warnings.catch_warnings():
                    warnings.simplefilter("ignore")
                    m, r, b = s.slice_(np.array(d, dtype=float))
                return ([list(map(bool, x)) for x in m], [float(x) for x in r], [(float(x), float(y)) for x, y in b])
            except Exception as e:  # noqa: BLE001
                return ("err", type(e).__name__)

        used = make()
        run(used, case["data"])
        got, want = run(used, other), run(make(), other)
        c2 = dict(case, gen="reuse", other=other)
        ck.case(c2, nontrivial=True, sample=False)
        ck.count("gen=reuse")
        if repr(got) != repr(want):
            ck.fail(sig(case, "reused_slicer_equals_fresh_slicer"), c2,
                    f"slicer that sliced another vector before returns {str(got)[:120]} but a fresh one {str(want)[:120]}")


def sig(case, predicate):
    return {"entry": {"width": "WidthOfIntervalSlicer", "number": "NumberOfIntervalsSlicer",
                      "ppi": "PointsPerIntervalSlicer"}[case["slicer"]] + ".slice_",
            "predicate": predicate}


def uses_model(case):
    return case.get("dtype") != "float32"


def process(ck, cases):
    """run impl + model on a batch of cases, compare, evaluate oracle"""
    lines, impls, at = [], [], {}
    for i, case in enumerate(cases):
        pre = run_impl(case, 0, 0)
        post = run_impl(case, case["min_pts"], case["min_iv"], omit=case.get("omit_defaults", False))
        impls.append((pre, post))
        if uses_model(case):
            at[i] = len(lines)
            lines.append(model_line(case, 0, 0))
            lines.append(model_line(case, case["min_pts"], case["min_iv"]))
    answers = ck.driver.run(lines) if lines else []
    for i, case in enumerate(cases):
        pre, post = impls[i]
        n = len(case["data"])
        nontrivial = "err" not in pre and pre["K"] >= 2 and n >= 2
        ck.case(case, nontrivial=nontrivial, sample=(not case["gen"].startswith("lattice") or ck.evaluations % 5000 == 0))
        ck.count("slicer=" + case["slicer"])
        ck.count("gen=" + case["gen"])
        if "err" in post:
            ck.count("post_error=" + post["err"])
        if "err" in pre:
            ck.count("pre_error=" + pre["err"])
        elif pre["K"] == 0:
            ck.count("pre_drop_no_intervals")
        if n and min(case["data"]) < 0:
            ck.count("data=negative-values")
        if "err" not in pre and "err" not in post and post["K"] < pre["K"]:
            ck.count("dropped_some:" + case["slicer"])
        if case["slicer"] == "number" and case["min_iv"] > case["n_intervals"]:
            ck.count("cap_binds:number_min_n_intervals")
        if case["slicer"] == "ppi" and case["min_pts"] > case["n_points"]:
            ck.count("cap_binds:ppi_min_n_points")
        bad = oracle_predrop(case, pre) + oracle_drop(case, pre, post, case["min_pts"], case["min_iv"])
        for pred, detail in bad:
            ck.fail(sig(case, pred), case, detail)
        if i not in at:
            ck.count("oracles_only_no_model")
            continue
        mpre, mpost = parse_model(answers[at[i]], n), parse_model(answers[at[i] + 1], n)
        d = compare(pre, mpre, case)
        if d is None:
            # post-drop: PPI boundaries are recomputed, everything compared
            d = compare(post, mpost, case)
            if d is not None:
                d = "post-drop: " + d
        if d is not None and not bad:
            ck.diverge("slicers:" + case["slicer"], case, d)
        elif d is not None:
            ck.count("divergence_with_oracle_failure")


def process_stream(ck, gen, size=20000):
    batch = []
    for c in gen:
        batch.append(c)
        if len(batch) >= size:
            process(ck, batch)
            batch = []
    process(ck, batch)


LATTICE_GENS = {
    "width": lambda max_len, widths: lattice_cases(max_len, widths, None),
    "width-options": lambda max_len, widths: width_option_lattice_cases(max_len, widths),
    "number": lambda max_len, full_len, widths, ns: number_lattice_cases(max_len, full_len, widths, ns),
    "ppi": lambda max_len, widths: ppi_lattice_cases(max_len, widths),
}


def lattice_plan(thorough):
    widths = [0.1, 0.3, 0.5, 0.7, 1.0] if thorough else [0.1, 0.3, 0.7]
    return [
        ("width", (5 if thorough else 3, widths)),
        ("width-options", (3 if thorough else 2, widths)),
        ("number", (4 if thorough else 3, 2, widths, (1, 2, 3, 4) if thorough else (2, 3))),
        ("ppi", (6 if thorough else 4, [0.1, 0.7, 1.0] if thorough else [0.1, 0.7])),
    ]


def _lattice_worker(args):
    """thorough tier: every nparts-th case of one lattice in a worker process (own driver); returns the tallies"""
    seed, tier, name, gargs, part, nparts = args
    ck = core.Check("C10", tier, seed)
    ck.driver = core.Driver()
    process_stream(ck, itertools.islice(LATTICE_GENS[name](*gargs), part, None, nparts))
    return {"evaluations": ck.evaluations, "keys": ck.keys, "nontrivial": ck.nontrivial, "samples": ck.samples,
            "dist": ck.dist, "div": ck.divergences[:50], "fail": ck.failures[:200], "known": ck.known_seen,
            "lines": ck.driver.n_lines}


def run_lattices(ck, thorough):
    plan = lattice_plan(thorough)
    if not thorough:
        for name, gargs in plan:
            process_stream(ck, LATTICE_GENS[name](*gargs))
        return
    jobs = []
    for name, gargs in plan:
        nparts = 48 if name == "width" else 8
        jobs += [(ck.seed, ck.tier, name, gargs, part, nparts) for part in range(nparts)]
    with multiprocessing.Pool(8) as pool:
        for r in pool.imap_unordered(_lattice_worker, jobs):
            ck.evaluations += r["evaluations"]
            new = r["keys"] - ck.keys
            ck.keys |= r["keys"]
            ck.nontrivial += r["nontrivial"] if len(new) == len(r["keys"]) else min(r["nontrivial"], len(new))
            for smp in r["samples"]:
                if len(ck.samples) < 4:
                    ck.samples.append(smp)
            for k, v in r["dist"].items():
                ck.count(k, v)
            ck.divergences += r["div"]
            for f in r["fail"]:
                ck.fail(*f)
            for kid, v in r["known"].items():
                ck.known_seen.setdefault(kid, v)
            ck.driver.n_lines += r["lines"]


def main(ck):
    rng = np.random.default_rng(ck.seed)
    thorough = ck.tier == "thorough"
    ck.rule = (
        "corpus witnesses; exhaustive lattices: WidthOfIntervalSlicer vectors of values k*w/2 (k=0..12) of length <= "
        + ("5" if thorough else "3")
        + " x right_open (reference center, no value_range, minimums 1/1) and values k*w/2 (k=0..8) of length <= "
        + ("3" if thorough else "2")
        + " x right_open x 4 value_range shapes x 4 reference kinds x 2 minimum settings; NumberOfIntervalsSlicer "
        "n_intervals " + ("1..4" if thorough else "2,3") + " vectors over {0..(n+1/2)w step w/2} of length <= "
        + ("4" if thorough else "3")
        + " x include_max x value_range None/(0,n*w), up to length 2 also x 4 reference kinds x 2 minimum settings; "
        "PointsPerIntervalSlicer vectors over {0,w,2w,3w} of length <= " + ("6" if thorough else "4")
        + " x n_points 1..3 x last_full x 3 minimum settings; then random vectors (ties, rounded, shuffled) for all "
        "three slicers x options, edge-probing (every reported edge and its two float neighbours), integer dtype, "
        "special inputs (negative, empty, NaN, negative / reversed value ranges, keyword capitalisation, lists), "
        "float32 (oracles only), defaults omitted, slicer re-use; "
        "a case is non-trivial if it has >= 2 observations and >= 2 pre-drop intervals; distinct by SHA1 of the case"
    )
    ck.assumptions = [
        "np.argsort result is passed to the model as the sorting permutation (validated to be a permutation by the model)",
        "callable references are observed through a recording callable",
        "NumberOfIntervalsSlicer value_range is a pair of numbers lower <= upper (a None entry is a TypeError in the "
        "code, lower > upper yields reversed boundaries: neither is generated)",
        "NaN observations only together with an explicit value range; they are outside every range",
    ]
    ck.partial = {
        "float32 observations": "only the oracles are evaluated on the implementation's output (no model "
                                "correspondence: numpy computes float32 edges for NumberOfIntervalsSlicer)",
        "negative observations with WidthOfIntervalSlicer and no value_range": "lie below the covered range [0, max] "
        "and are in no interval; the property text only speaks about observations inside the covered range",
    }
    process(ck, list(corpus_cases()))
    run_lattices(ck, thorough)
    rnd = list(random_cases(rng, 6000 if thorough else 500))
    process(ck, rnd)
    process(ck, list(edge_probe_cases(rnd)))
    process(ck, list(int_dtype_cases(rng, 1500 if thorough else 150)))
    process(ck, list(special_cases(rng, 4000 if thorough else 400)))
    process(ck, list(float32_cases(rng, 1500 if thorough else 150)))
    process(ck, list(default_cases(rng, 600 if thorough else 60)))
    check_reuse(ck, rng, 600 if thorough else 80)
    ck.extra["exhaustive"] = False
    ck.extra["lattice_exhaustive_up_to_length"] = {"width": 5 if thorough else 3, "number": 4 if thorough else 3,
                                                   "ppi": 6 if thorough else 4}


def replay(ck, payload):
    case = payload["case"]
    pre = run_impl(case, 0, 0)
    post = run_impl(case, case["min_pts"], case["min_iv"], omit=case.get("omit_defaults", False))
    bad = oracle_predrop(case, pre) + oracle_drop(case, pre, post, case["min_pts"], case["min_iv"])
    for pred, detail in bad:
        print("oracle:", pred, detail)
    if ck.driver and uses_model(case):
        n = len(case["data"])
        ans = ck.driver.run([model_line(case, 0, 0), model_line(case, case["min_pts"], case["min_iv"])])
        print("correspondence pre :", compare(pre, parse_model(ans[0], n), case))
        print("correspondence post:", compare(post, parse_model(ans[1], n), case))
    return not bad
