"""
C10 - interval slicing partitions the data.

Correspondence: real slicers (virocon.intervals) vs Lean model (Model/Slicers.lean),
masks / references / boundaries compared exactly (bit patterns).
Oracle (on the implementation's own output): every observation inside the covered range
is in exactly one pre-drop interval, masks aligned, boundaries chained and containing
their members, references as configured, drop rule, min_n_intervals error.
"""
import itertools
import warnings

import numpy as np

from core import f2b, fl, il

REFS = ["center", "right", "left", "callable"]


class RecordingRef:
    """callable reference that records what it is handed"""

    def __init__(self):
        self.calls = []

    def __call__(self, arr):
        self.calls.append(np.array(arr, dtype=float))
        return float(np.median(arr)) if len(arr) else float("nan")


def _mk_ref(kind):
    return RecordingRef() if kind == "callable" else kind


def _err_name(e):
    if isinstance(e, RuntimeError) and "too few intervals" in str(e):
        return "tooFewIntervals"
    return type(e).__name__


def run_impl(case, min_pts, min_iv):
    """returns dict(K, masks, refs, bounds, callable_calls) or dict(err=...)"""
    from virocon.intervals import (
        WidthOfIntervalSlicer,
        NumberOfIntervalsSlicer,
        PointsPerIntervalSlicer,
    )

    data = np.array(case["data"], dtype=float)
    if case.get("as_int"):
        data = data.astype(np.int64)  # integer-valued observations handed over as an integer array
    kind = case["slicer"]
    ref = _mk_ref(case.get("ref", "callable"))
    try:
        if kind == "width":
            s = WidthOfIntervalSlicer(
                case["width"],
                reference=ref,
                right_open=case["right_open"],
                value_range=tuple(case["value_range"]) if case["value_range"] is not None else None,
                min_n_points=min_pts,
                min_n_intervals=min_iv,
            )
        elif kind == "number":
            s = NumberOfIntervalsSlicer(
                case["n_intervals"],
                reference=ref,
                include_max=case["include_max"],
                value_range=tuple(case["value_range"]) if case["value_range"] is not None else None,
                min_n_points=min_pts,
                min_n_intervals=min_iv,
            )
        else:
            ref = RecordingRef()
            s = PointsPerIntervalSlicer(
                case["n_points"],
                reference=ref,
                last_full=case["last_full"],
                min_n_points=min_pts,
                min_n_intervals=min_iv,
            )
        with warnings.catch_warnings():
            warnings.simplefilter("ignore")
            masks, refs, bounds = s.slice_(data)
    except Exception as e:  # noqa: BLE001
        return {"err": _err_name(e), "msg": str(e)[:200]}
    out = {
        "K": len(masks),
        "masks": ["".join("1" if b else "0" for b in np.asarray(m, dtype=bool)) for m in masks],
        "masklen_ok": all(np.asarray(m).shape == data.shape for m in masks),
        "refs": [float(r) for r in refs],
        "bounds": [(float(a), float(b)) for a, b in bounds],
    }
    if isinstance(ref, RecordingRef):
        out["calls"] = ref.calls
    return out


def model_line(case, min_pts, min_iv):
    data = case["data"]
    kind = case["slicer"]

    def opt(v):
        return "-" if v is None else str(f2b(v))

    if kind == "width":
        vr = case["value_range"] or (None, None)
        return (
            ["RUN", "width", str(f2b(case["width"])), "1" if case["right_open"] else "0",
             str(REFS.index(case["ref"])), opt(vr[0]), opt(vr[1]), str(min_pts), str(min_iv)]
            + fl(data)
        )
    if kind == "number":
        vr = case["value_range"] or (None, None)
        return (
            ["RUN", "number", str(case["n_intervals"]), "1" if case["include_max"] else "0",
             str(REFS.index(case["ref"])), opt(vr[0]), opt(vr[1]), str(min_pts), str(min_iv)]
            + fl(data)
        )
    perm = np.argsort(np.array(data, dtype=float))
    return (
        ["RUN", "ppi", str(case["n_points"]), "1" if case["last_full"] else "0", str(min_pts), str(min_iv)]
        + il(perm) + fl(data)
    )


def parse_model(ans):
    t = ans.split()
    if t[0] == "ERR":
        return {"err": t[1]}
    K = int(t[1])
    masks, refs, bounds = [], [], []
    p = 2
    for _ in range(K):
        # an empty mask (no data) prints as an empty token -> handle by K>0 and len(data)=0 never generated
        masks.append(t[p])
        refs.append(None if t[p + 1] == "-" else int(t[p + 1]))
        bounds.append((int(t[p + 2]), int(t[p + 3])))
        p += 4
    return {"K": K, "masks": masks, "refs": refs, "bounds": bounds}


def compare(impl, model, case):
    """exact comparison; returns None or a description of the first difference"""
    if "err" in impl or "err" in model:
        ie, me = impl.get("err"), model.get("err")
        if ie == me:
            return None
        # PPI: np.split with 0 sections raises ValueError, zero n_points ZeroDivisionError
        if me == "splitZero" and ie in ("ValueError", "ZeroDivisionError"):
            return None
        if me == "emptyData" and ie in ("ValueError", "IndexError"):
            return None
        return f"error mismatch impl={ie} ({impl.get('msg')}) model={me}"
    if impl["K"] != model["K"]:
        return f"number of intervals impl={impl['K']} model={model['K']}"
    for k in range(impl["K"]):
        if impl["masks"][k] != model["masks"][k]:
            return f"mask {k} impl={impl['masks'][k][:60]} model={model['masks'][k][:60]}"
        ib = (f2b(impl["bounds"][k][0]), f2b(impl["bounds"][k][1]))
        if ib != tuple(model["bounds"][k]):
            return f"boundaries {k} impl={impl['bounds'][k]} model-bits={model['bounds'][k]}"
        if model["refs"][k] is not None and f2b(impl["refs"][k]) != model["refs"][k]:
            return f"reference {k} impl={impl['refs'][k]!r} model-bits={model['refs'][k]}"
    if "calls" in impl and case.get("ref", "callable") == "callable":
        data = np.array(case["data"], dtype=float)
        if len(impl["calls"]) != impl["K"]:
            return "callable reference not called once per interval"
        for k in range(impl["K"]):
            m = np.array([c == "1" for c in model["masks"][k]], dtype=bool)
            if not np.array_equal(impl["calls"][k], data[m]):
                return f"callable reference {k} did not receive data[mask]"
    return None


def oracle_predrop(case, impl):
    """property predicates on the implementation's pre-drop output; returns list of (predicate, detail)"""
    bad = []
    if "err" in impl:
        return bad
    data = np.array(case["data"], dtype=float)
    K = impl["K"]
    if not impl["masklen_ok"] or any(len(m) != len(data) for m in impl["masks"]):
        bad.append(("masks_aligned", "mask length differs from data length"))
        return bad
    M = np.array([[c == "1" for c in m] for m in impl["masks"]], dtype=bool).reshape(K, len(data))
    counts = M.sum(axis=0)
    b = impl["bounds"]
    kind = case["slicer"]
    if K == 0:
        return bad
    # boundaries: lo <= hi, chained, not overlapping
    for k in range(K):
        if not (b[k][0] <= b[k][1]):
            bad.append(("boundaries_ordered", f"interval {k}: {b[k]}"))
    for k in range(K - 1):
        if b[k][1] > b[k + 1][0]:
            bad.append(("boundaries_overlap", f"intervals {k},{k+1}: {b[k][1]!r} > {b[k+1][0]!r}"))
        elif b[k][1] < b[k + 1][0] and kind != "ppi":
            bad.append(("boundaries_gap", f"intervals {k},{k+1}: {b[k][1]!r} < {b[k+1][0]!r}"))
    # members inside the reported boundaries
    for k in range(K):
        xs = data[M[k]]
        if len(xs) and (xs.min() < b[k][0] or xs.max() > b[k][1]):
            bad.append(("boundaries_contain_members", f"interval {k}: {b[k]} members {xs.min()!r}..{xs.max()!r}"))
    # exactly-one membership inside the covered range
    lo0, hiK = b[0][0], b[-1][1]
    if kind == "width":
        if case["right_open"]:
            covered = (data >= lo0) & (data < hiK)
        else:
            covered = (data > lo0) & (data <= hiK)
    elif kind == "number":
        covered = (data >= lo0) & ((data <= hiK) if case["include_max"] else (data < hiK))
    else:
        covered = np.ones(len(data), dtype=bool)
    for j in np.nonzero(covered & (counts != 1))[0][:3]:
        bad.append(("exactly_one_interval", f"value {data[j]!r} at position {j} is in {int(counts[j])} intervals"))
    for j in np.nonzero(~covered & (counts != 0))[0][:3]:
        bad.append(("outside_range_in_interval", f"value {data[j]!r} at position {j}"))
    if kind == "number" and case["include_max"] and case["value_range"] is None and len(data):
        j = int(np.argmax(data))
        if counts[j] != 1:
            bad.append(("max_included", f"max {data[j]!r} in {int(counts[j])} intervals"))
    # membership consistent with the values (alignment): equal values have equal membership
    order = np.argsort(data, kind="stable")
    if kind != "ppi":
        for a, c in zip(order[:-1], order[1:]):
            if data[a] == data[c] and not np.array_equal(M[:, a], M[:, c]):
                bad.append(("masks_aligned", f"equal values {data[a]!r} at {a},{c} differ in membership"))
                break
    else:
        # chunks: sizes and sortedness across chunks
        n, npts = len(data), case["n_points"]
        sizes = [int(x) for x in M.sum(axis=1)]
        rem = n % npts
        exp = [npts] * (n // npts)
        if rem:
            exp = ([rem] + exp) if case["last_full"] else (exp + [rem])
        if sizes != exp:
            bad.append(("ppi_chunk_sizes", f"sizes {sizes} expected {exp}"))
        for k in range(K - 1):
            a, c = data[M[k]], data[M[k + 1]]
            if len(a) and len(c) and a.max() > c.min():
                bad.append(("ppi_chunks_sorted", f"interval {k} max {a.max()!r} > interval {k+1} min {c.min()!r}"))
                break
    # references
    ref = case.get("ref", "callable")
    if ref != "callable":
        for k in range(K):
            lo, hi = b[k]
            want = {"center": (lo + hi) / 2, "left": lo, "right": hi}[ref]
            tol = 1e-9 * max(1.0, abs(lo), abs(hi))
            if not abs(impl["refs"][k] - want) <= tol:
                bad.append(("reference_value", f"interval {k} ref {impl['refs'][k]!r} expected {want!r} ({ref})"))
                break
    else:
        for k in range(K):
            xs = data[M[k]]
            want = float(np.median(xs)) if len(xs) else float("nan")
            got = impl["refs"][k]
            if not (got == want or (np.isnan(got) and np.isnan(want))):
                bad.append(("reference_value", f"interval {k} callable ref {got!r} expected {want!r}"))
                break
    return bad


def oracle_drop(case, pre, post, min_pts, min_iv):
    bad = []
    if "err" in pre:
        return bad
    # documented constructor rules: the minimum never exceeds what the configuration can give
    if case["slicer"] == "number":
        min_iv = min(min_iv, case["n_intervals"])
    if case["slicer"] == "ppi":
        min_pts = min(min_pts, case["n_points"])
    counts = [m.count("1") for m in pre["masks"]]
    keep = [k for k in range(pre["K"]) if counts[k] >= min_pts]
    if case["slicer"] == "ppi":
        # boundaries are recomputed after the drop; compare masks only
        keep_masks = [pre["masks"][k] for k in keep]
        if "err" in post:
            if post["err"] == "tooFewIntervals":
                if len(keep) >= min_iv:
                    bad.append(("too_few_error", f"raised although {len(keep)} >= {min_iv} intervals remain"))
            return bad
        if len(keep) < min_iv:
            bad.append(("too_few_error", f"{len(keep)} intervals < min_n_intervals {min_iv} but no error"))
        if post["masks"] != keep_masks:
            bad.append(("drop_exactly_small", f"kept {post['K']} expected {len(keep)}"))
        return bad
    if "err" in post:
        if post["err"] == "tooFewIntervals":
            if len(keep) >= min_iv:
                bad.append(("too_few_error", f"raised although {len(keep)} >= {min_iv} intervals remain"))
        else:
            bad.append(("unexpected_error", post["err"] + ": " + post.get("msg", "")))
        return bad
    if len(keep) < min_iv:
        bad.append(("too_few_error", f"{len(keep)} intervals < min_n_intervals {min_iv} but no error"))
    want = [(pre["masks"][k], pre["bounds"][k]) for k in keep]
    got = list(zip(post["masks"], post["bounds"]))
    if want != got:
        bad.append(("drop_exactly_small", f"kept {post['K']} intervals, expected {len(keep)} (counts {counts}, min {min_pts})"))
    return bad


# ---------------------------------------------------------------------------
# generators


def lattice_cases(max_len, widths, ck):
    for w in widths:
        vals = [i * w / 2 for i in range(13)]
        for L in range(1, max_len + 1):
            for combo in itertools.product(vals, repeat=L):
                if max(combo) == 0:
                    continue
                for ro in (True, False):
                    yield {"slicer": "width", "width": w, "right_open": ro, "ref": "center",
                           "value_range": None, "data": list(combo), "min_pts": 1, "min_iv": 1, "gen": "lattice"}


def random_data(rng, n):
    mode = rng.integers(0, 5)
    scale = float(10 ** rng.uniform(-1, 1.5))
    if mode == 0:
        x = rng.weibull(1.5, n) * scale
    elif mode == 1:
        x = np.round(rng.weibull(1.3, n) * scale, 1)
    elif mode == 2:
        x = np.round(rng.uniform(0, scale, n), 2)
    elif mode == 3:
        x = rng.integers(0, 12, n).astype(float) * float(rng.choice([0.1, 0.25, 0.3, 0.5, 0.7, 1.0]))
    else:
        x = np.sort(rng.lognormal(0, 0.6, n) * scale)
    return [float(v) for v in x]


def random_cases(rng, n_cases):
    for _ in range(n_cases):
        n = int(rng.choice([1, 2, 3, 7, 20, 60, 200, 1000]))
        data = random_data(rng, n)
        kind = rng.choice(["width", "number", "ppi"])
        mp = int(rng.choice([0, 1, 2, 3, 5, 10, 50]))
        mi = int(rng.choice([0, 1, 2, 3, 5]))
        if kind == "width":
            w = float(rng.choice([0.1, 0.2, 0.3, 0.5, 0.7, 1.0, 1.5, 2.0, float(10 ** rng.uniform(-1, 0.7))]))
            mx = max(data)
            if mx / w > 400:
                w = mx / 50.0
            vr = None
            r = rng.integers(0, 4)
            if r == 1:
                vr = (float(rng.choice([0.0, 0.5, 1.0])), None)
            elif r == 2:
                vr = (None, float(mx * rng.uniform(0.5, 1.5)) + w)
            elif r == 3:
                vr = (float(rng.choice([0.0, 0.3, 1.0])), float(mx * rng.uniform(0.5, 1.5)) + 1.0)
            yield {"slicer": "width", "width": w, "right_open": bool(rng.integers(0, 2)),
                   "ref": str(rng.choice(REFS)), "value_range": vr, "data": data,
                   "min_pts": mp, "min_iv": mi, "gen": "random"}
        elif kind == "number":
            vr = None
            if rng.integers(0, 3) == 0:
                lo = float(rng.choice([0.0, 0.5, 4.0, min(data)]))
                vr = (lo, lo + float(rng.choice([1.0, 10.5, 3.3, max(data) + 0.1])))
            yield {"slicer": "number", "n_intervals": int(rng.choice([1, 2, 3, 4, 5, 7, 10, 13, 20])),
                   "include_max": bool(rng.integers(0, 2)), "ref": str(rng.choice(REFS)),
                   "value_range": vr, "data": data, "min_pts": mp, "min_iv": mi, "gen": "random"}
        else:
            npts = int(rng.choice([1, 2, 3, 5, 10, 50]))
            if rng.integers(0, 2):
                rng.shuffle(data)
            yield {"slicer": "ppi", "n_points": npts, "last_full": bool(rng.integers(0, 2)),
                   "data": data, "min_pts": mp, "min_iv": mi, "gen": "random"}


def int_dtype_cases(rng, n_cases):
    """integer-valued data passed as an integer-dtype array (counts, rounded measurements)"""
    for case in random_cases(rng, n_cases):
        c = dict(case)
        c["data"] = [float(int(round(v * 3))) for v in case["data"]]
        if max(c["data"]) <= 0:
            continue
        if c["slicer"] == "width":
            c["width"] = float(rng.choice([1.0, 2.0, 0.5, 1.5]))
            c["value_range"] = None
        if c["slicer"] == "number" and c.get("value_range") is not None:
            c["value_range"] = None
        c["as_int"] = True
        c["gen"] = "int-dtype"
        yield c


def edge_probe_cases(base_cases):
    """second call on data containing every reported edge and its float neighbours, with the
    value range pinned so that the intervals are the same."""
    for case in base_cases:
        if case["slicer"] == "ppi" or not case["data"]:
            continue
        pre = run_impl(case, 0, 0)
        if "err" in pre or pre["K"] == 0 or pre["K"] > 60:
            continue
        pts = []
        for lo, hi in pre["bounds"]:
            for e in (lo, hi):
                pts += [float(np.nextafter(e, -np.inf)), e, float(np.nextafter(e, np.inf))]
        c = dict(case)
        data = np.array(case["data"], dtype=float)
        if case["slicer"] == "width":
            vr = case["value_range"] or (None, None)
            c["value_range"] = (vr[0], vr[1] if vr[1] is not None else float(data.max()))
        else:
            vr = case["value_range"]
            c["value_range"] = vr if vr is not None else (float(data.min()), float(data.max()))
        c["data"] = list(case["data"]) + pts
        c["gen"] = "edge-probe"
        yield c


def corpus_cases():
    # witnesses of the defects found while reading (DESIGN section 4, #6 and #7)
    yield {"slicer": "width", "width": 0.1, "right_open": True, "ref": "center", "value_range": None,
           "data": [0.1, 0.8, 0.30000000000000004, 1.0], "min_pts": 1, "min_iv": 1, "gen": "corpus"}
    yield {"slicer": "number", "n_intervals": 10, "include_max": True, "ref": "center",
           "value_range": (4.0, 14.5), "data": [7.1499999999999995, 4.0, 14.5, 9.25], "min_pts": 1, "min_iv": 1,
           "gen": "corpus"}
    yield {"slicer": "ppi", "n_points": 2, "last_full": True, "data": [5.0, 1.0, 4.0, 2.0, 3.0, 0.0],
           "min_pts": 1, "min_iv": 1, "gen": "corpus"}
    yield {"slicer": "ppi", "n_points": 3, "last_full": False, "data": [2.0, 2.0, 1.0, 5.0, 0.5, 2.0, 7.0],
           "min_pts": 2, "min_iv": 1, "gen": "corpus"}


def check_reuse(ck, rng, n):
    """history: a slicer object that already sliced one vector must slice the next one like a fresh slicer"""
    for _ in range(n):
        cases = list(random_cases(rng, 1))
        case = cases[0]
        if case["slicer"] == "ppi":
            other = [float(v) for v in rng.permutation(case["data"])][: max(2, len(case["data"]) // 2)]
        else:
            other = [float(v) * 1.7 + 0.3 for v in case["data"]][: max(2, len(case["data"]) * 2 // 3)]
        from virocon.intervals import (NumberOfIntervalsSlicer, PointsPerIntervalSlicer, WidthOfIntervalSlicer)

        def make():
            ref = _mk_ref(case.get("ref", "callable"))
            vr = tuple(case["value_range"]) if case.get("value_range") is not None else None
            if case["slicer"] == "width":
                return WidthOfIntervalSlicer(case["width"], reference=ref, right_open=case["right_open"], value_range=vr,
                                             min_n_points=0, min_n_intervals=0)
            if case["slicer"] == "number":
                return NumberOfIntervalsSlicer(case["n_intervals"], reference=ref, include_max=case["include_max"],
                                               value_range=vr, min_n_points=0, min_n_intervals=0)
            return PointsPerIntervalSlicer(case["n_points"], reference=RecordingRef(), last_full=case["last_full"],
                                           min_n_points=0, min_n_intervals=0)

        def run(s, d):
            try:
                with warnings.catch_warnings():
                    warnings.simplefilter("ignore")
                    m, r, b = s.slice_(np.array(d, dtype=float))
                return ([list(map(bool, x)) for x in m], [float(x) for x in r], [(float(x), float(y)) for x, y in b])
            except Exception as e:  # noqa: BLE001
                return ("err", type(e).__name__)

        used = make()
        run(used, case["data"])
        got, want = run(used, other), run(make(), other)
        c2 = dict(case, gen="reuse", other=other)
        ck.case(c2, nontrivial=True, sample=False)
        ck.count("gen=reuse")
        if repr(got) != repr(want):
            ck.fail(sig(case, "reused_slicer_equals_fresh_slicer"), c2,
                    f"slicer that sliced another vector before returns {str(got)[:120]} but a fresh one {str(want)[:120]}")


def sig(case, predicate):
    return {"entry": {"width": "WidthOfIntervalSlicer", "number": "NumberOfIntervalsSlicer",
                      "ppi": "PointsPerIntervalSlicer"}[case["slicer"]] + ".slice_",
            "predicate": predicate}


def process(ck, cases):
    """run impl + model on a batch of cases, compare, evaluate oracle"""
    lines, impls = [], []
    for case in cases:
        pre = run_impl(case, 0, 0)
        post = run_impl(case, case["min_pts"], case["min_iv"])
        impls.append((pre, post))
        lines.append(model_line(case, 0, 0))
        lines.append(model_line(case, case["min_pts"], case["min_iv"]))
    answers = ck.driver.run(lines) if lines else []
    for i, case in enumerate(cases):
        pre, post = impls[i]
        mpre, mpost = parse_model(answers[2 * i]), parse_model(answers[2 * i + 1])
        nontrivial = "err" not in pre and pre["K"] >= 2 and len(case["data"]) >= 2
        ck.case(case, nontrivial=nontrivial, sample=(case["gen"] != "lattice" or ck.evaluations % 5000 == 0))
        ck.count("slicer=" + case["slicer"])
        ck.count("gen=" + case["gen"])
        if "err" in post:
            ck.count("post_error=" + post["err"])
        bad = oracle_predrop(case, pre) + oracle_drop(case, pre, post, case["min_pts"], case["min_iv"])
        for pred, detail in bad:
            ck.fail(sig(case, pred), case, detail)
        d = compare(pre, mpre, case)
        if d is None:
            # post-drop: PPI boundaries are recomputed, everything compared
            d = compare(post, mpost, case)
            if d is not None:
                d = "post-drop: " + d
        if d is not None and not bad:
            ck.diverge("slicers:" + case["slicer"], case, d)
        elif d is not None:
            ck.count("divergence_with_oracle_failure")


def main(ck):
    rng = np.random.default_rng(ck.seed)
    thorough = ck.tier == "thorough"
    ck.rule = (
        "corpus witnesses, then exhaustive lattice vectors (values k*w/2, k=0..12) of length <= "
        + ("5" if thorough else "3")
        + " for WidthOfIntervalSlicer x right_open, then random vectors (ties, rounded, shuffled) for all "
        "three slicers x options, then edge-probing (every reported edge and its two float neighbours); "
        "a case is non-trivial if it has >= 2 observations and >= 2 pre-drop intervals; distinct by SHA1 of the case"
    )
    ck.assumptions = [
        "np.argsort result is passed to the model as the sorting permutation (validated to be a permutation by the model)",
        "callable references are observed through a recording callable",
    ]
    process(ck, list(corpus_cases()))
    widths = [0.1, 0.3, 0.5, 0.7, 1.0] if thorough else [0.1, 0.3, 0.7]
    batch = []
    for c in lattice_cases(5 if thorough else 3, widths, ck):
        batch.append(c)
        if len(batch) >= 20000:
            process(ck, batch)
            batch = []
    process(ck, batch)
    rnd = list(random_cases(rng, 6000 if thorough else 500))
    process(ck, rnd)
    process(ck, list(edge_probe_cases(rnd)))
    process(ck, list(int_dtype_cases(rng, 1500 if thorough else 150)))
    check_reuse(ck, rng, 600 if thorough else 80)
    ck.extra["exhaustive"] = False
    ck.extra["lattice_exhaustive_up_to_length"] = 5 if thorough else 3


def replay(ck, payload):
    case = payload["case"]
    pre = run_impl(case, 0, 0)
    post = run_impl(case, case["min_pts"], case["min_iv"])
    bad = oracle_predrop(case, pre) + oracle_drop(case, pre, post, case["min_pts"], case["min_iv"])
    for pred, detail in bad:
        print("oracle:", pred, detail)
    if ck.driver:
        ans = ck.driver.run([model_line(case, 0, 0), model_line(case, case["min_pts"], case["min_iv"])])
        print("correspondence pre :", compare(pre, parse_model(ans[0]), case))
        print("correspondence post:", compare(post, parse_model(ans[1]), case))
    return not bad
