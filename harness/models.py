"""
Random hierarchical models over the *shipped* virocon families, with an independent way to
evaluate each leaf: `leaf(i, g)` evaluates the dependence callables directly (plain Python) and
CONSTRUCTS `Family(**values)` — the "template at the dependence values" that C08 speaks about.
The Lean model receives these leaves as TABLE lines (uninterpreted functions).
"""
import math

import numpy as np

from core import f2b


def _import():
    import virocon
    from virocon import (
        DependenceFunction,
        ExponentiatedWeibullDistribution,
        GeneralizedGammaDistribution,
        GlobalHierarchicalModel,
        LogNormalDistribution,
        NormalDistribution,
        WeibullDistribution,
    )

    return locals()


V = _import()


# dependence callables (module-level so that models can be deep-copied / pickled)
def _power3(x, a, b, c):
    return a + b * x**c


def _exp3(x, a, b, c):
    return a + b * np.exp(c * x)


def _asym3(x, a, b, c):
    return a + b / (1 + c * x)


def _lnsquare2(x, a, b):
    return np.log(a + b * np.sqrt(np.divide(x, 9.81)))


def _logistics4(x, a, b, c, d):
    return a + b / (1 + np.exp(-1 * np.abs(c) * (x - d)))


def _linear2(x, a, b):
    return a + b * x


DEP_FUNCS = {
    "power3": _power3,
    "exp3": _exp3,
    "asym3": _asym3,
    "lnsquare2": _lnsquare2,
    "logistics4": _logistics4,
    "linear2": _linear2,
}


def random_dep_pars(rng, kind, level):
    """parameters such that the value stays positive and of the order of `level` for x in (0, 30)"""
    u = rng.uniform
    if kind == "power3":
        return [level * u(0.5, 1.0), level * u(0.02, 0.3), u(0.3, 1.3)]
    if kind == "exp3":
        return [level * u(0.5, 1.0), level * u(0.05, 0.3), u(0.01, 0.08)]
    if kind == "asym3":
        return [level * u(0.3, 0.8), level * u(0.1, 0.8), u(0.05, 1.0)]
    if kind == "lnsquare2":
        return [u(1.0, 4.0), u(1.0, 12.0)]
    if kind == "logistics4":
        return [level * u(0.5, 1.0), level * u(0.1, 0.6), u(0.3, 2.0), u(1.0, 6.0)]
    if kind == "linear2":
        return [level * u(0.5, 1.0), level * u(0.01, 0.15)]
    raise KeyError(kind)


# family -> (class name, [(param, kind of value)])
FAMILIES = {
    "Weibull": ("WeibullDistribution", ["alpha", "beta", "gamma"]),
    "LogNormal": ("LogNormalDistribution", ["mu", "sigma"]),
    "Normal": ("NormalDistribution", ["mu", "sigma"]),
    "ExpWeibull": ("ExponentiatedWeibullDistribution", ["alpha", "beta", "delta"]),
    "GenGamma": ("GeneralizedGammaDistribution", ["m", "c", "lambda_"]),
}


def base_value(rng, fam, par):
    u = rng.uniform
    table = {
        ("Weibull", "alpha"): lambda: 10 ** u(-0.3, 0.7),
        ("Weibull", "beta"): lambda: u(0.9, 3.0),
        ("Weibull", "gamma"): lambda: float(rng.choice([0.0, 0.0, 0.3, 1.0])),
        ("LogNormal", "mu"): lambda: u(-0.3, 1.5),
        ("LogNormal", "sigma"): lambda: u(0.15, 0.7),
        ("Normal", "mu"): lambda: u(3.0, 8.0),
        ("Normal", "sigma"): lambda: u(0.4, 1.2),
        ("ExpWeibull", "alpha"): lambda: 10 ** u(-0.3, 0.5),
        ("ExpWeibull", "beta"): lambda: u(0.8, 2.5),
        ("ExpWeibull", "delta"): lambda: u(0.7, 4.0),
        ("GenGamma", "m"): lambda: u(0.8, 3.0),
        ("GenGamma", "c"): lambda: u(0.8, 2.5),
        ("GenGamma", "lambda_"): lambda: u(0.3, 2.0),
    }
    return float(table[(fam, par)]())


class FamModel:
    """dims: list of dict(family, cond, params={name: ("fixed", v) | ("dep", kind, [pars])})"""

    def __init__(self, dims):
        self.dims = dims
        self.n_dim = len(dims)
        self.cond = [d["cond"] for d in dims]

    # -- real virocon objects ------------------------------------------------
    def build(self):
        descs = []
        for d in self.dims:
            cls = V[FAMILIES[d["family"]][0]]
            if d["cond"] is None:
                descs.append({"distribution": cls(**{k: v[1] for k, v in d["params"].items()})})
            else:
                kw, pars = {}, {}
                for name, spec in d["params"].items():
                    if spec[0] == "fixed":
                        kw["f_" + name] = spec[1]
                    else:
                        df = V["DependenceFunction"](DEP_FUNCS[spec[1]])
                        df.parameters = dict(zip(df.parameters.keys(), spec[2]))
                        pars[name] = df
                descs.append({"distribution": cls(**kw), "conditional_on": d["cond"], "parameters": pars})
        return V["GlobalHierarchicalModel"](descs)

    # -- independent leaf ------------------------------------------------------
    def param_values(self, i, g):
        d = self.dims[i]
        vals = {}
        for name, spec in d["params"].items():
            if spec[0] == "fixed":
                vals[name] = spec[1]
            else:
                vals[name] = float(DEP_FUNCS[spec[1]](float(g), *spec[2]))
        return vals

    def leaf(self, i, g=None):
        d = self.dims[i]
        cls = V[FAMILIES[d["family"]][0]]
        return cls(**self.param_values(i, g))

    def tokens(self):
        t = [str(self.n_dim)]
        for d in self.dims:
            t += ["-" if d["cond"] is None else str(d["cond"]), "table"]
        return t

    def describe(self):
        return {"dims": self.dims}

    def n_dependent(self):
        return sum(1 for d in self.dims if d["cond"] is not None for s in d["params"].values() if s[0] == "dep")


def fam_model_from_desc(desc):
    dims = []
    for d in desc["dims"]:
        dims.append({"family": d["family"], "cond": d["cond"],
                     "params": {k: tuple(v) for k, v in d["params"].items()}})
    return FamModel(dims)


def random_fam_model(rng, n_dim=None, cond=None, nonneg=True):
    from doubles import random_structure

    if n_dim is None:
        n_dim = int(rng.choice([2, 2, 3, 3, 4]))
    if cond is None:
        cond = random_structure(rng, n_dim)
    fams = ["Weibull", "LogNormal", "ExpWeibull", "GenGamma"] + ([] if nonneg else ["Normal"])
    dims = []
    for i in range(n_dim):
        fam = str(rng.choice(fams))
        names = FAMILIES[fam][1]
        params = {}
        if cond[i] is None:
            for nme in names:
                params[nme] = ("fixed", base_value(rng, fam, nme))
        else:
            n_dep = 0
            for nme in names:
                level = base_value(rng, fam, nme)
                is_loc = (fam, nme) in (("Weibull", "gamma"),)
                make_dep = (not is_loc) and rng.integers(0, 3) > 0
                if make_dep:
                    if (fam, nme) in (("LogNormal", "mu"),):
                        kind = str(rng.choice(["lnsquare2", "linear2", "power3"]))
                        level = max(level, 0.3)
                    else:
                        kind = str(rng.choice(["power3", "exp3", "asym3", "logistics4", "linear2"]))
                    params[nme] = ("dep", kind, [float(v) for v in random_dep_pars(rng, kind, level)])
                    n_dep += 1
                else:
                    params[nme] = ("fixed", level)
            if n_dep == 0:
                nme = names[0] if fam != "LogNormal" else "sigma"
                level = base_value(rng, fam, nme)
                params[nme] = ("dep", "asym3", [float(v) for v in random_dep_pars(rng, "asym3", level)])
        dims.append({"family": fam, "cond": cond[i], "params": params})
    return FamModel(dims)


def table_line(kind, i, a, g, v):
    """TABLE <kind> <dim> <arg bits> <given bits|-> <value bits>"""
    return " ".join(["TABLE", kind, str(i), str(f2b(a)), "-" if g is None else str(f2b(g)), str(f2b(v))])
