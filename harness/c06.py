"""
C06 - Joint density factorises hierarchically; cdf and marginals are its integrals.

Correspondence
  (A) GlobalHierarchicalModel.pdf on doubles (bit-exact) and shipped families (leaf pdf TABLE'd
      from constructed template instances), every input form (row vector, list, (n, n_dim) array,
      integer-valued lists/arrays).
  (B) argument placement for nquad: scipy.integrate.nquad is replaced inside the harness
      process by a probe that calls the integrand once with distinct labelled values and
      records the ranges; the pdf is a recording subclass. The row that reaches pdf is compared
      with the Lean `reorderArgs`/`marginalOrder`/range placement.
Oracle / partial clauses (runtime): pdf >= 0, = product of independent scalar leaf pdfs;
quadrature of pdf ~ 1 and ~ cdf; marginal_cdf(marginal_icdf(p)) ~ p within DKW.
  (C) one shipped-family and one rational-double 2-D model per run: normalisation, cdf value, rows in one call,
      marginal round trip, VALUES of marginal_pdf (3 points, one call) / marginal_cdf against an independent
      quadrature of f0(t) f1(x|t) / f0(t) F1(x|t) over constructed leaves, integer x.
  (D) VALUE oracles on light-tailed exponential doubles (ExpDist; closed-form / independent-quadrature reference):
      marginal_pdf / marginal_cdf (several unsorted points per call; array, list, integer array), cdf (2-D and 3-D;
      list, row vector, integer forms, rows at and below 0), the unconditional shortcut of marginal_pdf / cdf / icdf
      (also for a later unconditional dimension), marginal_icdf in the bulk and the tails with default and explicit
      precision_factor (Bernstein band; sample size drawn vs the documented size = correspondence).
"""
import math
import warnings

import numpy as np

from core import f2b, b2f, fl, il
import doubles
import models


def desc_of(case):
    if case["mode"] == "doubles":
        return doubles.model_from_desc(case["model"]), None
    f = models.fam_model_from_desc(case["model"])
    return f, f


# --------------------------------------------------------------------------- (A)

def gen_pdf_cases(rng, n):
    for _ in range(n):
        table = rng.integers(0, 3) == 0
        n_dim = int(rng.choice([2, 2, 3, 3, 4]))
        m = models.random_fam_model(rng, n_dim=n_dim) if table else doubles.random_model(rng, n_dim=n_dim)
        k = int(rng.choice([1, 1, 2, 5, 17]))
        form = str(rng.choice(["array2d", "list2d", "row1d", "rowlist", "intlist", "intarray"]))
        if form in ("row1d", "rowlist"):
            k = 1
        if form in ("intlist", "intarray"):
            pts = rng.integers(1, 9, size=(k, n_dim)).astype(float)
        else:
            pts = 10 ** rng.uniform(-1.5, 1.3, size=(k, n_dim))
            if rng.integers(0, 4) == 0:
                pts = np.round(pts, 1) + 0.1
        if form not in ("intlist", "intarray") and rng.integers(0, 6) == 0:
            # boundary / outside of the support: exactly 0 anywhere; negative values only in dimensions that no
            # other dimension is conditional on (a dependence function need not be admissible at a negative value)
            leaf_dims = [i for i in range(n_dim) if i not in m.cond]
            for _z in range(int(rng.integers(1, 3))):
                j = int(rng.integers(0, k))
                if leaf_dims and rng.integers(0, 2):
                    pts[j, int(rng.choice(leaf_dims))] = -float(rng.choice([0.5, 1.0, 2.5]))
                else:
                    pts[j, int(rng.integers(0, n_dim))] = 0.0
        yield {"part": "A", "mode": "table" if table else "doubles", "model": m.describe(), "form": form,
               "points": [[float(v) for v in r] for r in pts]}


def make_input(case):
    pts = np.array(case["points"], dtype=float)
    form = case["form"]
    if form == "array2d":
        return pts
    if form == "list2d":
        return [[float(v) for v in r] for r in pts]
    if form == "row1d":
        return pts[0]
    if form == "rowlist":
        return [float(v) for v in pts[0]]
    if form == "intlist":
        return [[int(v) for v in r] for r in pts]
    return pts.astype(int)


def process_pdf(ck, case):
    desc, fam = desc_of(case)
    model = desc.build()
    pts = np.array(case["points"], dtype=float)
    n_dim = desc.n_dim
    x_in = make_input(case)
    before = repr(x_in)
    try:
        with np.errstate(all="ignore"), warnings.catch_warnings():
            warnings.simplefilter("ignore")
            got = np.asarray(model.pdf(x_in))
    except Exception as e:  # noqa: BLE001
        ck.case(case)
        ck.fail({"entry": "GlobalHierarchicalModel.pdf", "predicate": "evaluates_" + case["form"]}, case,
                f"{type(e).__name__}: {e}")
        return
    lines = ["CLEAR"]
    indep = np.ones(len(pts))
    # independent product of scalar leaf pdfs (also the TABLE for table mode)
    for j, row in enumerate(pts):
        for i in range(n_dim):
            ci = desc.cond[i]
            g = None if ci is None else float(row[ci])
            if fam is not None:
                with np.errstate(all="ignore"):
                    v = float(np.asarray(fam.leaf(i, g).pdf(float(row[i]))))
                lines.append(models.table_line("f", i, row[i], g, v))
            else:
                s = desc.s[i].value(g) if g is not None else desc.s[i].pars[0]
                l = desc.l[i].value(g) if g is not None else desc.l[i].pars[0]
                z = row[i] - l
                v = s / ((z + s) * (z + s)) if z > 0 else 0.0
            indep[j] *= v
    lines.append(" ".join(["RUN", "pdf"] + desc.tokens() + [str(len(pts))] + [str(f2b(v)) for v in pts.ravel()]))
    ans = ck.driver.run(lines)[-1].split()
    ck.case(case, nontrivial=desc.n_dependent() >= 1)
    ck.count("part=A")
    ck.count("A_form=" + case["form"])
    ck.count("A_mode=" + case["mode"])
    if np.any(pts == 0):
        ck.count("A_point_with_zero")
    if np.any(pts < 0):
        ck.count("A_point_with_negative")
    bad = []
    if got.shape != (len(pts),):
        bad.append(("pdf_shape", f"shape {got.shape} for {len(pts)} points"))
    else:
        scale = np.maximum(np.abs(indep), 1e-300)
        if not np.all(np.isfinite(indep)):
            ck.count("A_nonfinite_reference")
            return
        if not np.all(np.abs(got.astype(float) - indep) <= 1e-11 * scale):
            j = int(np.argmax(np.abs(got.astype(float) - indep) / scale))
            bad.append(("pdf_is_product_of_conditional_densities",
                        f"point {pts[j].tolist()} (input form {case['form']}): pdf={got[j]!r} product={indep[j]!r}"))
        if np.any(got < 0):
            bad.append(("pdf_nonnegative", f"min {got.min()!r}"))
    if repr(x_in) != before:
        bad.append(("input_unchanged", "pdf modified its argument"))
    for pred, detail in bad:
        ck.fail({"entry": "GlobalHierarchicalModel.pdf", "predicate": pred, "input_form": case["form"]}, case, detail)
    if ans[0] != "OK":
        if not bad:
            ck.diverge("joint-pdf:" + case["mode"], case, "model: " + " ".join(ans))
        return
    mvals = np.array([b2f(v) for v in ans[2:]])
    if got.shape == mvals.shape and not bad:
        g64 = got.astype(np.float64)
        if not np.array_equal(g64.view(np.uint64), mvals.view(np.uint64)):
            if case["mode"] == "table" and np.all(np.abs(g64 - mvals) <= 1e-12 * np.abs(mvals)):
                ck.count("A_table_inexact_ok")
            else:
                j = int(np.argmax(np.abs(g64 - mvals)))
                ck.diverge("joint-pdf:" + case["mode"], case, f"point {j}: impl {g64[j]!r} model {mvals[j]!r}")


# --------------------------------------------------------------------------- (B)

class NquadProbe:
    """stands in for scipy.integrate.nquad inside virocon.jointmodels: calls the integrand once with
    labelled arguments and records the ranges"""

    def __init__(self):
        self.calls = []

    def __call__(self, func, ranges, args=None, opts=None, full_output=False):
        ranges = [tuple(r) for r in ranges]
        extra = list(args) if args is not None else []
        n_int = len(ranges)
        labels = [float(100 + 10 * k) for k in range(n_int)]
        val = func(*(labels + extra))
        self.calls.append({"ranges": ranges, "labels": labels, "extra": extra})
        return float(np.asarray(val).ravel()[0]) * 0.0, 0.0


def process_reorder(ck, rng, n_dim, dim, which):
    import virocon.jointmodels as jm

    m = doubles.random_model(rng, n_dim=n_dim)
    real = m.build()
    seen = []

    class Probe(type(real)):
        def pdf(self, x):
            seen.append(np.array(x, dtype=float).copy())
            return np.zeros(len(np.atleast_2d(x)))

    Probe.__name__ = "GlobalHierarchicalModel"
    real.__class__ = Probe
    probe = NquadProbe()
    old = jm.integrate.nquad
    jm.integrate.nquad = probe
    xq = float(rng.uniform(0.5, 5.0))
    xrow = [float(v) for v in rng.uniform(0.5, 5.0, n_dim)]
    try:
        if which == "cdf":
            real.cdf(np.array([xrow]))
        elif which == "marginal_pdf":
            real.marginal_pdf(np.array([xq]), dim)
        else:
            real.marginal_cdf(np.array([xq]), dim)
    finally:
        jm.integrate.nquad = old
    case = {"part": "B", "which": which, "n_dim": n_dim, "dim": dim, "cond": m.cond, "x": xq, "xrow": xrow}
    ck.case(case, nontrivial=n_dim >= 2)
    ck.count("part=B")
    ck.count("B_which=" + which)
    if m.cond[dim] is None and which != "cdf":
        ck.count("B_unconditional_shortcut")
        if probe.calls:
            ck.fail({"entry": which, "predicate": "unconditional_marginal_is_own_distribution"}, case,
                    "nquad was called for an unconditional dimension")
        return
    if len(probe.calls) != 1 or len(seen) != 1:
        ck.diverge("nquad-plan", case, f"{len(probe.calls)} nquad calls, {len(seen)} pdf calls")
        return
    call = probe.calls[0]
    args = call["labels"] + call["extra"]
    row = seen[0].ravel()
    # model: order and placement
    if which == "cdf":
        order = list(range(n_dim))
    else:
        mo = ck.driver.run([f"RUN morder {n_dim} {dim}"])[0].split()
        order = [int(v) for v in mo[1:]]
    ans = ck.driver.run([" ".join(["RUN", "reorder"] + il(order) + fl(args))])[0].split()
    mrow = np.array([b2f(v) for v in ans[2:]]) if ans[0] == "OK" else None
    bad = []
    # oracle: the variable integrated over (0, x) must sit at the model position it belongs to
    if which == "cdf":
        for k, (lo, hi) in enumerate(call["ranges"]):
            pos = int(np.argwhere(row == call["labels"][k])[0][0]) if np.any(row == call["labels"][k]) else -1
            if pos < 0 or hi != xrow[pos] or lo != 0:
                bad.append(("cdf_integrates_lower_left_orthant", f"nquad arg {k} range {(lo, hi)} lands at position {pos}, x={xrow}"))
    elif which == "marginal_cdf":
        k = len(call["ranges"]) - 1
        lo, hi = call["ranges"][k]
        pos = int(np.argwhere(row == call["labels"][k])[0][0]) if np.any(row == call["labels"][k]) else -1
        if not (pos == dim and lo == 0 and hi == xq):
            bad.append(("marginal_cdf_integrates_requested_variable", f"finite range {(lo, hi)} lands at position {pos}, dim={dim}"))
        for k2, (lo2, hi2) in enumerate(call["ranges"][:-1]):
            if not (lo2 == 0 and hi2 == np.inf):
                bad.append(("marginal_cdf_other_variables_full_range", f"arg {k2} range {(lo2, hi2)}"))
    else:
        if row[dim] != xq:
            bad.append(("marginal_pdf_evaluates_at_x", f"position {dim} holds {row[dim]!r}, x={xq!r}"))
        for k2, (lo2, hi2) in enumerate(call["ranges"]):
            if not (lo2 == 0 and hi2 == np.inf):
                bad.append(("marginal_pdf_other_variables_full_range", f"arg {k2} range {(lo2, hi2)}"))
    if sorted(row.tolist()) != sorted(args):
        bad.append(("every_argument_used_once", f"row {row.tolist()} args {args}"))
    for pred, detail in bad:
        ck.fail({"entry": "GlobalHierarchicalModel." + which, "predicate": pred}, case, detail)
    if not bad and (mrow is None or not np.array_equal(mrow, row)):
        ck.diverge("nquad-plan", case, f"row reaching pdf {row.tolist()} model {None if mrow is None else mrow.tolist()}")
    # model: the ranges themselves (cdfRanges / marginalCdfRanges / marginalPdfRanges of Model/Joint.lean)
    if which == "cdf":
        rline = ["RUN", "ranges", "cdf"] + fl(xrow)
    elif which == "marginal_cdf":
        rline = ["RUN", "ranges", "mcdf", str(n_dim), str(f2b(xq))]
    else:
        rline = ["RUN", "ranges", "mpdf", str(n_dim)]
    rans = ck.driver.run([" ".join(rline)])[0].split()
    mranges = [(0.0, np.inf if t == "inf" else b2f(t)) for t in rans[2:]] if rans[0] == "OK" else None
    got_ranges = [(float(lo), float(hi)) for lo, hi in call["ranges"]]
    if not bad and mranges != got_ranges:
        ck.diverge("nquad-ranges", case, f"ranges handed to nquad {got_ranges} model {mranges}")


# --------------------------------------------------------------------------- (C) runtime-only clauses

def _unbounded_inside(m):
    for i, d in enumerate(m.dims):
        if d["family"] == "Weibull" and d["params"]["gamma"][1] > 0:
            gs = [None] if d["cond"] is None else [0.0, 0.5, 2.0, 8.0, 30.0]
            if any(m.param_values(i, g)["beta"] < 1 for g in gs):
                return True
    return False


def process_integrals(ck, rng, table, slow_s=4.0):
    """slow_s: a joint cdf evaluation that takes longer than this (models whose density has a kink inside the
    integration domain: 10-20 s per point) is not repeated seven more times for the rows-in-one-call comparison
    (that comparison then runs on the doubles of this part and of part D only)"""
    import time

    from scipy import integrate

    m = models.random_fam_model(rng, n_dim=2) if table else doubles.random_model(rng, n_dim=2)
    for _ in range(20):
        if not (table and _unbounded_inside(m)):
            break
        # a Weibull factor with location > 0 and shape < 1 is unbounded along a line INSIDE the integration domain:
        # adaptive quadrature over (0, inf) returns inf / garbage there, which says nothing about the property
        ck.count("C_model_with_interior_singularity_redrawn")
        m = models.random_fam_model(rng, n_dim=2)
    if not table:
        # location-free doubles only: a location parameter makes the density jump along a curve inside the
        # integration domain and nested adaptive quadrature (the code's and the reference's alike) is then only
        # good to ~1e-3, which says nothing about the property
        m.l = [doubles.Dep("fixed", [0.0]) for _ in m.l]
    model = m.build()
    case = {"part": "C", "mode": "table" if table else "doubles", "model": m.describe()}
    ck.case(case, nontrivial=m.n_dependent() >= 1, sample=False)
    ck.count("part=C")
    bad = []
    with np.errstate(all="ignore"), warnings.catch_warnings():
        warnings.simplefilter("ignore")
        tot, _ = integrate.nquad(lambda y, x: float(model.pdf([[x, y]])[0]), [(0, np.inf), (0, np.inf)],
                                 opts={"limit": 60})
        ck.count("C_normalisation mode=" + ("table" if table else "doubles"))
        if abs(tot - 1) > (2e-4 if table else 1e-6):
            bad.append(("pdf_integrates_to_one", f"integral {tot!r}"))
        smp = model.draw_sample(4000, random_state=int(rng.integers(0, 2**31)))
        x = np.array([[float(np.quantile(smp[:, 0], 0.6)), float(np.quantile(smp[:, 1], 0.7))]])
        t_cdf = time.time()
        c = float(model.cdf(x)[0])
        t_cdf = time.time() - t_cdf
        if table:
            # independent reference: \int_0^{x0} f_0(t) F_1(x1 | t) dt with leaves constructed at the dependence values
            # (one quadrature of independently evaluated factors instead of a second nested quadrature of model.pdf)
            d0 = m.leaf(0)
            ref, _ = integrate.quad(lambda t: float(np.asarray(d0.pdf(t))) * float(np.asarray(
                (m.leaf(1, t) if m.cond[1] is not None else m.leaf(1)).cdf(x[0, 1]))), 0, x[0, 0],
                epsabs=1e-11, epsrel=1e-9, limit=200)
        else:
            ref, _ = integrate.nquad(lambda y, xx: float(model.pdf([[xx, y]])[0]), [(0, x[0, 1]), (0, x[0, 0])])
        # both numbers are nested adaptive quadratures of a density with kinks (integration order differs):
        # agreement is expected within quadrature error only
        if abs(c - ref) > 2e-4:
            bad.append(("cdf_is_integral_of_pdf", f"cdf {c!r} quadrature {ref!r} at {x.tolist()}"))
        # several rows in one call (rotated order, one duplicate): one value per row, each what the row gives alone
        pts = np.array([[float(np.quantile(smp[:, 0], q0)), float(np.quantile(smp[:, 1], q1))]
                        for q0, q1 in ((0.3, 0.4), (0.6, 0.7), (0.8, 0.5))])
        if t_cdf <= slow_s:
            ck.count("C_rows_in_one_call")
            single = np.array([float(model.cdf(pts[k:k + 1])[0]) for k in range(3)])
            order = [1, 2, 0, 1]
            multi = np.asarray(model.cdf(pts[order]), dtype=float)
            if multi.shape != (4,) or not np.allclose(multi, single[order], rtol=1e-9, atol=1e-12):
                bad.append(("cdf_one_value_per_row_in_input_order",
                            f"cdf(rows {order} of {pts.tolist()}) = {multi.tolist()}, row by row {single[order].tolist()}"))
        else:
            ck.count("C_rows_in_one_call_skipped_slow_quadrature")
        # marginal consistency for the conditional variable (Monte-Carlo icdf vs quadrature cdf)
        dim = 1
        t_mcdf = 0.0
        if model.conditional_on[dim] is not None:
            p = 0.8
            q = float(np.asarray(model.marginal_icdf([p], dim)).ravel()[0])
            t_mcdf = time.time()
            back = float(np.asarray(model.marginal_cdf(np.array([q]), dim)).ravel()[0])
            t_mcdf = time.time() - t_mcdf
            n_mc = 100000
            eps = math.sqrt(math.log(2 / 1e-12) / (2 * n_mc)) + 1e-3  # DKW + quantile interpolation slack
            if abs(back - p) > eps:
                bad.append(("marginal_cdf_of_marginal_icdf", f"p={p} icdf={q!r} cdf back={back!r} eps={eps:.4f}"))
            if table:
                # VALUE of marginal_cdf / marginal_pdf for shipped families: independent quadrature of
                # f_0(t) * F_1(x | t)  resp.  f_0(t) * f_1(x | t)  with leaves constructed at the dependence values
                d0 = m.leaf(0)

                def ref_marg(xv, kind):
                    def g(t):
                        lf = m.leaf(1, t)
                        v = lf.cdf(xv) if kind == "cdf" else lf.pdf(xv)
                        return float(np.asarray(d0.pdf(t))) * float(np.asarray(v))
                    return integrate.quad(g, 0, np.inf, epsabs=1e-11, epsrel=1e-9, limit=200)

                r_cdf, e_cdf = ref_marg(q, "cdf")
                ck.count("C_table_marginal_values")
                if math.isfinite(r_cdf) and e_cdf < 1e-6 and abs(back - r_cdf) > 2e-5:
                    bad.append(("marginal_cdf_is_integral_of_marginal_pdf",
                                f"marginal_cdf([{q!r}], 1) = {back!r}, independent quadrature of f0(t)*F1(x|t): {r_cdf!r}"))
                xs3 = [float(np.quantile(smp[:, dim], qq)) for qq in (0.5, 0.2, 0.9)]
                got3 = np.asarray(model.marginal_pdf(np.array(xs3), dim), dtype=float)
                ref3 = [ref_marg(xv, "pdf") for xv in xs3]
                if all(math.isfinite(r) and e < 1e-6 for r, e in ref3):
                    r3 = np.array([r for r, _ in ref3])
                    if got3.shape != (3,) or not np.all(np.abs(got3 - r3) <= 2e-5 * np.maximum(r3, 1e-3)):
                        bad.append(("marginal_pdf_is_integral_of_joint_pdf",
                                    f"marginal_pdf({xs3}, 1) = {got3.tolist()}, independent quadrature of f0(t)*f1(x|t): {r3.tolist()}"))
                else:
                    ck.count("C_table_reference_quadrature_inaccurate")
        # integer-valued evaluation points must give the same marginals as the same values as floats
        if model.conditional_on[dim] is not None:
            names = ("marginal_pdf", "marginal_cdf") if t_mcdf <= slow_s else ("marginal_pdf",)
            ck.count("C_integer_input " + "+".join(names))
            xi = [int(max(1, round(float(np.quantile(smp[:, dim], 0.5)))))]
            for name in names:
                a = np.asarray(getattr(model, name)(np.array(xi), dim), dtype=float)
                b = np.asarray(getattr(model, name)(np.array(xi, dtype=float), dim), dtype=float)
                if not np.allclose(a, b, rtol=1e-9, atol=0, equal_nan=True):
                    bad.append((name + "_integer_input", f"{name}({xi}) = {a.tolist()} but {b.tolist()} for the same values as floats"))
    for pred, detail in bad:
        ck.fail({"entry": "GlobalHierarchicalModel", "predicate": pred}, case, detail)


def process_history(ck, rng):
    """history clause: marginal_icdf of a conditional variable after the model has been RE-FITTED to other data
    must describe the re-fitted model (what a fresh model fitted to the same data gives), not an earlier state"""
    from virocon import (DependenceFunction, GlobalHierarchicalModel, LogNormalDistribution, WeibullDistribution,
                         WidthOfIntervalSlicer)

    def dep(func, pars):
        d = DependenceFunction(func)
        d.parameters = dict(zip(d.parameters.keys(), pars))
        return d

    gen = GlobalHierarchicalModel([
        {"distribution": WeibullDistribution(2.0, 1.6)},
        {"distribution": LogNormalDistribution(), "conditional_on": 0,
         "parameters": {"mu": dep(models._lnsquare2, [2.0, 4.0]), "sigma": dep(models._asym3, [0.1, 0.3, 0.4])}}])
    seed = int(rng.integers(0, 2**31))
    a = gen.draw_sample(1500, random_state=seed)
    b = a * np.array([float(rng.uniform(1.5, 2.0)), float(rng.uniform(1.8, 2.6))])

    def build():
        return GlobalHierarchicalModel([
            {"distribution": WeibullDistribution(), "intervals": WidthOfIntervalSlicer(1.0, min_n_points=30)},
            {"distribution": LogNormalDistribution(), "conditional_on": 0,
             "parameters": {"mu": DependenceFunction(models._lnsquare2, bounds=[(0, None), (0, None)]),
                            "sigma": DependenceFunction(models._asym3, bounds=[(0.01, None), (0, None), (0, None)])}}])

    case = {"part": "H", "seed": seed, "history": "fit(A); marginal_icdf; fit(B); marginal_icdf  vs  fresh model fit(B); marginal_icdf"}
    ck.case(case, nontrivial=True, sample=False)
    ck.count("part=H-history")
    p = [0.1, 0.5, 0.9]
    with np.errstate(all="ignore"), warnings.catch_warnings():
        warnings.simplefilter("ignore")
        try:
            m = build()
            m.fit(a)
            m.marginal_icdf(p, 1)
            m.marginal_cdf(np.array([float(np.median(a[:, 1]))]), 0)
            m.fit(b)
            q_refit = np.asarray(m.marginal_icdf(p, 1), dtype=float)
            f = build()
            f.fit(b)
            q_fresh = np.asarray(f.marginal_icdf(p, 1), dtype=float)
        except (RuntimeError, ValueError):
            # the fitted dependence functions are not admissible everywhere (optimiser outcome): no history to judge
            ck.count("H_fit_failed")
            return
    emp = np.quantile(b[:, 1], p)
    if not np.allclose(q_refit, q_fresh, rtol=0.05):
        ck.fail({"entry": "GlobalHierarchicalModel.marginal_icdf", "predicate": "marginal_icdf_describes_current_model"}, case,
                f"after re-fitting to B: marginal_icdf({p}, 1) = {q_refit.tolist()}, a fresh model fitted to B gives "
                f"{q_fresh.tolist()} (empirical quantiles of B: {emp.tolist()})")


# --------------------------------------------------------------------------- (D) value oracles on light-tailed doubles

class ExpDist(doubles.Distribution):
    """exponential double: f(x) = exp(-x/s)/s for x > 0. Light tails, so that the code's nested adaptive quadrature
    (scipy nquad with default tolerances) is accurate to ~1e-8 and fast; used for VALUE oracles only (no Lean model:
    the reference below is closed-form Python / an independent scipy quad of closed-form integrands)."""

    def __init__(self, s=1.0, f_s=None):
        self.s = s if f_s is None else f_s
        self.f_s = f_s

    @property
    def parameters(self):
        return {"s": self.s}

    def cdf(self, x, s=None):
        s = self.s if s is None else s
        x = np.asarray(x, dtype=float)
        return np.where(x > 0, -np.expm1(-np.maximum(x, 0) / s), 0.0)

    def pdf(self, x, s=None):
        s = self.s if s is None else s
        x = np.asarray(x, dtype=float)
        return np.where(x > 0, np.exp(-np.maximum(x, 0) / s) / s, 0.0)

    def icdf(self, prob, s=None):
        s = self.s if s is None else s
        return -s * np.log1p(-np.asarray(prob, dtype=float))

    def draw_sample(self, n, s=None, *, random_state=None):
        s = self.s if s is None else s
        rng = np.random.default_rng(random_state)
        size = self._get_rvs_size(n, (s,))
        return self.icdf(rng.uniform(size=size), s)

    def _fit_mle(self, data):
        raise NotImplementedError()

    def _fit_lsq(self, data, weights):
        raise NotImplementedError()


class ExpModel:
    """hierarchical model over ExpDist leaves; the scale of a conditional dimension is a doubles.Dep of the
    conditioning value (real DependenceFunction objects, real GlobalHierarchicalModel)"""

    def __init__(self, cond, sdeps):
        self.cond, self.s, self.n_dim = list(cond), sdeps, len(cond)

    def build(self):
        descs = []
        for i, c in enumerate(self.cond):
            if c is None:
                descs.append({"distribution": ExpDist(s=self.s[i].pars[0])})
            else:
                descs.append({"distribution": ExpDist(), "conditional_on": c, "parameters": {"s": self.s[i].build()}})
        return doubles.GlobalHierarchicalModel(descs)

    def describe(self):
        return {"cond": self.cond, "s": [d.describe() for d in self.s]}

    # ---- independent reference (plain Python floats) ----
    def scale(self, i, g):
        return self.s[i].pars[0] if self.cond[i] is None else self.s[i].value(g)

    def f(self, i, x, g):
        s = self.scale(i, g)
        return math.exp(-x / s) / s if x > 0 else 0.0

    def F(self, i, x, g):
        s = self.scale(i, g)
        return -math.expm1(-x / s) if x > 0 else 0.0

    def Q(self, i, p, g):
        return -self.scale(i, g) * math.log1p(-p)

    def ancestors(self, d):
        out = []
        while self.cond[d] is not None:
            d = self.cond[d]
            out.append(d)
        return out

    def ref_marginal(self, d, x, kind):
        """marginal pdf / cdf of dimension d at x. Variables that d does not (transitively) depend on integrate to
        one (mass_one_iterated), so only the chain of ancestors is integrated: depth 1 = one quad, depth 2 = a 2-D
        nquad of a closed-form integrand."""
        from scipy import integrate

        leaf = self.f if kind == "pdf" else self.F
        anc = self.ancestors(d)
        if not anc:
            return leaf(d, x, None)

        def integrand(*ts):
            v = leaf(d, x, ts[0])
            for k, a in enumerate(anc):
                v *= self.f(a, ts[k], ts[k + 1] if k + 1 < len(anc) else None)
            return v

        r, _ = integrate.nquad(integrand, [(0, np.inf)] * len(anc), opts={"epsabs": 1e-13, "epsrel": 1e-11, "limit": 200})
        return r

    def ref_cdf(self, row):
        """joint cdf at row: the last variable in closed form (nobody depends on it), the others by nquad of the
        closed-form density"""
        from scipy import integrate

        n = self.n_dim
        if any(v <= 0 for v in row):
            return 0.0

        def integrand(*ts):
            v = 1.0
            for i in range(n - 1):
                v *= self.f(i, ts[i], None if self.cond[i] is None else ts[self.cond[i]])
            c = self.cond[n - 1]
            return v * self.F(n - 1, row[n - 1], None if c is None else ts[c])

        r, _ = integrate.nquad(integrand, [(0, float(row[i])) for i in range(n - 1)],
                               opts={"epsabs": 1e-13, "epsrel": 1e-11, "limit": 200})
        return r


def exp_model_from_desc(d):
    return ExpModel(d["cond"], [doubles.dep_from_desc(x) for x in d["s"]])


def random_exp_model(rng, cond):
    s = []
    for c in cond:
        if c is None:
            s.append(doubles.Dep("fixed", [float(10 ** rng.uniform(-0.3, 0.5))]))
        else:
            s.append(doubles.random_dep(rng, allow_fixed=False))
    return ExpModel(cond, s)


def bernstein_eps(n, p, delta=1e-12):
    """|F(empirical p-quantile of n draws) - p| <= eps with probability >= 1 - delta (Bernstein bound for the
    binomial count, variance taken at the far end of the band; + 2/n for the interpolation between order statistics)"""
    b = math.log(2 / delta)
    q = min(p, 1 - p)
    eps = 0.0
    for _ in range(3):
        var = n * min(0.25, q + eps)
        t = b / 3 + math.sqrt(b * b / 9 + 2 * b * var)
        eps = t / n
    return eps + 2.0 / n


QUAD_RTOL_3D = 1e-6
QUAD_RTOL = 1e-7   # code: nested scipy nquad, default epsabs = epsrel = 1.49e-8 per level, smooth light-tailed integrands


def _close(got, ref, rtol=QUAD_RTOL, atol=1e-9):
    got, ref = np.asarray(got, dtype=float), np.asarray(ref, dtype=float)
    return got.shape == ref.shape and bool(np.all(np.abs(got - ref) <= atol + rtol * np.abs(ref)))


def gen_value_cases(rng, thorough):
    """(structure, what) pairs: every 2-D structure and a rotating choice of 3-D structures per run"""
    conds2 = doubles.all_structures(2)
    conds3 = doubles.all_structures(3)
    cases = []
    for cond in conds2 + [[None, 0]]:
        cases.append((cond, "full"))
    order3 = list(rng.permutation(len(conds3)))
    n3 = len(conds3) if thorough else 2
    for k in order3[:n3]:
        cases.append((conds3[int(k)], "full3"))
    if thorough:
        for cond in conds2 * 3:
            cases.append((cond, "full"))
    # marginal_icdf requests, rotated over the cases that have a conditional dimension so that every run has the
    # tail / large-sample branch (n > 100000) and an explicitly passed precision_factor
    specs = [lambda: {"p": [float(rng.choice([1e-4, 2e-4, 5e-4])), 0.5, float(rng.choice([0.99, 0.999]))], "precision_factor": 1.0},
             lambda: {"p": [0.05, float(rng.uniform(0.3, 0.7)), 0.9], "precision_factor": float(rng.choice([100.0, 250.0]))},
             lambda: {"p": [0.5, float(rng.choice([1e-3, 2e-3])), 0.9], "precision_factor": float(rng.choice([0.5, 3.0]))},
             lambda: {"p": [float(rng.uniform(0.02, 0.98))], "precision_factor": 1.0}]
    k_cond = 0
    for cond, what in cases:
        m = random_exp_model(rng, cond)
        seed = int(rng.integers(0, 2**31))
        spec = specs[k_cond % len(specs)]()
        if any(c is not None for c in cond):
            k_cond += 1
        yield {"part": "D", "what": what, "model": m.describe(), "seed": seed,
               "xform": str(rng.choice(["array", "list", "intarray"])),
               "cdf_form": str(rng.choice(["list2d", "row1d", "rowlist", "intarray", "intlist"])),
               "icdf": spec, "thorough": bool(thorough)}


def process_values(ck, case):
    """VALUE oracles: marginal_pdf / marginal_cdf / cdf / marginal_icdf of the real model against the closed-form /
    independent-quadrature reference of ExpModel; several points per call; list / integer / row inputs"""
    from scipy import integrate

    m = exp_model_from_desc(case["model"])
    n_dim = m.n_dim
    model = m.build()
    ck.case(case, nontrivial=any(c is not None for c in m.cond))
    ck.count("part=D-values")
    ck.count("D_cond=" + ",".join("-" if c is None else str(c) for c in m.cond))
    rng = np.random.default_rng(case["seed"])
    bad = []

    def call(name, fn):
        try:
            with np.errstate(all="ignore"), warnings.catch_warnings():
                warnings.simplefilter("ignore")
                return np.asarray(fn(), dtype=float)
        except Exception as e:  # noqa: BLE001
            bad.append((name + "_evaluates", f"{type(e).__name__}: {e}"))
            return None

    # evaluation points from the reference model itself (inverse Rosenblatt of fixed probabilities)
    def ref_point(ps):
        row = []
        for i in range(n_dim):
            row.append(m.Q(i, ps[i], None if m.cond[i] is None else row[m.cond[i]]))
        return row

    pts = [ref_point(p) for p in ([0.3] * n_dim, [0.6, 0.7, 0.5][:n_dim], [0.9, 0.4, 0.8][:n_dim])]

    # ---- normalisation (2-D only: cheap)
    if n_dim == 2:
        with np.errstate(all="ignore"), warnings.catch_warnings():
            warnings.simplefilter("ignore")
            tot, _ = integrate.nquad(lambda y, x: float(model.pdf([[x, y]])[0]), [(0, np.inf), (0, np.inf)])
        ck.count("D_normalisation")
        if abs(tot - 1) > 1e-6:
            bad.append(("pdf_integrates_to_one", f"integral of pdf over (0,inf)^2 = {tot!r}"))

    # ---- joint cdf: value, input forms, several rows per call, rows at / below the lower end of the support
    form = case["cdf_form"]
    if form in ("intarray", "intlist"):
        rows = [[float(max(1, round(v))) for v in r] for r in pts]
    else:
        rows = [list(map(float, r)) for r in pts]
    if form in ("row1d", "rowlist"):
        rows = rows[1:2]
    else:
        rows = rows + [[0.0] + rows[0][1:], rows[1][:-1] + [-1.5]][: (2 if form == "list2d" else 0)]
    x_in = {"list2d": rows, "row1d": np.array(rows[0]), "rowlist": list(rows[0]),
            "intarray": np.array(rows).astype(int), "intlist": [[int(v) for v in r] for r in rows]}[form]
    ck.count("D_cdf_form=" + form)
    ck.count(f"D_cdf_n_dim={n_dim}")
    got = call("cdf", lambda: model.cdf(x_in))
    if got is not None:
        ref = np.array([m.ref_cdf(r) for r in rows])
        if not _close(got, ref):
            bad.append(("cdf_is_integral_of_pdf",
                        f"cdf({x_in!r}) = {got.tolist()}, integral of the product density over the lower-left orthant = {ref.tolist()}"))
        if np.any(ref == 0):
            ck.count("D_cdf_row_outside_support")

    # ---- marginals
    xform = case["xform"]
    for dim in range(n_dim):
        conditional = m.cond[dim] is not None
        depth = len(m.ancestors(dim))
        xs = sorted(float(r[dim]) for r in pts)
        xs = [xs[1], xs[0], xs[2]]          # not sorted: position i of the result belongs to x[i]
        if xform == "intarray":
            xs = [2.0, 1.0, 4.0]
        x_arg = {"array": np.array(xs), "list": list(xs), "intarray": np.array(xs).astype(int)}[xform]
        ck.count(f"D_marginal dim={dim} {'conditional depth ' + str(depth) if conditional else 'unconditional'}")
        ck.count("D_marginal_xform=" + xform)
        tol = dict(rtol=1e-12, atol=0) if not conditional else dict(rtol=QUAD_RTOL if n_dim == 2 else QUAD_RTOL_3D)
        # marginal_pdf (n_dim-1 nested quadratures per point)
        got = call("marginal_pdf", lambda: model.marginal_pdf(x_arg, dim))
        if got is not None:
            ref = np.array([m.ref_marginal(dim, x, "pdf") for x in xs])
            if not _close(got, ref, **tol):
                bad.append(("marginal_pdf_is_integral_of_joint_pdf" if conditional else "unconditional_marginal_is_own_distribution",
                            f"marginal_pdf({x_arg!r}, {dim}) = {got.tolist()}, reference {ref.tolist()}"))
        # marginal_cdf (n_dim nested quadratures per point: 3-D conditional is ~10 s per point, thorough only, 1 point)
        x_cdf, xs_cdf = x_arg, xs
        if conditional and n_dim == 3:
            if not case["thorough"] or dim != 2:
                x_cdf = None
            else:
                x_cdf, xs_cdf = np.array(xs[:1]), xs[:1]
        if x_cdf is not None:
            got = call("marginal_cdf", lambda: model.marginal_cdf(x_cdf, dim))
            if got is not None:
                ref = np.array([m.ref_marginal(dim, x, "cdf") for x in xs_cdf])
                if not _close(got, ref, **tol):
                    bad.append(("marginal_cdf_is_integral_of_marginal_pdf" if conditional else "unconditional_marginal_is_own_distribution",
                                f"marginal_cdf({x_cdf!r}, {dim}) = {got.tolist()}, reference {ref.tolist()}"))
        # marginal_icdf: exact for an unconditional dimension; Monte-Carlo quantile otherwise (bulk, tails, precision_factor)
        p = list(case["icdf"]["p"])
        pf = case["icdf"]["precision_factor"]
        drawn = []
        orig = model.draw_sample

        def spy(n, *a, **kw):
            drawn.append(int(n))
            return orig(n, *a, **kw)

        model.draw_sample = spy
        try:
            q = call("marginal_icdf", lambda: model.marginal_icdf(p, dim, pf) if pf != 1.0 else model.marginal_icdf(p, dim))
        finally:
            del model.draw_sample
        if q is None:
            continue
        if q.shape != (len(p),):
            bad.append(("marginal_icdf_shape", f"shape {q.shape} for {len(p)} probabilities"))
            continue
        if not conditional:
            ref = np.array([m.Q(dim, pp, None) for pp in p])
            if drawn or not _close(q, ref, rtol=1e-12, atol=0):
                bad.append(("unconditional_marginal_is_own_distribution",
                            f"marginal_icdf({p}, {dim}) = {q.tolist()}, icdf of the dimension's own distribution {ref.tolist()}"
                            + (f" (a sample of {drawn} was drawn)" if drawn else "")))
            continue
        n_mc = drawn[0] if len(drawn) == 1 else None
        p_small = min(min(p), 1 - max(p))
        n_doc = max(int((1 / p_small) * (100 * pf)), 100000)
        ck.count("D_icdf_n>100000" if n_doc > 100000 else "D_icdf_n=100000")
        if pf != 1.0:
            ck.count("D_icdf_precision_factor_passed")
        if n_mc != n_doc:
            ck.diverge("marginal-icdf-sample-size", case,
                       f"marginal_icdf({p}, {dim}, precision_factor={pf}) drew {drawn}, documented size max(100000, int(100*pf/p_small)) = {n_doc}")
        n_eff = min(n_mc or 100000, n_doc)
        back = np.array([m.ref_marginal(dim, float(v), "cdf") for v in q])
        eps = np.array([bernstein_eps(n_eff, pp) for pp in p]) + 1e-9
        if not np.all(np.abs(back - np.array(p)) <= eps):
            bad.append(("marginal_cdf_of_marginal_icdf",
                        f"marginal_icdf({p}, {dim}, precision_factor={pf}) = {q.tolist()}; marginal cdf there = {back.tolist()}, "
                        f"allowed deviation {eps.tolist()} for n = {n_eff}"))
        # ... and with the code's own marginal_cdf at the bulk probability (2-D: cheap)
        if n_dim == 2:
            j = int(np.argmin(np.abs(np.array(p) - 0.5)))
            own = call("marginal_cdf", lambda: model.marginal_cdf(np.array([q[j]]), dim))
            if own is not None and abs(float(own[0]) - p[j]) > eps[j] + 1e-6:
                bad.append(("marginal_cdf_of_marginal_icdf", f"p={p[j]} icdf={q[j]!r} marginal_cdf back={float(own[0])!r} eps={eps[j]:.5f}"))
    for pred, detail in bad:
        ck.fail({"entry": "GlobalHierarchicalModel", "predicate": pred}, case, detail)


def main(ck):
    rng = np.random.default_rng(ck.seed)
    thorough = ck.tier == "thorough"
    ck.rule = ("(A) pdf of random hierarchical models (n_dim 2-4, doubles and shipped families) at random points "
               "(incl. 0 and negative values) in six input forms (2-D array, nested list, 1-D row, row list, integer "
               "list, integer array); (B) nquad argument placement for cdf / marginal_pdf / marginal_cdf over all "
               "(n_dim <= 4, dim) pairs; (C) quadrature / Monte-Carlo consistency and marginal values on one shipped-"
               "family and one rational-double 2-D model (6 each in thorough); (D) values of marginal_pdf / "
               "marginal_cdf / cdf / marginal_icdf on exponential doubles: every 2-D structure, 2 (thorough: all 9) "
               "3-D structures; non-trivial = model with a dependent parameter; distinct by SHA1")
    ck.assumptions = ["leaf pdfs of shipped families are TABLE'd from constructed template instances",
                      "scipy.integrate.nquad integrates argument k over ranges[k] (its documented contract)"]
    ck.partial = {"cdf equals the integral of pdf": "the code's cdf is the iterated integral handed to nquad (placement proven, "
                  "Fubini for 2-D proven); its numerical VALUE is observed: compared per run with closed-form / independent-"
                  "quadrature references on exponential doubles (2-D, 3-D) and one shipped-family model",
                  "pdf integrates to one (continuous case)": "proved for finite supports (mass_one_discrete) and for the mathematical "
                  "iterated integral (mass_one_iterated, not tied to the code); quadrature of the code's pdf observed per run",
                  "marginal_pdf / marginal_cdf values": "observed per run against independent references (several points per call)",
                  "marginal_cdf(marginal_icdf(p)) = p": "Monte-Carlo; observed with a Bernstein/DKW band (error probability 1e-12) at "
                  "bulk and tail probabilities; sample size vs documented size is a Python-side correspondence",
                  "marginal_* of an unconditional dimension": "observed: equal to the dimension's own distribution, no sample drawn"}
    for case in gen_pdf_cases(rng, 4000 if thorough else 500):
        process_pdf(ck, case)
    for n_dim in (2, 3, 4):
        for dim in range(n_dim):
            for which in ("cdf", "marginal_pdf", "marginal_cdf"):
                for _ in range(6 if thorough else 2):
                    process_reorder(ck, rng, n_dim, dim, which)
    for k in range(12 if thorough else 2):
        process_integrals(ck, rng, table=(k % 2 == 0), slow_s=6.0 if thorough else 2.0)
    for case in gen_value_cases(rng, thorough):
        process_values(ck, case)
    for _ in range(6 if thorough else 1):
        process_history(ck, rng)


def replay(ck, payload):
    case = payload["case"]
    if case.get("part") == "A":
        process_pdf(ck, case)
    elif case.get("part") == "D":
        process_values(ck, case)
    else:
        print("parts B / C / H are replayed by re-running the check with the recorded seed and tier")
    for s, c, d in ck.failures:
        print("oracle:", s, d)
    for op, c, d in ck.divergences:
        print("correspondence:", op, d)
    return not ck.failures
