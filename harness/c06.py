"""
C06 - Joint density factorises hierarchically; cdf and marginals are its integrals.

Correspondence
  (A) GlobalHierarchicalModel.pdf on doubles (bit-exact) and shipped families (leaf pdf TABLE'd
      from constructed template instances), every input form (row vector, list, (n, n_dim) array,
      integer-valued lists/arrays).
  (B) argument placement for nquad: scipy.integrate.nquad is replaced inside the harness
      process by a probe that calls the integrand once with distinct labelled values and
      records the ranges; the pdf is a recording subclass. The row that reaches pdf is compared
      with the Lean `reorderArgs`/`marginalOrder`/range placement.
Oracle / partial clauses (runtime): pdf >= 0, = product of independent scalar leaf pdfs;
quadrature of pdf ~ 1 and ~ cdf; marginal_cdf(marginal_icdf(p)) ~ p within DKW.
"""
import math
import warnings

import numpy as np

from core import f2b, b2f, fl, il
import doubles
import models


def desc_of(case):
    if case["mode"] == "doubles":
        return doubles.model_from_desc(case["model"]), None
    f = models.fam_model_from_desc(case["model"])
    return f, f


# --------------------------------------------------------------------------- (A)

def gen_pdf_cases(rng, n):
    for _ in range(n):
        table = rng.integers(0, 3) == 0
        n_dim = int(rng.choice([2, 2, 3, 3, 4]))
        m = models.random_fam_model(rng, n_dim=n_dim) if table else doubles.random_model(rng, n_dim=n_dim)
        k = int(rng.choice([1, 1, 2, 5, 17]))
        form = str(rng.choice(["array2d", "list2d", "row1d", "rowlist", "intlist", "intarray"]))
        if form in ("row1d", "rowlist"):
            k = 1
        if form in ("intlist", "intarray"):
            pts = rng.integers(1, 9, size=(k, n_dim)).astype(float)
        else:
            pts = 10 ** rng.uniform(-1.5, 1.3, size=(k, n_dim))
            if rng.integers(0, 4) == 0:
                pts = np.round(pts, 1) + 0.1
        yield {"part": "A", "mode": "table" if table else "doubles", "model": m.describe(), "form": form,
               "points": [[float(v) for v in r] for r in pts]}


def make_input(case):
    pts = np.array(case["points"], dtype=float)
    form = case["form"]
    if form == "array2d":
        return pts
    if form == "list2d":
        return [[float(v) for v in r] for r in pts]
    if form == "row1d":
        return pts[0]
    if form == "rowlist":
        return [float(v) for v in pts[0]]
    if form == "intlist":
        return [[int(v) for v in r] for r in pts]
    return pts.astype(int)


def process_pdf(ck, case):
    desc, fam = desc_of(case)
    model = desc.build()
    pts = np.array(case["points"], dtype=float)
    n_dim = desc.n_dim
    x_in = make_input(case)
    before = repr(x_in)
    try:
        with np.errstate(all="ignore"), warnings.catch_warnings():
            warnings.simplefilter("ignore")
            got = np.asarray(model.pdf(x_in))
    except Exception as e:  # noqa: BLE001
        ck.case(case)
        ck.fail({"entry": "GlobalHierarchicalModel.pdf", "predicate": "evaluates_" + case["form"]}, case,
                f"{type(e).__name__}: {e}")
        return
    lines = ["CLEAR"]
    indep = np.ones(len(pts))
    # independent product of scalar leaf pdfs (also the TABLE for table mode)
    for j, row in enumerate(pts):
        for i in range(n_dim):
            ci = desc.cond[i]
            g = None if ci is None else float(row[ci])
            if fam is not None:
                with np.errstate(all="ignore"):
                    v = float(np.asarray(fam.leaf(i, g).pdf(float(row[i]))))
                lines.append(models.table_line("f", i, row[i], g, v))
            else:
                s = desc.s[i].value(g) if g is not None else desc.s[i].pars[0]
                l = desc.l[i].value(g) if g is not None else desc.l[i].pars[0]
                z = row[i] - l
                v = s / ((z + s) * (z + s)) if z > 0 else 0.0
            indep[j] *= v
    lines.append(" ".join(["RUN", "pdf"] + desc.tokens() + [str(len(pts))] + [str(f2b(v)) for v in pts.ravel()]))
    ans = ck.driver.run(lines)[-1].split()
    ck.case(case, nontrivial=desc.n_dependent() >= 1)
    ck.count("part=A")
    ck.count("A_form=" + case["form"])
    ck.count("A_mode=" + case["mode"])
    bad = []
    if got.shape != (len(pts),):
        bad.append(("pdf_shape", f"shape {got.shape} for {len(pts)} points"))
    else:
        scale = np.maximum(np.abs(indep), 1e-300)
        if not np.all(np.isfinite(indep)):
            ck.count("A_nonfinite_reference")
            return
        if not np.all(np.abs(got.astype(float) - indep) <= 1e-11 * scale):
            j = int(np.argmax(np.abs(got.astype(float) - indep) / scale))
            bad.append(("pdf_is_product_of_conditional_densities",
                        f"point {pts[j].tolist()} (input form {case['form']}): pdf={got[j]!r} product={indep[j]!r}"))
        if np.any(got < 0):
            bad.append(("pdf_nonnegative", f"min {got.min()!r}"))
    if repr(x_in) != before:
        bad.append(("input_unchanged", "pdf modified its argument"))
    for pred, detail in bad:
        ck.fail({"entry": "GlobalHierarchicalModel.pdf", "predicate": pred, "input_form": case["form"]}, case, detail)
    if ans[0] != "OK":
        if not bad:
            ck.diverge("joint-pdf:" + case["mode"], case, "model: " + " ".join(ans))
        return
    mvals = np.array([b2f(v) for v in ans[2:]])
    if got.shape == mvals.shape and not bad:
        g64 = got.astype(np.float64)
        if not np.array_equal(g64.view(np.uint64), mvals.view(np.uint64)):
            if case["mode"] == "table" and np.all(np.abs(g64 - mvals) <= 1e-12 * np.abs(mvals)):
                ck.count("A_table_inexact_ok")
            else:
                j = int(np.argmax(np.abs(g64 - mvals)))
                ck.diverge("joint-pdf:" + case["mode"], case, f"point {j}: impl {g64[j]!r} model {mvals[j]!r}")


# --------------------------------------------------------------------------- (B)

class NquadProbe:
    """stands in for scipy.integrate.nquad inside virocon.jointmodels: calls the integrand once with
    labelled arguments and records the ranges"""

    def __init__(self):
        self.calls = []

    def __call__(self, func, ranges, args=None, opts=None, full_output=False):
        ranges = [tuple(r) for r in ranges]
        extra = list(args) if args is not None else []
        n_int = len(ranges)
        labels = [float(100 + 10 * k) for k in range(n_int)]
        val = func(*(labels + extra))
        self.calls.append({"ranges": ranges, "labels": labels, "extra": extra})
        return float(np.asarray(val).ravel()[0]) * 0.0, 0.0


def process_reorder(ck, rng, n_dim, dim, which):
    import virocon.jointmodels as jm

    m = doubles.random_model(rng, n_dim=n_dim)
    real = m.build()
    seen = []

    class Probe(type(real)):
        def pdf(self, x):
            seen.append(np.array(x, dtype=float).copy())
            return np.zeros(len(np.atleast_2d(x)))

    Probe.__name__ = "GlobalHierarchicalModel"
    real.__class__ = Probe
    probe = NquadProbe()
    old = jm.integrate.nquad
    jm.integrate.nquad = probe
    xq = float(rng.uniform(0.5, 5.0))
    xrow = [float(v) for v in rng.uniform(0.5, 5.0, n_dim)]
    try:
        if which == "cdf":
            real.cdf(np.array([xrow]))
        elif which == "marginal_pdf":
            real.marginal_pdf(np.array([xq]), dim)
        else:
            real.marginal_cdf(np.array([xq]), dim)
    finally:
        jm.integrate.nquad = old
    case = {"part": "B", "which": which, "n_dim": n_dim, "dim": dim, "cond": m.cond, "x": xq, "xrow": xrow}
    ck.case(case, nontrivial=n_dim >= 2)
    ck.count("part=B")
    ck.count("B_which=" + which)
    if m.cond[dim] is None and which != "cdf":
        ck.count("B_unconditional_shortcut")
        if probe.calls:
            ck.fail({"entry": which, "predicate": "unconditional_marginal_is_own_distribution"}, case,
                    "nquad was called for an unconditional dimension")
        return
    if len(probe.calls) != 1 or len(seen) != 1:
        ck.diverge("nquad-plan", case, f"{len(probe.calls)} nquad calls, {len(seen)} pdf calls")
        return
    call = probe.calls[0]
    args = call["labels"] + call["extra"]
    row = seen[0].ravel()
    # model: order and placement
    if which == "cdf":
        order = list(range(n_dim))
    else:
        mo = ck.driver.run([f"RUN morder {n_dim} {dim}"])[0].split()
        order = [int(v) for v in mo[1:]]
    ans = ck.driver.run([" ".join(["RUN", "reorder"] + il(order) + fl(args))])[0].split()
    mrow = np.array([b2f(v) for v in ans[2:]]) if ans[0] == "OK" else None
    bad = []
    # oracle: the variable integrated over (0, x) must sit at the model position it belongs to
    if which == "cdf":
        for k, (lo, hi) in enumerate(call["ranges"]):
            pos = int(np.argwhere(row == call["labels"][k])[0][0]) if np.any(row == call["labels"][k]) else -1
            if pos < 0 or hi != xrow[pos] or lo != 0:
                bad.append(("cdf_integrates_lower_left_orthant", f"nquad arg {k} range {(lo, hi)} lands at position {pos}, x={xrow}"))
    elif which == "marginal_cdf":
        k = len(call["ranges"]) - 1
        lo, hi = call["ranges"][k]
        pos = int(np.argwhere(row == call["labels"][k])[0][0]) if np.any(row == call["labels"][k]) else -1
        if not (pos == dim and lo == 0 and hi == xq):
            bad.append(("marginal_cdf_integrates_requested_variable", f"finite range {(lo, hi)} lands at position {pos}, dim={dim}"))
        for k2, (lo2, hi2) in enumerate(call["ranges"][:-1]):
            if not (lo2 == 0 and hi2 == np.inf):
                bad.append(("marginal_cdf_other_variables_full_range", f"arg {k2} range {(lo2, hi2)}"))
    else:
        if row[dim] != xq:
            bad.append(("marginal_pdf_evaluates_at_x", f"position {dim} holds {row[dim]!r}, x={xq!r}"))
        for k2, (lo2, hi2) in enumerate(call["ranges"]):
            if not (lo2 == 0 and hi2 == np.inf):
                bad.append(("marginal_pdf_other_variables_full_range", f"arg {k2} range {(lo2, hi2)}"))
    if sorted(row.tolist()) != sorted(args):
        bad.append(("every_argument_used_once", f"row {row.tolist()} args {args}"))
    for pred, detail in bad:
        ck.fail({"entry": "GlobalHierarchicalModel." + which, "predicate": pred}, case, detail)
    if not bad and (mrow is None or not np.array_equal(mrow, row)):
        ck.diverge("nquad-plan", case, f"row reaching pdf {row.tolist()} model {None if mrow is None else mrow.tolist()}")


# --------------------------------------------------------------------------- (C) runtime-only clauses

def process_integrals(ck, rng, table):
    from scipy import integrate

    m = models.random_fam_model(rng, n_dim=2) if table else doubles.random_model(rng, n_dim=2)
    if not table:
        # location-free doubles only: a location parameter makes the density jump along a curve inside the
        # integration domain and nested adaptive quadrature (the code's and the reference's alike) is then only
        # good to ~1e-3, which says nothing about the property
        m.l = [doubles.Dep("fixed", [0.0]) for _ in m.l]
    model = m.build()
    case = {"part": "C", "mode": "table" if table else "doubles", "model": m.describe()}
    ck.case(case, nontrivial=m.n_dependent() >= 1, sample=False)
    ck.count("part=C")
    bad = []
    with np.errstate(all="ignore"), warnings.catch_warnings():
        warnings.simplefilter("ignore")
        if table:
            tot, _ = integrate.nquad(lambda y, x: float(model.pdf([[x, y]])[0]), [(0, np.inf), (0, np.inf)],
                                     opts={"limit": 60})
            if abs(tot - 1) > 2e-4:
                bad.append(("pdf_integrates_to_one", f"integral {tot!r}"))
        smp = model.draw_sample(4000, random_state=int(rng.integers(0, 2**31)))
        x = np.array([[float(np.quantile(smp[:, 0], 0.6)), float(np.quantile(smp[:, 1], 0.7))]])
        c = float(model.cdf(x)[0])
        ref, _ = integrate.nquad(lambda y, xx: float(model.pdf([[xx, y]])[0]), [(0, x[0, 1]), (0, x[0, 0])])
        # both numbers are nested adaptive quadratures of a density with kinks (integration order differs):
        # agreement is expected within quadrature error only
        if abs(c - ref) > 2e-4:
            bad.append(("cdf_is_integral_of_pdf", f"cdf {c!r} quadrature {ref!r} at {x.tolist()}"))
        # several rows in one call (rotated order, one duplicate): one value per row, each what the row gives alone
        pts = np.array([[float(np.quantile(smp[:, 0], q0)), float(np.quantile(smp[:, 1], q1))]
                        for q0, q1 in ((0.3, 0.4), (0.6, 0.7), (0.8, 0.5))])
        single = np.array([float(model.cdf(pts[k:k + 1])[0]) for k in range(3)])
        order = [1, 2, 0, 1]
        multi = np.asarray(model.cdf(pts[order]), dtype=float)
        if multi.shape != (4,) or not np.allclose(multi, single[order], rtol=1e-9, atol=1e-12):
            bad.append(("cdf_one_value_per_row_in_input_order",
                        f"cdf(rows {order} of {pts.tolist()}) = {multi.tolist()}, row by row {single[order].tolist()}"))
        # marginal consistency for the conditional variable (Monte-Carlo icdf vs quadrature cdf)
        dim = 1
        if model.conditional_on[dim] is not None:
            p = 0.8
            q = float(np.asarray(model.marginal_icdf([p], dim)).ravel()[0])
            back = float(np.asarray(model.marginal_cdf(np.array([q]), dim)).ravel()[0])
            n_mc = 100000
            eps = math.sqrt(math.log(2 / 1e-12) / (2 * n_mc)) + 1e-3  # DKW + quantile interpolation slack
            if abs(back - p) > eps:
                bad.append(("marginal_cdf_of_marginal_icdf", f"p={p} icdf={q!r} cdf back={back!r} eps={eps:.4f}"))
        # integer-valued evaluation points must give the same marginals as the same values as floats
        if model.conditional_on[dim] is not None:
            xi = [int(max(1, round(float(np.quantile(smp[:, dim], 0.5)))))]
            for name in ("marginal_pdf", "marginal_cdf"):
                a = np.asarray(getattr(model, name)(np.array(xi), dim), dtype=float)
                b = np.asarray(getattr(model, name)(np.array(xi, dtype=float), dim), dtype=float)
                if not np.allclose(a, b, rtol=1e-9, atol=0, equal_nan=True):
                    bad.append((name + "_integer_input", f"{name}({xi}) = {a.tolist()} but {b.tolist()} for the same values as floats"))
    for pred, detail in bad:
        ck.fail({"entry": "GlobalHierarchicalModel", "predicate": pred}, case, detail)


def process_history(ck, rng):
    """history clause: marginal_icdf of a conditional variable after the model has been RE-FITTED to other data
    must describe the re-fitted model (what a fresh model fitted to the same data gives), not an earlier state"""
    from virocon import (DependenceFunction, GlobalHierarchicalModel, LogNormalDistribution, WeibullDistribution,
                         WidthOfIntervalSlicer)

    def dep(func, pars):
        d = DependenceFunction(func)
        d.parameters = dict(zip(d.parameters.keys(), pars))
        return d

    gen = GlobalHierarchicalModel([
        {"distribution": WeibullDistribution(2.0, 1.6)},
        {"distribution": LogNormalDistribution(), "conditional_on": 0,
         "parameters": {"mu": dep(models._lnsquare2, [2.0, 4.0]), "sigma": dep(models._asym3, [0.1, 0.3, 0.4])}}])
    seed = int(rng.integers(0, 2**31))
    a = gen.draw_sample(1500, random_state=seed)
    b = a * np.array([float(rng.uniform(1.5, 2.0)), float(rng.uniform(1.8, 2.6))])

    def build():
        return GlobalHierarchicalModel([
            {"distribution": WeibullDistribution(), "intervals": WidthOfIntervalSlicer(1.0, min_n_points=30)},
            {"distribution": LogNormalDistribution(), "conditional_on": 0,
             "parameters": {"mu": DependenceFunction(models._lnsquare2, bounds=[(0, None), (0, None)]),
                            "sigma": DependenceFunction(models._asym3, bounds=[(0.01, None), (0, None), (0, None)])}}])

    case = {"part": "H", "seed": seed, "history": "fit(A); marginal_icdf; fit(B); marginal_icdf  vs  fresh model fit(B); marginal_icdf"}
    ck.case(case, nontrivial=True, sample=False)
    ck.count("part=H-history")
    p = [0.1, 0.5, 0.9]
    with np.errstate(all="ignore"), warnings.catch_warnings():
        warnings.simplefilter("ignore")
        try:
            m = build()
            m.fit(a)
            m.marginal_icdf(p, 1)
            m.marginal_cdf(np.array([float(np.median(a[:, 1]))]), 0)
            m.fit(b)
            q_refit = np.asarray(m.marginal_icdf(p, 1), dtype=float)
            f = build()
            f.fit(b)
            q_fresh = np.asarray(f.marginal_icdf(p, 1), dtype=float)
        except (RuntimeError, ValueError):
            # the fitted dependence functions are not admissible everywhere (optimiser outcome): no history to judge
            ck.count("H_fit_failed")
            return
    emp = np.quantile(b[:, 1], p)
    if not np.allclose(q_refit, q_fresh, rtol=0.05):
        ck.fail({"entry": "GlobalHierarchicalModel.marginal_icdf", "predicate": "marginal_icdf_describes_current_model"}, case,
                f"after re-fitting to B: marginal_icdf({p}, 1) = {q_refit.tolist()}, a fresh model fitted to B gives "
                f"{q_fresh.tolist()} (empirical quantiles of B: {emp.tolist()})")


def main(ck):
    rng = np.random.default_rng(ck.seed)
    thorough = ck.tier == "thorough"
    ck.rule = ("(A) pdf of random hierarchical models (n_dim 2-4, doubles and shipped families) at random points in "
               "six input forms (2-D array, nested list, 1-D row, row list, integer list, integer array); (B) nquad "
               "argument placement for cdf / marginal_pdf / marginal_cdf over all (n_dim <= 4, dim) pairs; (C) a few "
               "quadrature / Monte-Carlo consistency runs; non-trivial = model with a dependent parameter; distinct by SHA1")
    ck.assumptions = ["leaf pdfs of shipped families are TABLE'd from constructed template instances",
                      "scipy.integrate.nquad integrates argument k over ranges[k] (its documented contract)"]
    ck.partial = {"cdf equals the integral of pdf": "nquad accuracy is runtime behaviour; validated on a few points per run",
                  "pdf integrates to one (continuous case)": "proved for finite supports (mass_one_discrete); quadrature validated at runtime",
                  "marginal_cdf(marginal_icdf(p)) = p": "Monte-Carlo; validated with a DKW band at runtime"}
    for case in gen_pdf_cases(rng, 4000 if thorough else 500):
        process_pdf(ck, case)
    for n_dim in (2, 3, 4):
        for dim in range(n_dim):
            for which in ("cdf", "marginal_pdf", "marginal_cdf"):
                for _ in range(6 if thorough else 2):
                    process_reorder(ck, rng, n_dim, dim, which)
    for k in range(12 if thorough else 2):
        process_integrals(ck, rng, table=(k % 2 == 0))
    for _ in range(6 if thorough else 1):
        process_history(ck, rng)


def replay(ck, payload):
    case = payload["case"]
    if case.get("part") == "A":
        process_pdf(ck, case)
    for s, c, d in ck.failures:
        print("oracle:", s, d)
    for op, c, d in ck.divergences:
        print("correspondence:", op, d)
    return not ck.failures
