"""
C17 - design conditions lie on the contour at the requested abscissa, top ordinate;
      `intersection` returns exactly the crossing points of two polylines.

Correspondence (every run): the real `virocon._intersection.intersection`,
`_rectangle_intersection_` and `virocon.utils.calculate_design_conditions` against the Lean
model `Model/Intersect.lean`, executed by the driver at Float and at Rat on the same doubles.
  * bounding-box candidate pairs: compared exactly (comparisons only, no rounding);
  * in-range decisions: compared exactly outside a rounding band around 0 and 1 that is computed
    from the exact (Rat) parameters; band 0 when the pair is *exact in binary64* (small dyadic
    coordinates, power-of-two direction components, dyadic parameters: every operation of an LU
    or Cramer solve is then exact);
  * coordinates: `np.linalg.solve` is a LAPACK leaf, compared within 1e-9 * M * |d1||d2|/|det|.
Oracle (on the implementation's own output, independent exact arithmetic with
`fractions.Fraction`): returned points lie on an edge of the closed polygon at the requested
abscissa, no robust crossing of the vertical line has a larger ordinate, omitted abscissae have
no robust crossing, default abscissae span the extent, swap_axis == exchanging the columns;
for `intersection`: every point lies on both polylines, every robust crossing is reported, the
number of points is between #robust and #robust+#fragile crossings, and every point can be assigned
a crossing pair of its own (a crossing reported twice is rejected).
Input classes (each with an evidence counter): calling conventions positional / keyword / mixed /
relying on the defaults; contour as stub, as `virocon.contours.Contour` subclass instance, as the
genuine IFORM/ISORM/direct-sampling object; float64 and int64/int32 coordinates; counts as Python int
and numpy integer scalars incl. 0 and 1; empty abscissa list (shape (0, 2) is a correspondence, not a
clause); already-closed contours and repeated vertices (singular 4x4 systems); `intersection` with
arrays, lists, tuples, (n,1) columns, integer arrays; NaN-broken curves (correspondence with the
model on the NaN-free pieces only). `coverage_floor`: a run that could not build the real contour
kinds of the quantifier is a MACHINERY-ERROR, not exit 0.
"""
import math
import multiprocessing
import warnings
from fractions import Fraction as Fr

import numpy as np

import core
from core import f2b, b2f, fl

EPS = 2.0 ** -52
BAND_K = 64.0  # band = BAND_K * eps * cond * (1 + M/len): measured worst case of LAPACK is 2.1
RTOL = 1e-9
TENTH = 0.1
SMALL = 0.0001


# --------------------------------------------------------------------------------------
# exactness certificate, bands, tolerances


def _small_dyadic(v, max_abs=2.0 ** 20, den_bits=10):
    v = float(v)
    if not math.isfinite(v) or abs(v) > max_abs:
        return False
    return (v * 2.0 ** den_bits) == math.floor(v * 2.0 ** den_bits)


def _pow2_or_zero(v):
    v = abs(float(v))
    if v == 0:
        return True
    m, _ = math.frexp(v)
    return m == 0.5


def _fr_small_dyadic(q, den_bits=10):
    d = q.denominator
    return d & (d - 1) == 0 and d <= 2 ** den_bits and abs(q.numerator) <= 2 ** 30


def _f(q):
    """float(Fraction) that saturates instead of raising"""
    try:
        return float(q)
    except OverflowError:
        return math.inf if q > 0 else -math.inf


def seg_exact(s):
    """segment (px,py,qx,qy): small dyadic coordinates, direction components 0 or +-2^k"""
    return all(_small_dyadic(v) for v in s) and _pow2_or_zero(s[2] - s[0]) and _pow2_or_zero(s[3] - s[1])


def pair_bands(s1, s2, t1, t2, cond):
    """rounding bands for (t1, t2) given exact parameters (Fractions); 0 in the exact regime"""
    M = max(abs(v) for v in s1 + s2)
    l1 = math.hypot(s1[2] - s1[0], s1[3] - s1[1])
    l2 = math.hypot(s2[2] - s2[0], s2[3] - s2[1])
    b1 = BAND_K * EPS * cond * (1 + M / l1) if l1 > 0 else math.inf
    b2 = BAND_K * EPS * cond * (1 + M / l2) if l2 > 0 else math.inf
    vertical2 = s2[0] == s2[2] and _small_dyadic(s2[0])
    if seg_exact(s1) and _fr_small_dyadic(t1):
        if seg_exact(s2) and _fr_small_dyadic(t2):
            return 0.0, 0.0, True
        if vertical2:
            return 0.0, b2, True
    return b1, b2, False


def classify(t, band):
    """'in' / 'out' / 'opt' for one parameter against the closed range [0, 1]"""
    lo = min(t, 1 - t)
    if band == 0.0:
        return "in" if (0 <= t <= 1) else "out"
    if lo > band:
        return "in"
    if lo < -band:
        return "out"
    return "opt"


def pair_status(s1, s2, sol):
    """sol = None (parallel) or dict(t1,t2,x,y) of Fractions -> (status, tol, exact)"""
    if sol is None:
        return "par", 0.0, False
    dx1, dy1, dx2, dy2 = s1[2] - s1[0], s1[3] - s1[1], s2[2] - s2[0], s2[3] - s2[1]
    det = Fr(dx2) * Fr(dy1) - Fr(dx1) * Fr(dy2)
    l1l2 = math.hypot(dx1, dy1) * math.hypot(dx2, dy2)
    cond = l1l2 / abs(_f(det)) if det != 0 and _f(det) != 0 else math.inf
    cond = max(cond, 1.0)
    M = max(abs(v) for v in s1 + s2)
    b1, b2, exact = pair_bands(s1, s2, sol["t1"], sol["t2"], cond)
    c1, c2 = classify(sol["t1"], b1), classify(sol["t2"], b2)
    if "out" in (c1, c2):
        st = "out"
    elif "opt" in (c1, c2):
        st = "opt"
    else:
        st = "in"
    tol = RTOL * cond * max(M, 1e-300)
    return st, tol, exact


# --------------------------------------------------------------------------------------
# driver answers


class Toks:
    def __init__(self, s):
        self.t = s.split()
        self.p = 0

    def next(self):
        v = self.t[self.p]
        self.p += 1
        return v

    def done(self):
        return self.p >= len(self.t)


def _num(tok, car):
    return b2f(tok) if car == "F" else Fr(tok)


def parse_inter_body(tk, car):
    n = int(tk.next())
    cands = []
    for _ in range(n):
        i, j, s = int(tk.next()), int(tk.next()), tk.next()
        if s == "1":
            t1, t2, x, y = (_num(tk.next(), car) for _ in range(4))
            inr = tk.next() == "1"
            cands.append((i, j, {"t1": t1, "t2": t2, "x": x, "y": y, "inr": inr}))
        else:
            cands.append((i, j, None))
    npts = int(tk.next())
    pts = [(_num(tk.next(), car), _num(tk.next(), car)) for _ in range(npts)]
    return {"cands": cands, "pts": pts}


def parse_inter(ans, car):
    tk = Toks(ans)
    if tk.next() != "OK":
        return {"err": ans}
    return parse_inter_body(tk, car)


def parse_design(ans, car):
    tk = Toks(ans)
    if tk.next() != "OK":
        return {"err": tk.next() if not tk.done() else "?"}
    n = int(tk.next())
    steps = [b2f(tk.next()) for _ in range(n)]
    ylo, yhi = b2f(tk.next()), b2f(tk.next())
    cover = tk.next() == "1"   # probeCovers closed ylo yhi at this carrier (hypothesis of design_core_*_covered)
    nres = int(tk.next())
    res = [(_num(tk.next(), car), _num(tk.next(), car)) for _ in range(nres)]
    ns = int(tk.next())
    per = [parse_inter_body(tk, car) for _ in range(ns)]
    return {"steps": steps, "ylo": ylo, "yhi": yhi, "cover": cover, "res": res, "per": per}


# --------------------------------------------------------------------------------------
# implementation runners


class _Contour:
    """duck-typed stand-in: only the attribute `coordinates` (float64 unless a dtype is given)"""

    def __init__(self, coords, dtype=float):
        self.coordinates = np.array(coords, dtype=dtype).reshape(-1, 2)


# genuine contour objects built by `real_contours` in this process: key -> IFORMContour / ISORMContour / ...
# (a replay in another process has no such object and rebuilds a `virocon.contours.Contour` subclass instance
# with the same coordinates)
_OBJ = {}
_GIVEN = []


def _given_contour(arr):
    """a real `virocon.contours.Contour` (subclass instance) whose `_compute` sets the given coordinates"""
    if not _GIVEN:
        from virocon.contours import Contour

        class GivenContour(Contour):
            def __init__(self, coordinates):
                self.model = None
                self.alpha = None
                self._given = coordinates
                super().__init__()

            def _compute(self):
                self.coordinates = self._given

        _GIVEN.append(GivenContour)
    return _GIVEN[0](arr)


def contour_object(coords, contour="stub", cdtype="float", objkey=None):
    """the object handed to calculate_design_conditions: `stub` (duck-typed), `real` (Contour subclass instance),
    `genuine` (the IFORM/ISORM/direct-sampling contour object itself); cdtype int64/int32: integral coordinates
    stored in an integer array"""
    arr = np.array(coords, dtype=float).reshape(-1, 2)
    if cdtype in ("int64", "int32"):
        ia = arr.astype(cdtype)
        if not np.array_equal(ia.astype(float), arr):
            raise core.MachineryError("C17 harness: integer coordinate dtype requested for non-integral coordinates")
        arr = ia
    if contour == "genuine":
        obj = _OBJ.get(objkey)
        if obj is not None:
            oc = np.asarray(obj.coordinates)
            if oc.shape == arr.shape and oc.dtype == arr.dtype and np.array_equal(oc, arr):
                return obj, "genuine"
        contour = "real"
    if contour == "real":
        try:
            return _given_contour(arr), "real"
        except Exception:  # noqa: BLE001  (the Contour base class is not the object of this check; `coverage_floor`
            return _Contour(arr, dtype=arr.dtype), "real_unavailable"   # raises when no case ran on a real object)
    return _Contour(arr, dtype=arr.dtype), "stub"


FORMS = ("array", "list", "tuple", "col", "int")


def curve_args(case):
    """the four coordinate sequences in the container the case asks for: float arrays (default), Python lists / tuples,
    (n, 1) column arrays, integer arrays (whole-number coordinates only)"""
    arrs = [np.array(case[k], dtype=float) for k in ("x1", "y1", "x2", "y2")]
    form = case.get("form", "array")
    if form == "list":
        return [a.tolist() for a in arrs], form
    if form == "tuple":
        return [tuple(a.tolist()) for a in arrs], form
    if form == "col":
        return [a.reshape(-1, 1) for a in arrs], form
    if form == "int":
        if all(np.all(np.isfinite(a)) and np.all(a == np.floor(a)) and np.abs(a).max(initial=0) < 2 ** 40 for a in arrs):
            return [a.astype(np.int64) for a in arrs], form
        return arrs, "array"
    return arrs, "array"


def impl_inter(case):
    from virocon import _intersection as I

    x1, y1, x2, y2 = (np.array(case[k], dtype=float) for k in ("x1", "y1", "x2", "y2"))
    args, form = curve_args(case)
    try:
        with warnings.catch_warnings():
            warnings.simplefilter("ignore")
            ii, jj = I._rectangle_intersection_(x1, y1, x2, y2)
            x, y = I.intersection(*args)
            x, y = np.asarray(x, dtype=float), np.asarray(y, dtype=float)
            if x.ndim != 1 or y.ndim != 1 or x.shape != y.shape:
                return {"err": "shape", "msg": f"x {x.shape}, y {y.shape}", "form": form}
    except Exception as e:  # noqa: BLE001
        return {"err": type(e).__name__, "msg": str(e)[:200], "form": form}
    return {"cand": [(int(a), int(b)) for a, b in zip(ii, jj)],
            "pts": [(float(a), float(b)) for a, b in zip(x, y)], "form": form}


def _steps_arg(spec):
    if spec[0] == "D":
        return None
    if spec[0] == "N":
        form = spec[2] if len(spec) > 2 else "int"
        if form in ("int64", "int32", "intp", "uint8"):   # numpy integer scalars: numbers, not iterable
            return getattr(np, form)(int(spec[1]))
        return int(spec[1])
    form = spec[2] if len(spec) > 2 else "list"
    if form == "intlist":  # whole-number abscissae as Python ints
        return [int(v) for v in spec[1]]
    if form == "intarr":
        return np.array([int(v) for v in spec[1]], dtype=np.int64)
    if form == "inttuple":
        return tuple(int(v) for v in spec[1])
    if form == "arr":
        return np.array(spec[1], dtype=float)
    if form == "tuple":
        return tuple(float(v) for v in spec[1])
    return [float(v) for v in spec[1]]


CALLS = ("pos_kw", "pos", "kw", "defaults")


def call_design(f, contour, spec, swap, call="pos_kw"):
    """the calling conventions of calculate_design_conditions(contour, steps=None, swap_axis=False)"""
    steps = _steps_arg(spec)
    swap = bool(swap)
    if call == "pos":
        return f(contour, steps, swap)
    if call == "kw":
        return f(swap_axis=swap, steps=steps, contour=contour)
    if call == "defaults":   # rely on the documented defaults steps=None, swap_axis=False wherever they apply
        kw = {}
        if spec[0] != "D":
            kw["steps"] = steps
        if swap:
            kw["swap_axis"] = True
        return f(contour, **kw)
    return f(contour, steps, swap_axis=swap)


def impl_design(coords, spec, swap, reuse=False, call="pos_kw", contour="stub", cdtype="float", objkey=None):
    from virocon.utils import calculate_design_conditions

    cobj, used = contour_object(coords, contour, cdtype, objkey)   # harness-side: errors here are machinery errors
    try:
        with warnings.catch_warnings():
            warnings.simplefilter("ignore")
            if reuse:
                # history: the same contour object has already been asked for design conditions, with the other
                # and with the same swap_axis; the evaluated call must behave as on a fresh contour
                for sw in (not swap, swap):
                    try:
                        calculate_design_conditions(cobj, _steps_arg(spec), swap_axis=sw)
                    except Exception:  # noqa: BLE001
                        pass
            dc = call_design(calculate_design_conditions, cobj, spec, swap, call)
    except Exception as e:  # noqa: BLE001
        return {"err": type(e).__name__, "msg": str(e)[:200], "contour_used": used}
    try:
        raw = np.asarray(dc)
        shape = tuple(int(v) for v in raw.shape)
        kind = raw.dtype.kind
        dc = np.asarray(dc, dtype=float)
    except Exception as e:  # noqa: BLE001
        return {"err": "result_not_numeric", "msg": f"{type(e).__name__}: {e}"[:200], "contour_used": used}
    if dc.size == 0:
        return {"res": [], "shape": shape, "contour_used": used}
    if dc.ndim != 2 or dc.shape[1] != 2:
        return {"err": "shape", "msg": str(dc.shape), "contour_used": used}
    return {"res": [(float(a), float(b)) for a, b in dc], "shape": shape, "dtype_kind": kind, "contour_used": used}


def design_opts(case):
    return {k: case[k] for k in ("call", "contour", "cdtype", "objkey") if k in case}


# --------------------------------------------------------------------------------------
# model lines


def inter_lines(case):
    body = fl(case["x1"]) + fl(case["y1"]) + fl(case["x2"]) + fl(case["y2"])
    return [["RUN", "c17_inter", "F"] + body, ["RUN", "c17_inter", "Q"] + body]


def design_lines(coords, spec, swap):
    c = np.array(coords, dtype=float).reshape(-1, 2)
    if spec[0] == "D":
        st = ["D"]
    elif spec[0] == "N":
        st = ["N", str(int(spec[1]))]
    else:
        st = ["L"] + fl(spec[1])
    body = [str(f2b(TENTH)), str(f2b(SMALL)), "1" if swap else "0"] + st + fl(c[:, 0]) + fl(c[:, 1])
    return [["RUN", "c17_design", "F"] + body, ["RUN", "c17_design", "Q"] + body]


# --------------------------------------------------------------------------------------
# correspondence: intersection


def poly_segs(xs, ys):
    return [(float(xs[k]), float(ys[k]), float(xs[k + 1]), float(ys[k + 1])) for k in range(len(xs) - 1)]


def statuses(S1, S2, q):
    out = []
    for (i, j, sol) in q["cands"]:
        st, tol, exact = pair_status(S1[i], S2[j], sol)
        out.append((i, j, sol, st, tol, exact))
    return out


def match_points(pts, stats, label):
    """in-order matching of a reported point list against classified candidates ('in' must be
    matched, 'opt' may be matched, 'out'/'par' never): dynamic programme over (candidate, point).
    returns None or a description of the first disagreement (from the greedy pass)"""
    cs = [c for c in stats if c[3] in ("in", "opt", "par")]

    def hit(c, k):
        sol, tol = c[2], c[4]
        if sol is None:
            return True  # singular system: whatever the solver returns is judged by the oracle only
        return abs(pts[k][0] - sol["x"]) <= tol and abs(pts[k][1] - sol["y"]) <= tol

    n, m = len(cs), len(pts)
    # ok[c][k]: candidates c.. can account for points k..
    ok = [[False] * (m + 1) for _ in range(n + 1)]
    ok[n][m] = True
    for c in range(n - 1, -1, -1):
        for k in range(m, -1, -1):
            v = False
            if k < m and hit(cs[c], k) and ok[c + 1][k + 1]:
                v = True
            if not v and cs[c][3] in ("opt", "par") and ok[c + 1][k]:
                v = True
            ok[c][k] = v
    if ok[0][0]:
        return None
    k = 0
    for (i, j, sol, st, tol, exact) in cs:
        if st == "par":
            continue
        h = k < m and hit((i, j, sol, st, tol, exact), k)
        if st == "in":
            if not h:
                got = pts[k] if k < m else None
                return (f"{label}: crossing of segments ({i},{j}) at ({float(sol['x'])!r},{float(sol['y'])!r}) "
                        f"t=({float(sol['t1'])!r},{float(sol['t2'])!r}) exact={exact} not reported at position {k} (got {got})")
            k += 1
        elif h:
            k += 1
    if k != m:
        return f"{label}: reported point {pts[k]} (position {k}) has no in-range candidate pair"
    return f"{label}: reported points cannot be matched in order to the in-range candidate pairs"


def compare_inter(case, impl, mF, mQ):
    if "err" in impl:
        return f"implementation raised {impl['err']}: {impl.get('msg')}"
    if "err" in mF or "err" in mQ:
        return f"model error {mF.get('err') or mQ.get('err')}"
    cF = [(i, j) for i, j, _ in mF["cands"]]
    cQ = [(i, j) for i, j, _ in mQ["cands"]]
    if cF != cQ:
        return "model: bounding-box candidates differ between Float and Rat"
    if impl["cand"] != cF:
        a, b = set(impl["cand"]), set(cF)
        return (f"bounding-box candidates differ: impl-only {sorted(a - b)[:4]} model-only {sorted(b - a)[:4]}"
                f" (impl {len(impl['cand'])}, model {len(cF)})")
    S1, S2 = poly_segs(case["x1"], case["y1"]), poly_segs(case["x2"], case["y2"])
    stats = statuses(S1, S2, mQ)
    # Float model vs Rat model (the model itself, executed in doubles)
    d = match_points(mF["pts"], stats, "float-model")
    if d is not None:
        return d
    for (i, j, sol, st, tol, exact), (_, _, sf) in zip(stats, mF["cands"]):
        if sol is not None and sf is not None and st in ("in", "out") and sf["inr"] != (st == "in"):
            return f"float-model in-range flag of ({i},{j}) is {sf['inr']} but exact status is {st}"
    # Rat model: intersect == in-range candidates
    nq = sum(1 for (_, _, s) in mQ["cands"] if s is not None and s["inr"])
    if nq != len(mQ["pts"]):
        return "model: intersect differs from the in-range candidates"
    return match_points(impl["pts"], stats, "impl")


# --------------------------------------------------------------------------------------
# oracle: intersection (independent exact arithmetic)


def _pt_seg_dist2(px, py, s):
    """exact squared distance of the point to the segment"""
    ax, ay, bx, by = (Fr(v) for v in s)
    px, py = Fr(px), Fr(py)
    dx, dy = bx - ax, by - ay
    L = dx * dx + dy * dy
    if L == 0:
        t = Fr(0)
    else:
        t = ((px - ax) * dx + (py - ay) * dy) / L
        t = max(Fr(0), min(Fr(1), t))
    qx, qy = ax + t * dx, ay + t * dy
    return (px - qx) ** 2 + (py - qy) ** 2


def _near_any(px, py, segs, tol):
    if not math.isfinite(tol):
        return True
    t2 = Fr(tol) ** 2
    # float prefilter on bounding boxes
    for s in segs:
        if (min(s[0], s[2]) - tol <= px <= max(s[0], s[2]) + tol
                and min(s[1], s[3]) - tol <= py <= max(s[1], s[3]) + tol):
            if _pt_seg_dist2(px, py, s) <= t2:
                return True
    return False


def exact_crossings(S1, S2):
    """all non-parallel segment pairs with exact parameters near or inside [0,1]^2:
    list of (i, j, t1, t2, x, y, status, tol, exact)"""
    if not S1 or not S2:
        return []
    A = np.array(S1)
    B = np.array(S2)
    dx1, dy1 = (A[:, 2] - A[:, 0])[:, None], (A[:, 3] - A[:, 1])[:, None]
    dx2, dy2 = (B[:, 2] - B[:, 0])[None, :], (B[:, 3] - B[:, 1])[None, :]
    ex, ey = B[:, 0][None, :] - A[:, 0][:, None], B[:, 1][None, :] - A[:, 1][:, None]
    with np.errstate(all="ignore"):
        det = dx2 * dy1 - dx1 * dy2
        t1 = (dx2 * ey - dy2 * ex) / det
        t2 = (dx1 * ey - dy1 * ex) / det
        cond = np.hypot(dx1, dy1) * np.hypot(dx2, dy2) / np.abs(det)
        near = ((t1 > -1e-3) & (t1 < 1 + 1e-3) & (t2 > -1e-3) & (t2 < 1 + 1e-3)) | (cond > 1e5) | ~np.isfinite(t1) | ~np.isfinite(t2)
    out = []
    for i, j in zip(*np.nonzero(near)):
        s1, s2 = S1[i], S2[j]
        fdx1, fdy1 = Fr(s1[2]) - Fr(s1[0]), Fr(s1[3]) - Fr(s1[1])
        fdx2, fdy2 = Fr(s2[2]) - Fr(s2[0]), Fr(s2[3]) - Fr(s2[1])
        D = fdx2 * fdy1 - fdx1 * fdy2
        if D == 0:
            out.append((int(i), int(j), None, None, None, None, "par", 0.0, False))
            continue
        fex, fey = Fr(s2[0]) - Fr(s1[0]), Fr(s2[1]) - Fr(s1[1])
        T1 = (fdx2 * fey - fdy2 * fex) / D
        T2 = (fdx1 * fey - fdy1 * fex) / D
        # np.diff computes the direction in doubles; the code's system uses those rounded
        # directions, the geometric crossing uses the exact ones: both agree within the tolerance
        X, Y = Fr(s1[0]) + fdx1 * T1, Fr(s1[1]) + fdy1 * T1
        st, tol, exact = pair_status(s1, s2, {"t1": T1, "t2": T2})
        if st != "out":
            out.append((int(i), int(j), T1, T2, X, Y, st, tol, exact))
    return out


def _saturating(adj, n_right):
    """Kuhn's augmenting paths: size of a maximum matching of the left vertices (adjacency lists) into the right ones"""
    owner = [-1] * n_right

    def aug(u, seen):
        for v in adj[u]:
            if v in seen:
                continue
            seen.add(v)
            if owner[v] < 0 or aug(owner[v], seen):
                owner[v] = u
                return True
        return False

    # cheap pass first (almost every point has exactly one free partner)
    size = 0
    todo = []
    for u in range(len(adj)):
        for v in adj[u]:
            if owner[v] < 0:
                owner[v] = u
                size += 1
                break
        else:
            todo.append(u)
    for u in todo:
        if adj[u] and aug(u, set()):
            size += 1
    return size


def _boxes_touch(s1, s2):
    return (min(s1[0], s1[2]) <= max(s2[0], s2[2]) and min(s2[0], s2[2]) <= max(s1[0], s1[2])
            and min(s1[1], s1[3]) <= max(s2[1], s2[3]) and min(s2[1], s2[3]) <= max(s1[1], s1[3]))


def one_point_per_crossing(pts, cr, S1, S2, worst):
    """'exactly the crossing points': every returned point is accounted for by a crossing pair of its own (robust,
    borderline, or a parallel pair whose segments touch there), and every robust crossing pair by a point of its own.
    Returns None or a description."""
    if not pts:
        return None
    P = np.array(pts, dtype=float).reshape(-1, 2)
    ok = np.isfinite(P).all(axis=1)
    pairs = [c for c in cr if c[6] in ("in", "opt")]
    adj = [[] for _ in pts]
    if pairs:
        X = np.array([_f(c[4]) for c in pairs])
        Y = np.array([_f(c[5]) for c in pairs])
        T = np.array([c[7] for c in pairs]) * (1 + 1e-6) + 1e-300
        with np.errstate(all="ignore"):
            near = (np.abs(P[:, 0][:, None] - X[None, :]) <= T[None, :]) & (np.abs(P[:, 1][:, None] - Y[None, :]) <= T[None, :])
        for u, v in zip(*np.nonzero(near)):
            adj[int(u)].append(int(v))
    n_right = len(pairs)
    # exactly parallel pairs are solved only when their bounding boxes touch; the singular system may then yield anything
    # that lies on both segments
    for c in cr:
        if c[6] == "par" and _boxes_touch(S1[c[0]], S2[c[1]]):
            got = False
            for u, (px, py) in enumerate(pts):
                if ok[u] and _near_any(px, py, [S1[c[0]]], worst) and _near_any(px, py, [S2[c[1]]], worst):
                    adj[u].append(n_right)
                    got = True
            if got:
                n_right += 1
    m = _saturating(adj, n_right)
    if m < len(pts):
        free = [pts[u] for u in range(len(pts)) if not adj[u]]
        return (f"{len(pts)} points returned but only {m} of them can be assigned to crossing pairs of their own "
                f"({sum(1 for c in pairs if c[6] == 'in')} robust, {sum(1 for c in pairs if c[6] == 'opt')} borderline, "
                f"{n_right - len(pairs)} touching parallel pairs): a crossing is reported more than once or a point is no "
                f"crossing" + (f"; e.g. {free[0]}" if free else f"; points {pts[:4]}"))
    # the other direction: robust pairs -> points
    rob = [k for k, c in enumerate(pairs) if c[6] == "in"]
    if rob:
        radj = [[] for _ in rob]
        pos = {k: n for n, k in enumerate(rob)}
        for u in range(len(pts)):
            for v in adj[u]:
                if v in pos:
                    radj[pos[v]].append(u)
        m = _saturating(radj, len(pts))
        if m < len(rob):
            return (f"{len(rob)} robust crossing pairs but only {m} of them can be assigned returned points of their own "
                    f"({len(pts)} points returned)")
    return None


def oracle_inter(case, impl):
    bad = []
    if "err" in impl:
        return [("no_exception", f"{impl['err']}: {impl.get('msg')}")]
    S1, S2 = poly_segs(case["x1"], case["y1"]), poly_segs(case["x2"], case["y2"])
    M = max([abs(v) for s in S1 + S2 for v in s] + [1e-300])
    cr = exact_crossings(S1, S2)
    worst = max([c[7] for c in cr if c[6] in ("in", "opt") and math.isfinite(c[7])] + [RTOL * M])
    for (x, y) in impl["pts"]:
        if not (math.isfinite(x) and math.isfinite(y)):
            bad.append(("point_on_both", f"non-finite point ({x!r},{y!r})"))
            continue
        if not _near_any(x, y, S1, worst):
            bad.append(("point_on_both", f"returned point ({x!r},{y!r}) is not on the first polyline (tol {worst:.3g})"))
        elif not _near_any(x, y, S2, worst):
            bad.append(("point_on_both", f"returned point ({x!r},{y!r}) is not on the second polyline (tol {worst:.3g})"))
    n_in = 0
    n_opt = 0
    for (i, j, T1, T2, X, Y, st, tol, exact) in cr:
        if st == "in":
            n_in += 1
            if not any(abs(px - X) <= tol and abs(py - Y) <= tol for (px, py) in impl["pts"]):
                bad.append(("crossing_reported",
                            f"segments ({i},{j}) cross at ({float(X)!r},{float(Y)!r}) (t1={float(T1)!r}, t2={float(T2)!r}, "
                            f"exact-regime={exact}) but no returned point is there"))
        elif st == "opt":
            n_opt += 1
    # exactly parallel pairs: the system is singular, LAPACK raises or returns anything; a point reported
    # for such a pair must still lie on both polylines (checked above)
    n_par_touch = sum(1 for c in cr if c[6] == "par")
    if not (n_in <= len(impl["pts"]) <= n_in + n_opt + n_par_touch):
        bad.append(("count", f"{len(impl['pts'])} points returned, {n_in} robust and {n_opt} borderline crossing pairs"))
    elif not bad:
        d = one_point_per_crossing(impl["pts"], cr, S1, S2, worst)
        if d is not None:
            bad.append(("count", d))
    return bad[:4]


# --------------------------------------------------------------------------------------
# correspondence + oracle: design conditions


def closed_cols(coords, swap):
    c = np.array(coords, dtype=float).reshape(-1, 2)
    xi, yi = (1, 0) if swap else (0, 1)
    x1 = np.append(c[:, xi], c[0, xi])
    y1 = np.append(c[:, yi], c[0, yi])
    return x1, y1


def check_step(y_impl, stats, who):
    """y_impl: None (omitted) or float; stats: classified candidates of this abscissa"""
    ins = [(s[2], s[4]) for s in stats if s[3] == "in"]
    opts = [(s[2], s[4]) for s in stats if s[3] == "opt"]
    if y_impl is None:
        if ins:
            sol, _ = max(ins, key=lambda p: p[0]["y"])
            return f"{who}: abscissa omitted although an edge crosses it robustly at y={float(sol['y'])!r} (t1={float(sol['t1'])!r}, t2={float(sol['t2'])!r})"
        return None
    # (a singular pair - an edge parallel to the probe line or a zero-length edge - never contributes: LinAlgError ->
    #  T = inf -> not in range, so the reported ordinate must still be one of the in-range crossings)
    if not ins and not opts:
        return f"{who}: ordinate {y_impl!r} reported but no candidate edge is in range"
    if ins:
        sol, tol = max(ins, key=lambda p: p[0]["y"])
        if y_impl < sol["y"] - tol:
            return f"{who}: ordinate {y_impl!r} is below the robust crossing at y={float(sol['y'])!r}"
    if not any(abs(y_impl - sol["y"]) <= tol for sol, tol in ins + opts):
        return f"{who}: ordinate {y_impl!r} matches no in-range crossing {[float(s['y']) for s, _ in ins + opts][:6]}"
    return None


def compare_design(coords, spec, swap, impl, mF, mQ):
    if "err" in mF or "err" in mQ:
        if "err" in impl:
            return None  # empty contour: both fail
        return f"model error {mF.get('err')} but implementation returned"
    if "err" in impl:
        return f"implementation raised {impl['err']}: {impl.get('msg')}"
    if not impl["res"] and tuple(impl.get("shape", (0, 2))) != (0, 2):
        return (f"empty result has shape {tuple(impl['shape'])}; the model's empty list of (abscissa, ordinate) rows "
                f"corresponds to an array of shape (0, 2)")
    steps = mF["steps"]
    if [f2b(v) for v in steps] != [f2b(v) for v in mQ["steps"]]:
        return "model: steps differ between carriers"
    x1, y1 = closed_cols(coords, swap)
    S1 = poly_segs(x1, y1)
    # hypothesis of the theorems design_core_*_covered, evaluated by the driver (exactly, carrier Q) on the very doubles
    # it hands to designCore: ylo < yhi and ylo <= every vertex ordinate <= yhi.  Required for every contour that is
    # not flat (a flat contour has a zero-length probe and is outside the property's quantifier); checked here also
    # independently on the doubles.
    if float(np.ptp(y1)) != 0.0:
        if not mQ["cover"] or not mF["cover"]:
            return (f"model: probe segment [{mF['ylo']!r}, {mF['yhi']!r}] does not cover the vertex ordinates "
                    f"[{float(np.min(y1))!r}, {float(np.max(y1))!r}] (probeCovers = {mQ['cover']}/{mF['cover']})")
        if not (mF["ylo"] < mF["yhi"] and mF["ylo"] <= float(np.min(y1)) and float(np.max(y1)) <= mF["yhi"]):
            return "model: probeCovers flag is set but the doubles do not satisfy ylo < yhi, ylo <= min y, max y <= yhi"
    # implementation abscissae must be a subsequence of the model's abscissae (bit-exact)
    res = impl["res"]
    k = 0
    yi = [None] * len(steps)
    for n, x2 in enumerate(steps):
        if k < len(res) and f2b(res[k][0]) == f2b(x2):
            yi[n] = res[k][1]
            k += 1
    if k != len(res):
        return (f"abscissa {res[k][0]!r} (row {k}) is not the next requested abscissa; "
                f"model abscissae {steps[:12]}")
    # Float model result as a subsequence as well
    resF = mF["res"]
    k = 0
    yF = [None] * len(steps)
    for n, x2 in enumerate(steps):
        if k < len(resF) and f2b(resF[k][0]) == f2b(x2):
            yF[n] = resF[k][1]
            k += 1
    if k != len(resF):
        return "float-model: abscissae are not a subsequence of the steps"
    # Rat model: designCore result == max over in-range candidates, per step
    kq = 0
    for n, x2 in enumerate(steps):
        S2 = [(x2, mF["ylo"], x2, mF["yhi"])]
        per = mQ["per"][n]
        if [(i, j) for i, j, _ in per["cands"]] != [(i, j) for i, j, _ in mF["per"][n]["cands"]]:
            return "model: candidates differ between carriers"
        stats = statuses(S1, S2, per)
        ysq = [p[1] for p in per["pts"]]
        if ysq:
            if kq >= len(mQ["res"]) or mQ["res"][kq] != (Fr(x2), max(ysq)):
                return "model: designCore differs from max over intersect"
            kq += 1
        d = check_step(yi[n], stats, f"impl, abscissa {x2!r}") or check_step(yF[n], stats, f"float-model, abscissa {x2!r}")
        if d is not None:
            return d
    if kq != len(mQ["res"]):
        return "model: designCore has extra rows"
    return None


def line_crossings(S1, x2):
    """exact crossings of the vertical line x = x2 with the non-vertical edges:
    list of (edge, t, y, status, tol, exact)"""
    out = []
    fx2 = Fr(x2)
    for e, s in enumerate(S1):
        ax, ay, bx, by = s
        if ax == bx:
            continue
        lo, hi = (ax, bx) if ax <= bx else (bx, ax)
        L = abs(bx - ax)
        M = max(abs(v) for v in s + (x2,))
        band = BAND_K * EPS * (1 + M / L) * max(1.0, math.hypot(bx - ax, by - ay) / L)
        exact = seg_exact(s) and _small_dyadic(x2)
        if exact:
            band = 0.0
        if x2 < lo - band * L or x2 > hi + band * L:
            continue
        t = (fx2 - Fr(ax)) / (Fr(bx) - Fr(ax))
        if exact and not _fr_small_dyadic(t):
            exact = False
            band = BAND_K * EPS * (1 + M / L) * max(1.0, math.hypot(bx - ax, by - ay) / L)
        st = classify(t, band)
        if st == "out":
            continue
        y = Fr(ay) + t * (Fr(by) - Fr(ay))
        tol = RTOL * max(M, abs(ay), abs(by), 1e-300) * max(1.0, math.hypot(bx - ax, by - ay) / L)
        out.append((e, t, y, st, tol, exact))
    return out


def oracle_design(coords, spec, swap, impl, model_steps):
    """property clauses on the implementation's own output"""
    if "err" in impl:
        if len(np.array(coords).reshape(-1, 2)) == 0:
            return []
        pred = "no_exception_any_number_of_crossings" if impl["err"] == "AssertionError" else "no_exception"
        return [(pred, f"{impl['err']}: {impl.get('msg')}")]
    bad = []
    x1, y1 = closed_cols(coords, swap)
    S1 = poly_segs(x1, y1)
    res = impl["res"]
    if spec[0] == "L":
        steps = [float(v) for v in spec[1]]
    else:
        # the property: default abscissae are evenly spaced over the contour's extent (computed here
        # independently of the model; matched to the returned rows within 1e-9 of the scale)
        num = 10 if spec[0] == "D" else int(spec[1])
        xmin, xmax = float(np.min(x1)), float(np.max(x1))
        lo, hi = xmin + SMALL * (xmax - xmin), xmax - SMALL * (xmax - xmin)
        steps = [lo + k * (hi - lo) / max(num - 1, 1) for k in range(num)]
    atol = 1e-9 * max(abs(float(np.min(x1))), abs(float(np.max(x1))), 1e-300)
    # requested abscissae, in order
    k = 0
    yi = [None] * len(steps)
    for n, x2 in enumerate(steps):
        if k < len(res) and (res[k][0] == x2 if spec[0] == "L" else abs(res[k][0] - x2) <= atol):
            yi[n] = res[k][1]
            steps[n] = res[k][0]
            k += 1
    if k != len(res):
        if spec[0] == "L":
            bad.append(("requested_abscissa", f"row {k} has abscissa {res[k][0]!r}, which is not the next requested one ({steps[:12]})"))
        else:
            # default abscissae: evenly spaced from xmin + 1e-4*span to xmax - 1e-4*span (grid computed above)
            bad.append(("default_span", f"row {k} has abscissa {res[k][0]!r}, which is not the next point of the evenly spaced "
                                        f"grid over the extent [{float(np.min(x1))!r}, {float(np.max(x1))!r}]: {steps[:12]}"))
        return bad
    ymax_poly, ymin_poly = float(np.max(y1)), float(np.min(y1))
    if ymax_poly == ymin_poly:
        # all vertices on one horizontal line: not a closed contour (no interior; every probe line would have to touch
        # the "contour" in a single point of a zero-length probe) - outside the property's quantifier
        return bad
    for n, x2 in enumerate(steps):
        cr = line_crossings(S1, x2)
        robust = [c for c in cr if c[3] == "in"]
        if yi[n] is None:
            if robust:
                c = max(robust, key=lambda c: c[2])
                bad.append(("omitted_has_no_crossing",
                            f"abscissa {x2!r} omitted but edge {c[0]} crosses it at y={float(c[2])!r} (t={float(c[1])!r}, exact-regime={c[5]})"))
            continue
        y = yi[n]
        tol0 = RTOL * max(abs(x2), abs(ymax_poly), abs(ymin_poly), 1e-300)
        # on the contour: distance to some edge within tolerance
        tol_on = max([c[4] for c in cr] + [tol0])
        if not (math.isfinite(y) and _near_any(x2, y, S1, tol_on)):
            bad.append(("on_contour", f"({x2!r},{y!r}) is not on any edge of the closed polygon (tol {tol_on:.3g})"))
            continue
        if robust:
            c = max(robust, key=lambda c: c[2])
            if y < c[2] - c[4]:
                bad.append(("top_ordinate",
                            f"at abscissa {x2!r} returned ordinate {y!r} but edge {c[0]} crosses at the larger y={float(c[2])!r} (t={float(c[1])!r}, exact-regime={c[5]})"))
    return bad[:4]


# --------------------------------------------------------------------------------------
# generators: polyline pairs


def gen_polyline(rng, n, kind, scale, off):
    if kind == "walk":
        p = np.cumsum(rng.normal(size=(n + 1, 2)), axis=0)
    elif kind == "curve":
        t = np.linspace(0, rng.uniform(2, 12), n + 1)
        a, b = rng.uniform(0.5, 3), rng.uniform(0, 2 * np.pi)
        p = np.c_[t * rng.uniform(0.3, 1.5) + 0.3 * np.sin(a * t + b), np.sin(t * rng.uniform(0.5, 2) + b) * rng.uniform(0.5, 3) + rng.uniform(-1, 1)]
    elif kind == "circle":
        t = np.linspace(0, 2 * np.pi * rng.uniform(0.5, 1.5), n + 1) + rng.uniform(0, 6)
        r = rng.uniform(1, 4)
        p = np.c_[r * np.cos(t) + rng.uniform(-2, 2), r * rng.uniform(0.5, 1.5) * np.sin(t) + rng.uniform(-2, 2)]
    else:
        p = rng.uniform(-3, 3, size=(n + 1, 2))
    return p * scale + off


def random_pair_cases(rng, n_cases, max_seg):
    for _ in range(n_cases):
        scale = float(10 ** rng.uniform(-2, 3))
        off = rng.choice([0.0, 0.0, 1.0, -1.0]) * float(10 ** rng.uniform(-1, 4)) * rng.uniform(0.5, 1, size=2)
        n1 = int(rng.integers(1, max_seg + 1)) if rng.random() < 0.7 else int(rng.integers(1, 6))
        n2 = int(rng.integers(1, max_seg + 1)) if rng.random() < 0.7 else int(rng.integers(1, 6))
        kinds = ["walk", "curve", "circle", "scatter"]
        p1 = gen_polyline(rng, n1, str(rng.choice(kinds)), scale, off)
        p2 = gen_polyline(rng, n2, str(rng.choice(kinds)), scale, off)
        yield {"kind": "inter", "gen": "random", "x1": p1[:, 0].tolist(), "y1": p1[:, 1].tolist(),
               "x2": p2[:, 0].tolist(), "y2": p2[:, 1].tolist()}


DIRS = [0, 1, -1, 2, -2, 4, -4]


def lattice_pair_cases(rng, n_cases):
    """small-integer polylines whose direction components are 0 or +-2^k (exact regime); the second
    polyline is steered through vertices / end points of the first one, shares end points, overlaps
    collinearly or runs parallel"""
    for _ in range(n_cases):
        n1 = int(rng.integers(1, 6))
        p1 = [rng.integers(-8, 9, 2)]
        for _k in range(n1):
            d = rng.choice(DIRS, 2)
            while not d.any():
                d = rng.choice(DIRS, 2)
            p1.append(p1[-1] + d)
        p1 = np.array(p1, dtype=float) * float(rng.choice([1, 0.5, 2, 8]))
        mode = int(rng.integers(0, 5))
        v = p1[int(rng.integers(0, len(p1)))] if mode != 4 else p1[-1 if rng.random() < 0.5 else 0]
        d = rng.choice(DIRS, 2).astype(float)
        while not d.any():
            d = rng.choice(DIRS, 2).astype(float)
        if mode in (0, 4):      # through a vertex / an end point at a dyadic parameter
            t = float(rng.choice([0, 0.25, 0.5, 0.75, 1]))
            a = v - t * d
            p2 = [a, a + d]
        elif mode == 1:          # shares an end point, then walks on
            p2 = [v, v + d]
            d2 = rng.choice(DIRS, 2).astype(float)
            if d2.any():
                p2.append(p2[-1] + d2)
        elif mode == 2:          # collinear overlap with one segment of p1
            k = int(rng.integers(0, len(p1) - 1))
            dd = p1[k + 1] - p1[k]
            a = p1[k] + 0.5 * dd
            p2 = [a, a + dd]
        else:                    # parallel, shifted
            k = int(rng.integers(0, len(p1) - 1))
            dd = p1[k + 1] - p1[k]
            sh = np.array([-dd[1], dd[0]]) * float(rng.choice([0.25, 0.5, 1]))
            p2 = [p1[k] + sh, p1[k + 1] + sh]
        p2 = np.array(p2, dtype=float)
        yield {"kind": "inter", "gen": "lattice", "x1": p1[:, 0].tolist(), "y1": p1[:, 1].tolist(),
               "x2": p2[:, 0].tolist(), "y2": p2[:, 1].tolist()}


def degenerate_float_cases(rng, n_cases):
    """float polylines deliberately out of general position: shared end points, a vertex of one on a
    segment of the other (up to rounding), collinear overlap, parallel"""
    for _ in range(n_cases):
        scale = float(10 ** rng.uniform(-1, 2))
        p1 = gen_polyline(rng, int(rng.integers(1, 8)), "walk", scale, rng.normal(size=2) * scale)
        mode = int(rng.integers(0, 4))
        k = int(rng.integers(0, len(p1) - 1))
        if mode == 0:
            v = p1[int(rng.integers(0, len(p1)))]
            p2 = np.array([v, v + rng.normal(size=2) * scale, v + rng.normal(size=2) * scale])
        elif mode == 1:
            d = rng.normal(size=2) * scale
            t = rng.uniform(0, 1)
            v = p1[int(rng.integers(0, len(p1)))]
            p2 = np.array([v - t * d, v - t * d + d])
        elif mode == 2:
            dd = p1[k + 1] - p1[k]
            p2 = np.array([p1[k] + 0.25 * dd, p1[k] + 1.5 * dd])
        else:
            dd = p1[k + 1] - p1[k]
            sh = np.array([-dd[1], dd[0]]) * rng.uniform(0.01, 0.5)
            p2 = np.array([p1[k] + sh, p1[k + 1] + sh])
        yield {"kind": "inter", "gen": "degenerate", "x1": p1[:, 0].tolist(), "y1": p1[:, 1].tolist(),
               "x2": p2[:, 0].tolist(), "y2": p2[:, 1].tolist()}


# --------------------------------------------------------------------------------------
# generators: contours / polygons and step specifications


def random_model(rng):
    from virocon import GlobalHierarchicalModel, WeibullDistribution, LogNormalDistribution, DependenceFunction

    a1, b1, c1 = 0.1 * rng.uniform(0.5, 4), 1.489 * rng.uniform(0.7, 1.3), 0.1901 * rng.uniform(0.6, 1.6)
    a2, b2, c2 = 0.04 * rng.uniform(0.5, 3), 0.1748 * rng.uniform(0.6, 1.5), -0.2243 * rng.uniform(0.5, 1.5)

    def _power3(x, a=a1, b=b1, c=c1):
        return a + b * x ** c

    def _exp3(x, a=a2, b=b2, c=c2):
        return a + b * np.exp(c * x)

    bounds = [(0, None), (0, None), (None, None)]
    d0 = {"distribution": WeibullDistribution(alpha=float(rng.uniform(1.0, 4.0)), beta=float(rng.uniform(0.9, 2.5)),
                                              gamma=float(rng.uniform(0.0, 2.0)))}
    d1 = {"distribution": LogNormalDistribution(), "conditional_on": 0,
          "parameters": {"mu": DependenceFunction(_power3, bounds), "sigma": DependenceFunction(_exp3, bounds)}}
    return GlobalHierarchicalModel([d0, d1])


REAL_KINDS = ("IFORM", "ISORM", "DS")


def real_contours(rng, n_models, thorough, ck=None):
    """IFORM / ISORM / direct-sampling contours of random 2-D models (and of predefined ones); returns
    (name, coords, objkey) with the contour object itself registered in `_OBJ[objkey]`. Construction failures are
    counted (and a floor is enforced by `coverage_floor`): a contour kind that can no longer be built must not
    silently disappear from the check."""
    from virocon import IFORMContour, ISORMContour, DirectSamplingContour
    from virocon import predefined

    def note(key):
        if ck is not None:
            ck.count(key)

    out = []
    models = []
    for _ in range(n_models):
        models.append(("weibull-lognormal", random_model(rng)))
    for getter in ("get_DNVGL_Hs_Tz", "get_OMAE2020_Hs_Tz", "get_OMAE2020_V_Hs", "get_DNVGL_Hs_U"):
        try:
            from virocon import GlobalHierarchicalModel
            dd, fd, sem = getattr(predefined, getter)()
            models.append((getter, GlobalHierarchicalModel(dd)))
            note("contour_model=predefined")
        except Exception as e:  # noqa: BLE001  (predefined models are not the object of this check)
            note("contour_model_failed=" + getter + ":" + type(e).__name__)
    for name, model in models:
        alpha = float(10 ** rng.uniform(-5, -1.3))
        for method in REAL_KINDS:
            note("contour_attempted=" + method)
            try:
                with warnings.catch_warnings():
                    warnings.simplefilter("ignore")
                    if method == "IFORM":
                        c = IFORMContour(model, alpha, n_points=int(rng.choice([7, 20, 45, 90, 180])))
                    elif method == "ISORM":
                        c = ISORMContour(model, alpha, n_points=int(rng.choice([8, 24, 60, 180])))
                    else:
                        n = 60000 if thorough else 15000
                        sample = model.draw_sample(n, random_state=int(rng.integers(0, 2 ** 31)))
                        c = DirectSamplingContour(model, max(alpha, 20.0 / n), deg_step=float(rng.choice([5, 10, 20, 45])),
                                                  sample=sample)
                coords = np.asarray(c.coordinates, dtype=float)
            except Exception as e:  # noqa: BLE001
                note("contour_failed=" + method + ":" + type(e).__name__)
                continue
            # (direct-sampling contours with far-away closing vertices are C03's subject, not used here)
            if (coords.ndim == 2 and coords.shape[1] == 2 and len(coords) >= 3 and np.all(np.isfinite(coords))
                    and np.abs(coords).max() < 1e4):
                key = f"{method}:{name}:{len(_OBJ)}"
                _OBJ[key] = c
                out.append((method + ":" + name, coords, key))
            else:
                note("contour_unusable=" + method)
    return out


def coverage_floor(ck):
    """every real contour kind of the quantifier (IFORM, ISORM, direct sampling) must have been built and used, and
    at least half of the attempted constructions must have succeeded; otherwise the run says nothing about them"""
    problems = []
    for kind in REAL_KINDS:
        built, tried = ck.dist.get("contour=" + kind, 0), ck.dist.get("contour_attempted=" + kind, 0)
        used = ck.dist.get("design:gen=" + kind, 0)
        if built == 0 or used == 0 or 2 * built < tried:
            why = sorted(k for k in ck.dist if k.startswith(("contour_failed=" + kind, "contour_unusable=" + kind)))
            problems.append(f"{kind}: {built} of {tried} contours built, {used} design cases ({', '.join(why) or 'no failure recorded'})")
    if ck.dist.get("design:contour_object=genuine", 0) == 0:
        problems.append("no design case was run on a genuine contour object")
    if ck.dist.get("design:contour_object=real", 0) == 0:
        problems.append("no design case was run on a virocon.contours.Contour subclass instance")
    if ck.dist.get("contour_model=predefined", 0) == 0:
        problems.append("no predefined model could be built")
    return problems


def star_polygon(rng):
    n = int(rng.choice([3, 4, 5, 6, 8, 12, 20, 40]))
    ang = np.sort(rng.uniform(0, 2 * np.pi, n))
    # keep it star-shaped w.r.t. the centre: consecutive angles differ by < pi
    if n >= 3:
        gaps = np.diff(np.append(ang, ang[0] + 2 * np.pi))
        if gaps.max() >= np.pi * 0.95:
            ang = np.linspace(0, 2 * np.pi, n, endpoint=False) + rng.uniform(0, 1)
    spiky = rng.random() < 0.6
    r = rng.uniform(0.2, 1.0, n) if spiky else rng.uniform(0.8, 1.0, n)
    scale = float(10 ** rng.uniform(-1, 2))
    mode = int(rng.integers(0, 4))
    if mode == 0:
        c = np.array([rng.uniform(2, 20), rng.uniform(2, 20)]) * scale
    elif mode == 1:
        c = rng.uniform(-3, 3, 2) * scale            # straddles the axes
    elif mode == 2:
        c = -np.array([rng.uniform(2, 20), rng.uniform(2, 20)]) * scale   # negative coordinates
    else:
        c = np.array([rng.uniform(2, 20), -rng.uniform(2, 20)]) * scale
    p = np.c_[c[0] + scale * r * np.cos(ang), c[1] + scale * r * rng.uniform(0.3, 1.5) * np.sin(ang)]
    if rng.random() < 0.3:
        p = p[::-1].copy()                              # clockwise
    return p


U8 = np.array([(1, 0), (1, 1), (0, 1), (-1, 1), (-1, 0), (-1, -1), (0, -1), (1, -1)], dtype=float)


def lattice_polygon(rng):
    """star-shaped lattice polygon: vertices c + r_k u_k on the 8 lattice directions, r_k in {1,2,4,8}"""
    r = rng.choice([1, 2, 4, 8], 8).astype(float)
    if rng.random() < 0.4:
        r[:] = rng.choice([1, 2, 4])
        r[1::2] = rng.choice([1, 2, 4])
    c = rng.integers(-12, 13, 2).astype(float)
    if rng.random() < 0.3:
        c = -np.abs(c) - 10
    p = c + U8 * r[:, None]
    if rng.random() < 0.3:
        keep = rng.random(8) < 0.7
        if keep.sum() >= 3:
            p = p[keep]
    return p * float(rng.choice([1, 1, 0.5, 4]))


def step_specs(rng, coords, swap, lattice=False):
    """None, ints, explicit lists inside / outside / through vertices / on the extremes"""
    c = np.asarray(coords)
    xs = c[:, 1 if swap else 0]
    lo, hi = float(xs.min()), float(xs.max())
    span = hi - lo
    specs = [("D",), ("N", int(rng.choice([0, 1, 2, 3, 5, 7, 20, 33])))]
    # the count as a numpy integer scalar (a number that is not a Python int)
    specs.append(("N", int(rng.choice([0, 1, 2, 4, 6, 10, 17])), str(rng.choice(["int64", "int32", "intp", "uint8"]))))
    # no abscissa requested at all
    specs.append(("L", [], str(rng.choice(["list", "arr", "tuple"]))))
    inside = np.sort(rng.uniform(lo, hi, int(rng.integers(1, 6)))).tolist()
    specs.append(("L", inside))
    mixed = [lo - 0.3 * span - 1e-3, float(rng.uniform(lo, hi)), hi + 0.2 * span + 1e-3, float(rng.uniform(lo, hi)),
             lo - 1e-9 * max(1, abs(lo)), hi + 1e-9 * max(1, abs(hi))]
    rng.shuffle(mixed)
    specs.append(("L", [float(v) for v in mixed]))
    verts = [float(v) for v in rng.choice(xs, size=min(len(xs), 4), replace=False)]
    specs.append(("L", verts + [lo, hi]))
    if lattice:
        k = 0.5 if (c * 2 % 2).any() else 1.0
        grid = np.arange(math.floor(lo) - 1, math.ceil(hi) + 2, k)
        specs.append(("L", [float(v) for v in grid]))
    else:
        specs.append(("L", [float(np.nextafter(v, s)) for v in verts[:2] for s in (-np.inf, np.inf)] + []))
    # whole-number abscissae handed over as integers (list / tuple / int64 array): the ordinates are still reals
    whole = [float(v) for v in range(math.ceil(lo), math.floor(hi) + 1)]
    if len(whole) > 12:
        whole = [float(v) for v in sorted(rng.choice(whole, size=12, replace=False))]
    if whole:
        specs.append(("L", whole, str(rng.choice(["intlist", "intarr", "inttuple"]))))
    specs.append(("L", inside, str(rng.choice(["arr", "tuple"]))))
    return specs


# --------------------------------------------------------------------------------------
# processing


def sig(entry, predicate):
    return {"entry": entry, "predicate": predicate}


def with_forms(rng, cases):
    """spread the input containers over the generated cases (the corpus keeps plain arrays)"""
    for case in cases:
        f = FORMS[int(rng.integers(0, len(FORMS)))] if rng.random() < 0.5 else "array"
        if f != "array":
            case["form"] = f
        yield case


def process_inter(ck, cases):
    lines, impls = [], []
    for case in cases:
        impls.append(impl_inter(case))
        lines += inter_lines(case)
    ans = ck.driver.run(lines) if lines else []
    for n, case in enumerate(cases):
        impl = impls[n]
        mF, mQ = parse_inter(ans[2 * n], "F"), parse_inter(ans[2 * n + 1], "Q")
        nontrivial = "cands" in mQ and len(mQ["cands"]) >= 1
        ck.case(case, nontrivial=nontrivial)
        ck.count("inter:gen=" + case["gen"])
        ck.count("inter:form=" + impl.get("form", "array"))
        if "pts" in impl:
            ck.count("inter:points=" + (str(len(impl["pts"])) if len(impl["pts"]) < 3 else "3+"))
        bad = oracle_inter(case, impl)
        for pred, detail in bad:
            ck.fail(sig("intersection", pred), case, detail)
        d = compare_inter(case, impl, mF, mQ)
        if "cands" in mQ:
            S1, S2 = poly_segs(case["x1"], case["y1"]), poly_segs(case["x2"], case["y2"])
            for s in statuses(S1, S2, mQ):
                ck.count("inter:pair=" + s[3] + ("/exact" if s[5] else ""))
                if "pts" in impl and s[3] == "in":
                    ck.hyp_checked += 1
        if d is not None and not bad:
            ck.diverge("intersection", case, d)
        elif d is not None:
            ck.count("divergence_with_oracle_failure")


def process_design(ck, cases):
    """cases: dict(kind=design, gen, coords, spec, swap)"""
    lines, impls = [], []
    for case in cases:
        impls.append(impl_design(case["coords"], case["spec"], case["swap"], case.get("reuse", False), **design_opts(case)))
        lines += design_lines(case["coords"], case["spec"], case["swap"])
    ans = ck.driver.run(lines) if lines else []
    for n, case in enumerate(cases):
        impl = impls[n]
        coords, spec, swap = case["coords"], tuple(case["spec"]), case["swap"]
        mF, mQ = parse_design(ans[2 * n], "F"), parse_design(ans[2 * n + 1], "Q")
        ncross = 0
        if "per" in mQ:
            ncross = max([len(p["pts"]) for p in mQ["per"]] + [0])
        ck.case(case, nontrivial=(len(coords) >= 3 and ncross >= 1))
        ck.count("design:gen=" + case["gen"].split(":")[0])
        ck.count("design:steps=" + spec[0] + (":" + spec[2] if len(spec) > 2 else ""))
        if spec[0] == "L" and len(spec[1]) == 0:
            ck.count("design:steps=empty_list")
        if spec[0] == "N" and int(spec[1]) <= 1:
            ck.count("design:steps=count_" + str(int(spec[1])))
        ck.count("design:swap=" + str(bool(swap)))
        ck.count("design:call=" + case.get("call", "pos_kw"))
        if case.get("call") == "defaults":
            if not swap:
                ck.count("design:default_swap_axis_relied_on")
            if spec[0] == "D":
                ck.count("design:default_steps_relied_on")
        ck.count("design:contour_object=" + impl.get("contour_used", "stub"))
        ck.count("design:coords_dtype=" + case.get("cdtype", "float"))
        if "res" in impl and not impl["res"]:
            ck.count("design:empty_result_shape=" + "x".join(str(v) for v in impl.get("shape", ())))
        if case.get("reuse"):
            ck.count("design:contour_object_used_before")
        ck.count("design:max_crossings=" + (str(ncross) if ncross < 5 else "5+"))
        if "per" in mQ:
            nsing = sum(1 for p_ in mQ["per"] for (_, _, sol_) in p_["cands"] if sol_ is None)
            if nsing:
                # candidate pairs whose 4x4 system is singular (np.linalg.LinAlgError branch of `intersection`)
                ck.count("design:singular_candidate_pairs", nsing)
                ck.count("design:cases_with_singular_pair")
        _c = np.asarray(coords, dtype=float)
        if len(_c) >= 2 and (_c[0] == _c[-1]).all():
            ck.count("design:contour_already_closed")
        if len(_c) >= 2 and (np.diff(_c, axis=0) == 0).all(axis=1).any():
            ck.count("design:contour_with_repeated_vertex")
        if "res" in impl and "steps" in mF:
            ck.count("design:omitted_steps", len(mF["steps"]) - len(impl["res"]))
            got = {f2b(r[0]) for r in impl["res"]}
            lost = sum(1 for x2, per in zip(mF["steps"], mQ["per"]) if per["pts"] and f2b(x2) not in got)
            if lost:
                # exact model reports a (borderline) intersection, the doubles of the real code lose it
                ck.count("design:abscissa_lost_to_rounding_at_a_vertex", lost)
        _ords = np.asarray(coords, dtype=float)[:, 0 if swap else 1]
        if len(_ords) and float(np.ptp(_ords)) == 0.0:
            ck.count("design:flat_polygon_out_of_scope")
        bad = oracle_design(coords, spec, swap, impl, mF.get("steps", []))
        # swap_axis == exchanging the two coordinates (metamorphic, on the implementation)
        if "res" in impl:
            # (same container, dtype and calling convention: the relation is about swap_axis only; integer coordinates
            #  give +0.0 where float coordinates give -0.0, numerically equal but not bit-equal)
            other = impl_design(np.asarray(coords)[:, ::-1], spec, not swap, **design_opts(case))
            if "res" not in other or [(f2b(a), f2b(b)) for a, b in other["res"]] != [(f2b(a), f2b(b)) for a, b in impl["res"]]:
                bad.append(("swap_equiv", f"swap_axis={swap} differs from swap_axis={not swap} on the exchanged columns: "
                                          f"{impl['res'][:3]} vs {other.get('res', other)!s:.200}"))
        for pred, detail in bad:
            ck.fail(sig("calculate_design_conditions", pred), case, detail)
        d = compare_design(coords, spec, swap, impl, mF, mQ)
        if "per" in mQ:
            ck.hyp_checked += len(mQ["per"])
            if mQ.get("cover"):
                ck.count("design:probeCovers_hypothesis_true_on_executed_doubles")
                ck.hyp_checked += 1
        if d is not None and not bad:
            ck.diverge("design_conditions", case, d)
        elif d is not None:
            ck.count("divergence_with_oracle_failure")


def corpus_cases():
    # DESIGN section 4 #11: probe line through a vertex / star-shaped polygon -> `assert len(x) <= 2`
    yield {"kind": "design", "gen": "corpus", "coords": [[0.0, 0.0], [2.0, 0.0], [1.0, 1.0]], "spec": ("L", [1.0]), "swap": False}
    star = []
    for k in range(10):
        r = 3.0 if k % 2 == 0 else 1.0
        a = 2 * math.pi * k / 10 + 0.1
        star.append([5 + r * math.cos(a), 5 + r * math.sin(a)])
    yield {"kind": "design", "gen": "corpus", "coords": star, "spec": ("D",), "swap": False}
    # found by this check: contour with negative ordinates, probe segment shorter than the contour
    yield {"kind": "design", "gen": "corpus", "coords": [[0.0, -3.0], [2.0, -3.0], [2.0, -1.0], [0.0, -1.0]],
           "spec": ("L", [0.5, 1.0]), "swap": False}
    yield {"kind": "design", "gen": "corpus", "coords": [[-3.0, 0.0], [-3.0, 2.0], [-1.0, 2.0], [-1.0, 0.0]],
           "spec": ("D",), "swap": True}
    # test-suite example of `intersection`
    x = np.linspace(0, 10, 5)
    yield {"kind": "inter", "gen": "corpus", "x1": x.tolist(), "y1": (2 * x).tolist(), "x2": x.tolist(),
           "y2": (10 - x).tolist()}
    # crossing exactly at the last vertex of the first polyline / at a shared interior vertex
    yield {"kind": "inter", "gen": "corpus", "x1": [0.0, 2.0, 4.0], "y1": [0.0, 2.0, 2.0], "x2": [4.0, 4.0], "y2": [0.0, 4.0]}
    yield {"kind": "inter", "gen": "corpus", "x1": [0.0, 2.0, 4.0], "y1": [0.0, 2.0, 2.0], "x2": [0.0, 2.0, 4.0], "y2": [4.0, 2.0, 4.0]}


def design_case_list(rng, polys, lattice=False):
    """polys: (name, coords) or (name, coords, objkey) - the latter for genuine contour objects in `_OBJ`"""
    cases = []
    for item in polys:
        name, coords = item[0], item[1]
        objkey = item[2] if len(item) > 2 else None
        c = np.asarray(coords, dtype=float)
        integral = bool(np.all(c == np.floor(c))) and float(np.abs(c).max()) < 2 ** 30
        for swap in (False, True):
            for spec in step_specs(rng, coords, swap, lattice=lattice):
                k = len(cases)
                case = {"kind": "design", "gen": name, "coords": c.tolist(), "spec": spec, "swap": swap,
                        "reuse": k % 3 == 1, "call": CALLS[int(rng.integers(0, len(CALLS)))]}
                if objkey is not None:
                    case["contour"], case["objkey"] = "genuine", objkey
                else:
                    case["contour"] = ("stub", "real")[(k // 5) % 2]
                if integral and objkey is None and k % 2 == 0:
                    case["cdtype"] = "int64" if k % 4 == 0 else "int32"
                cases.append(case)
    return cases


def nan_broken_cases(rng, n_cases, max_seg):
    """curves 'broken with NaNs' (docstring of `intersection`): NaN vertices (either or both coordinates) inserted into
    random polylines; such a curve is the collection of its NaN-free pieces"""
    for case in random_pair_cases(rng, n_cases, max_seg):
        out = {"kind": "inter_nan", "gen": "nanbroken"}
        for a, b, both in (("x1", "y1", True), ("x2", "y2", rng.random() < 0.5)):
            x, y = list(case[a]), list(case[b])
            if both and len(x) >= 3:
                for _ in range(int(rng.integers(1, 4))):
                    k = int(rng.integers(0, len(x) + 1))
                    which = int(rng.integers(0, 3))
                    x.insert(k, float("nan") if which != 1 else float(rng.normal()))
                    y.insert(k, float("nan") if which != 0 else float(rng.normal()))
            out[a], out[b] = x, y
        yield out


def _pieces(x, y):
    """maximal runs of NaN-free vertices with at least one segment: list of (first vertex index, xs, ys)"""
    out, start = [], None
    for k in range(len(x) + 1):
        good = k < len(x) and not (math.isnan(x[k]) or math.isnan(y[k]))
        if good and start is None:
            start = k
        if not good and start is not None:
            if k - start >= 2:
                out.append((start, x[start:k], y[start:k]))
            start = None
    return out


def process_inter_nan(ck, cases):
    """correspondence only (no property oracle: the property speaks of polylines): the real `intersection` on the
    NaN-broken curves against the model run on every pair of NaN-free pieces, candidates re-indexed to the whole curves"""
    lines, meta, impls = [], [], []
    for case in cases:
        impls.append(impl_inter(case))
        P1, P2 = _pieces(case["x1"], case["y1"]), _pieces(case["x2"], case["y2"])
        m = []
        for (o1, xa, ya) in P1:
            for (o2, xb, yb) in P2:
                sub = {"x1": xa, "y1": ya, "x2": xb, "y2": yb}
                lines.append(inter_lines(sub)[1])
                m.append((o1, o2, sub))
        meta.append(m)
    ans = ck.driver.run(lines) if lines else []
    pos = 0
    for case, impl, m in zip(cases, impls, meta):
        stats, bad_model = [], None
        for (o1, o2, sub) in m:
            mQ = parse_inter(ans[pos], "Q")
            pos += 1
            if "err" in mQ:
                bad_model = mQ["err"]
                continue
            S1, S2 = poly_segs(sub["x1"], sub["y1"]), poly_segs(sub["x2"], sub["y2"])
            for (i, j, sol, st, tol, exact) in statuses(S1, S2, mQ):
                stats.append((i + o1, j + o2, sol, st, tol, exact))
        stats.sort(key=lambda c: (c[0], c[1]))
        ck.case(case, nontrivial=len(stats) >= 1)
        ck.count("inter:gen=nanbroken")
        ck.count("inter:nan_pieces=" + str(min(len(m), 9)) + ("+" if len(m) >= 9 else ""))
        if bad_model is not None:
            ck.diverge("intersection_nan_broken", case, f"model error {bad_model}")
            continue
        if "err" in impl:
            ck.diverge("intersection_nan_broken", case, f"implementation raised {impl['err']}: {impl.get('msg')} on NaN-broken curves")
            continue
        want = [(c[0], c[1]) for c in stats]
        if impl["cand"] != want:
            a, b = set(impl["cand"]), set(want)
            ck.diverge("intersection_nan_broken", case,
                       f"bounding-box candidates of the NaN-broken curves differ from those of their pieces: impl-only "
                       f"{sorted(a - b)[:4]} pieces-only {sorted(b - a)[:4]}")
            continue
        d = match_points(impl["pts"], stats, "impl (NaN-broken curves vs model on the pieces)")
        if d is not None:
            ck.diverge("intersection_nan_broken", case, d)


def closed_variants(rng, polys, every=3):
    """contours that are already closed (last vertex == first vertex: the code appends the first vertex once more, which
    gives a zero-length edge and a singular system) and contours with a repeated vertex somewhere"""
    out = []
    for k, item in enumerate(polys):
        name, p = item[0].split(":")[0], np.asarray(item[1], dtype=float)
        v = int(rng.integers(0, every))
        if v == 0:
            out.append((name + "+closed", np.vstack([p, p[:1]])))
        elif v == 1:
            j = int(rng.integers(0, len(p)))
            reps = int(rng.choice([1, 1, 2]))
            out.append((name + "+repeated", np.insert(p, [j] * reps, p[j], axis=0)))
    return out


def _worker(args):
    """thorough tier: one chunk of generated cases in a worker process; returns the Check's tallies"""
    seed, idx, n_pairs, n_poly, n_models = args
    ck = core.Check("C17", "thorough", seed)
    ck.driver = core.Driver()
    rng = np.random.default_rng([seed, idx, 17])
    run_generated(ck, rng, n_pairs, n_poly, n_models, True)
    return {"evaluations": ck.evaluations, "keys": ck.keys, "nontrivial": ck.nontrivial, "samples": ck.samples,
            "dist": ck.dist, "div": ck.divergences, "fail": ck.failures, "known": ck.known_seen, "hyp": ck.hyp_checked,
            "lines": ck.driver.n_lines}


def run_generated(ck, rng, n_pairs, n_poly, n_models, thorough):
    max_seg = 60
    process_inter(ck, list(with_forms(rng, random_pair_cases(rng, n_pairs, max_seg))))
    process_inter(ck, list(with_forms(rng, lattice_pair_cases(rng, n_pairs))))
    process_inter(ck, list(with_forms(rng, degenerate_float_cases(rng, max(n_pairs // 2, 1)))))
    process_inter_nan(ck, list(nan_broken_cases(rng, max(n_pairs // 4, 1), max_seg)))
    polys = [("star", star_polygon(rng)) for _ in range(n_poly)]
    process_design(ck, design_case_list(rng, polys + closed_variants(rng, polys)))
    lat = [("lattice", lattice_polygon(rng)) for _ in range(n_poly)]
    process_design(ck, design_case_list(rng, lat + closed_variants(rng, lat), lattice=True))
    conts = real_contours(rng, n_models, thorough, ck)
    for item in conts:
        ck.count("contour=" + item[0].split(":")[0])
    process_design(ck, design_case_list(rng, conts + closed_variants(rng, conts)))


def main(ck):
    thorough = ck.tier == "thorough"
    ck.rule = (
        "corpus witnesses, then random polyline pairs (1-60 segments: walks, curves, circles, scatter; scales 1e-2..1e3, "
        "offsets to 1e4), exact-regime lattice pairs (through vertices / end points, shared end points, collinear overlap, "
        "parallel), float degenerate pairs; design conditions on random star-shaped polygons (all sign combinations, "
        "spiky, both orientations), star-shaped lattice polygons and IFORM/ISORM/direct-sampling contours of random "
        "Weibull+conditional-LogNormal and predefined models x steps None/int/lists inside, outside, through vertices, on "
        "the extremes, one ulp around vertices, empty list, counts 0/1 and numpy integer counts x both swap_axis x calling "
        "convention (positional, keyword, mixed, defaults) x contour object (stub, Contour subclass, genuine) x float / "
        "integer coordinate arrays; already-closed and repeated-vertex variants of every third contour; intersection inputs "
        "as arrays / lists / tuples / (n,1) columns / integer arrays; NaN-broken curves (correspondence on the pieces); "
        "non-trivial: intersection case with >= 1 bounding-box "
        "candidate pair, design case with >= 3 vertices and >= 1 abscissa that crosses; distinct by SHA1 of the case"
    )
    ck.assumptions = [
        "np.linalg.solve (LAPACK gesv) is a leaf: coordinates compared within 1e-9*M*|d1||d2|/|det|, in-range decisions "
        "within a band of 64 ulp * cond * (1 + M/len) around 0 and 1 (measured worst case 2.1), band 0 in the exact "
        "regime (small dyadic coordinates, power-of-two direction components, dyadic parameters)",
        "theorems are over an ordered field; the Float execution of the model is compared with its Rat execution on the "
        "same doubles in every case",
        "np.max / np.min / np.linspace on doubles are modelled operation by operation (bit-exact abscissae required)",
    ]
    ck.partial = {
        "default abscissae all cross the contour (count == num)": "observed on every explored contour (needs an intermediate-value argument on the closed polygon, not proven)",
        "empty result has shape (0, 2)": "checked as a correspondence with the model's empty row list, not a clause of the property",
        "NaN-broken curves": "documented in the docstring of `intersection`, outside the property's 'polylines': only the correspondence with the model on the NaN-free pieces is checked, no property oracle",
        "float rounding at a vertex": "a probe line through a vertex in non-dyadic doubles may lose the vertex (both adjacent t round outside [0,1]); such crossings are classified borderline and either decision is accepted",
    }
    rng = np.random.default_rng([ck.seed, 17])
    corp = list(corpus_cases())
    process_design(ck, [c for c in corp if c["kind"] == "design"])
    process_inter(ck, [c for c in corp if c["kind"] == "inter"])
    if not thorough:
        run_generated(ck, rng, 400, 30, 3, False)
    else:
        jobs = [(ck.seed, i, 800, 80, 3) for i in range(32)]
        with multiprocessing.Pool(8) as pool:
            for r in pool.imap_unordered(_worker, jobs):
                ck.evaluations += r["evaluations"]
                new = r["keys"] - ck.keys
                ck.keys |= r["keys"]
                ck.nontrivial += r["nontrivial"] if len(new) == len(r["keys"]) else min(r["nontrivial"], len(new))
                for s in r["samples"]:
                    if len(ck.samples) < 4:
                        ck.samples.append(s)
                for k, v in r["dist"].items():
                    ck.count(k, v)
                ck.divergences += r["div"]
                for f in r["fail"]:
                    ck.fail(*f)
                ck.hyp_checked += r["hyp"]
                ck.driver.n_lines += r["lines"]
    ck.extra["exhaustive"] = False
    floor = coverage_floor(ck)
    if floor and not ck.failures and not ck.divergences:
        # (with a violation at hand the violation is reported; otherwise a run that could not build the real contours
        # of the quantifier must not exit 0)
        raise core.MachineryError("C17 coverage floor: " + "; ".join(floor))


def replay(ck, payload):
    case = payload["case"]
    ok = True
    if case["kind"] == "inter_nan":
        n0 = len(ck.divergences)
        if ck.driver:
            process_inter_nan(ck, [case])
        for d in ck.divergences[n0:]:
            print("correspondence:", d[2])
        ok = len(ck.divergences) == n0
        print("implementation:", impl_inter(case))
    elif case["kind"] == "inter":
        impl = impl_inter(case)
        bad = oracle_inter(case, impl)
        for pred, detail in bad:
            print("oracle:", pred, detail)
        ok = not bad
        if ck.driver:
            ans = ck.driver.run(inter_lines(case))
            d = compare_inter(case, impl, parse_inter(ans[0], "F"), parse_inter(ans[1], "Q"))
            print("correspondence:", d)
            ok = ok and d is None
        print("implementation:", impl)
    else:
        coords, spec, swap = case["coords"], tuple(case["spec"]), case["swap"]
        impl = impl_design(coords, spec, swap, case.get("reuse", False), **design_opts(case))
        mF = mQ = None
        steps = []
        if ck.driver:
            ans = ck.driver.run(design_lines(coords, spec, swap))
            mF, mQ = parse_design(ans[0], "F"), parse_design(ans[1], "Q")
            steps = mF.get("steps", [])
        bad = oracle_design(coords, spec, swap, impl, steps)
        for pred, detail in bad:
            print("oracle:", pred, detail)
        ok = not bad
        if mF is not None:
            d = compare_design(coords, spec, swap, impl, mF, mQ)
            print("correspondence:", d)
            ok = ok and d is None
        print("implementation:", impl)
    return ok
