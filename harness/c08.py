"""
C08 - A conditional distribution is its template evaluated at the dependence values.

Correspondence
  (A) doubles: real ConditionalDistribution over RatDist with real DependenceFunction objects
      (incl. chained ones) vs the Lean model, cdf / icdf / pdf, in the call shapes the contour
      classes use: vector x & vector given (IFORM), scalar & scalar (ISORM), vector x & scalar
      given (HDC); bit-exact.  draw_sample on a replayed uniform stream.
  (B) every shipped family (and two ScipyDistribution subclasses) as template x every partition of
      its parameters into fixed / dependent (also: all fixed) x random dependence functions:
      compared with *constructed* instances Family(**values).m(x_j), one pair at a time (the
      reference the property names); bulk quantiles, p -> 0/1, x outside the support.
  (C) keyword binding of dependence-function parameters: position of the bound parameter vs
      the Lean `bindCall` (TypeError iff not trailing).
  (D) draw_sample through every shipped / ScipyDistribution template: same seed => the very sample of
      the template constructed at the (broadcast) dependence values; (n, k) for a vector given of
      length k, (n,) for a scalar given; size vs the Lean `rvsSize (condParShapes ..)`.
  (E) "defaults": dependence callables whose parameters come from the signature (defaults, implicit 1),
      never overwritten; the explicit-parameter call dep(x, *args, **kwargs) and its arity rule vs
      the Lean `defaultParams` / `callMode`.
  (F) ONE dependence-function object used as a template parameter AND inside another parameter's
      dependence function (doubles: bit-exact + model; shipped families through (B)/(D)).
"""
import itertools
import warnings

import numpy as np

from core import f2b, b2f
import doubles
import models

METHODS = ["cdf", "icdf", "pdf"]


# --------------------------------------------------------------------------- (A)

def gen_double_cases(rng, n):
    for _ in range(n):
        m = doubles.random_model(rng, n_dim=2, cond=[None, 0])
        meth = str(rng.choice(METHODS))
        shape = str(rng.choice(["vec-vec", "scalar-scalar", "vec-scalar", "vec1-vec1", "list-vec", "vec-intvec"]))
        k = 1 if shape in ("scalar-scalar", "vec1-vec1") else int(rng.choice([2, 5, 17, 200]))
        if meth == "icdf":
            xs = rng.uniform(0.001, 0.999, k)
        else:
            xs = 10 ** rng.uniform(-1.5, 1.5, k)
        gs = 10 ** rng.uniform(-1.0, 1.3, k)
        if shape == "vec-intvec":
            gs = rng.integers(1, 20, k).astype(float)  # handed over as an integer-dtype array
        if shape == "vec-scalar":
            gs = np.full(k, gs[0])
        yield {"part": "A", "model": m.describe(), "method": meth, "shape": shape,
               "x": [float(v) for v in xs], "g": [float(v) for v in gs]}


def call_shape(shape, xs, gs):
    if shape == "scalar-scalar":
        return float(xs[0]), float(gs[0])
    if shape == "vec-scalar":
        return np.array(xs), float(gs[0])
    if shape == "vec-intvec":
        return np.array(xs), np.array(gs).astype(np.int64)
    if shape == "list-vec":
        # x as a plain list (array_like); `given` stays an ndarray: the dependence callables are user
        # code and only promise to work on numbers / arrays
        return [float(v) for v in xs], np.array(gs)
    return np.array(xs), np.array(gs)


def process_double(ck, case):
    desc = doubles.model_from_desc(case["model"])
    ck.case(case, nontrivial=desc.n_dependent() >= 1)
    try:
        cond = desc.build().distributions[1]
    except Exception as e:  # noqa: BLE001
        ck.fail({"entry": "ConditionalDistribution", "predicate": "constructs", "template": "RatDist"}, case,
                f"{type(e).__name__}: {e}")
        return
    x, g = call_shape(case["shape"], case["x"], case["g"])
    ck.count("part=A")
    ck.count("A_shape=" + case["shape"])
    ck.count("A_method=" + case["method"])
    try:
        with np.errstate(all="ignore"):
            got = np.atleast_1d(np.asarray(getattr(cond, case["method"])(x, g), dtype=float))
    except Exception as e:  # noqa: BLE001
        ck.fail({"entry": "ConditionalDistribution." + case["method"], "predicate": "evaluates", "shape": case["shape"]},
                case, f"{type(e).__name__}: {e}")
        return
    k = len(case["x"])
    # independent reference: template constructed at independently evaluated dependence values
    ref = np.empty(k)
    for j in range(k):
        s, l = desc.s[1].value(case["g"][j]), desc.l[1].value(case["g"][j])
        ref[j] = float(np.asarray(getattr(doubles.RatDist(s=s, l=l), case["method"])(case["x"][j])))
    bad = []
    if got.shape != (k,):
        bad.append(("result_shape", f"{got.shape} for {k} pairs"))
    elif not np.array_equal(got.view(np.uint64), ref.view(np.uint64)):
        j = int(np.argmax(got != ref))
        bad.append(("equals_template_at_dependence_values",
                    f"pair {j} (x={case['x'][j]!r}, g={case['g'][j]!r}): conditional {got[j]!r} template {ref[j]!r}"))
    for pred, detail in bad:
        ck.fail({"entry": "ConditionalDistribution." + case["method"], "predicate": pred}, case, detail)
    line = ["RUN", "cond"] + desc.tokens() + ["1", case["method"], str(k)]
    for xv, gv in zip(case["x"], case["g"]):
        line += [str(f2b(xv)), str(f2b(gv))]
    ans = ck.driver.run([" ".join(line)])[0].split()
    if ans[0] != "OK":
        if not bad:
            ck.diverge("conditional-eval", case, " ".join(ans))
        return
    mv = np.array([b2f(v) for v in ans[2:]])
    if not bad and not np.array_equal(mv.view(np.uint64), got.view(np.uint64)):
        j = int(np.argmax(mv != got))
        ck.diverge("conditional-eval", case, f"pair {j}: impl {got[j]!r} model {mv[j]!r}")


def process_double_sampling(ck, rng):
    m = doubles.random_model(rng, n_dim=2, cond=[None, 0])
    if rng.integers(0, 6) == 0:
        # every parameter fixed (no dependence function at all): still one realisation per conditioning value
        m.s[1] = doubles.Dep("fixed", [float(rng.uniform(0.5, 2.0))])
        m.l[1] = doubles.Dep("fixed", [float(rng.choice([0.0, 0.25]))])
    k = int(rng.choice([1, 3, 40]))
    gs = 10 ** rng.uniform(-1, 1.3, k)
    int_given = bool(rng.integers(0, 3) == 0)
    if int_given:
        gs = rng.integers(1, 20, k).astype(float)
    seed = int(rng.integers(0, 2**31))
    scalar_given = bool(rng.integers(0, 4) == 0)
    if scalar_given:
        # one scalar conditioning value (as ISORM / HDC use it), n draws from that one conditional distribution
        k = int(rng.choice([1, 5]))
        gs = np.full(k, gs[0])
    case = {"part": "A", "kind": "draw_sample", "model": m.describe(), "g": [float(v) for v in gs], "seed": seed,
            "given_dtype": ("int" if int_given else "float") + ("-scalar" if scalar_given else "64")}
    run_double_sampling(ck, case)


def run_double_sampling(ck, case):
    m = doubles.model_from_desc(case["model"])
    try:
        cond = m.build().distributions[1]
    except Exception as e:  # noqa: BLE001
        ck.case(case, nontrivial=m.n_dependent() >= 1, sample=False)
        ck.fail({"entry": "ConditionalDistribution", "predicate": "constructs", "template": "RatDist"}, case,
                f"{type(e).__name__}: {e}")
        return
    gs = np.array(case["g"], dtype=float)
    k, seed = len(gs), case["seed"]
    int_given = case["given_dtype"].startswith("int")
    try:
        if case["given_dtype"].endswith("-scalar"):
            got = np.asarray(cond.draw_sample(k, int(gs[0]) if int_given else float(gs[0]), random_state=seed), dtype=float).ravel()
            u = np.random.default_rng(seed).uniform(size=k).ravel()
        else:
            got = np.asarray(cond.draw_sample(1, gs.astype(np.int64) if int_given else gs, random_state=seed), dtype=float).ravel()
            u = np.random.default_rng(seed).uniform(size=(1, k)).ravel()
    except Exception as e:  # noqa: BLE001
        ck.case(case, nontrivial=m.n_dependent() >= 1, sample=False)
        ck.fail({"entry": "ConditionalDistribution.draw_sample", "predicate": "evaluates", "template": "RatDist"}, case,
                f"{type(e).__name__}: {e}")
        return
    ck.count("A_draw_sample_given=" + case["given_dtype"])
    ck.case(case, nontrivial=m.n_dependent() >= 1, sample=False)
    ck.count("A_draw_sample")
    line = ["RUN", "cond"] + m.tokens() + ["1", "icdf", str(k)]
    for uv, gv in zip(u, gs):
        line += [str(f2b(uv)), str(f2b(gv))]
    ans = ck.driver.run([" ".join(line)])[0].split()
    mv = np.array([b2f(v) for v in ans[2:]]) if ans[0] == "OK" else None
    if got.shape != (k,):
        ck.fail({"entry": "ConditionalDistribution.draw_sample", "predicate": "one_value_per_conditioning_value"}, case,
                f"shape {got.shape} for {k} conditioning values")
    elif mv is None or not np.array_equal(mv.view(np.uint64), got.view(np.uint64)):
        # the model value IS the template's quantile at the dependence values (Q(u) with the replayed uniforms):
        # a mismatch means the sample does not follow the conditional distribution at these conditioning values
        ck.fail({"entry": "ConditionalDistribution.draw_sample", "predicate": "sample_is_template_quantile_of_stream",
                 "given_dtype": case["given_dtype"]}, case,
                f"given {case['g'][:3]} ({case['given_dtype']}): samples {got[:3].tolist()} but template quantiles {None if mv is None else mv[:3].tolist()}")


# --------------------------------------------------------------------------- (B)

def family_table():
    import scipy.stats as sts
    from virocon import (ExponentiatedWeibullDistribution, GeneralizedGammaDistribution, LogNormalDistribution,
                         NormalDistribution, ScipyDistribution, VonMisesDistribution, WeibullDistribution)
    from virocon.distributions import LogNormalNormFitDistribution

    class GammaDistribution(ScipyDistribution):
        scipy_dist_name = "gamma"

    class GumbelDistribution(ScipyDistribution):  # the other documented declaration; a scipy law without shapes
        scipy_dist = sts.gumbel_r

    u = lambda rng, a, b: float(rng.uniform(a, b))  # noqa: E731
    return {
        "Weibull": (WeibullDistribution, {"alpha": (0.5, 4), "beta": (0.9, 3), "gamma": (0, 1)}),
        "LogNormal": (LogNormalDistribution, {"mu": (-0.3, 1.5), "sigma": (0.15, 0.8)}),
        "Normal": (NormalDistribution, {"mu": (-2, 6), "sigma": (0.4, 2.0)}),
        "ExpWeibull": (ExponentiatedWeibullDistribution, {"alpha": (0.5, 3), "beta": (0.8, 2.5), "delta": (0.7, 4)}),
        "GenGamma": (GeneralizedGammaDistribution, {"m": (0.8, 3), "c": (0.8, 2.5), "lambda_": (0.3, 2)}),
        "VonMises": (VonMisesDistribution, {"kappa": (0.3, 4), "mu": (0.5, 5.5)}),
        "ScipyGamma": (GammaDistribution, {"a": (0.8, 4), "loc": (0, 1), "scale": (0.5, 3)}),
        "ScipyGumbel": (GumbelDistribution, {"loc": (-2, 6), "scale": (0.4, 2.0)}),
        # parameters are mean / standard deviation of the variable itself: own _get_scipy_parameters
        "LogNormalNormFit": (LogNormalNormFitDistribution, {"mu_norm": (1.0, 6.0), "sigma_norm": (0.3, 2.5)}),
    }


def _const1(x, a):
    """a dependence function that returns a SCALAR whatever the shape of x (constant parameter)"""
    return a


def _outer_shared(x, a, b, d):
    """dependence function that takes another dependence function `d` as parameter"""
    return a * (1 + b * np.tanh(d(x)))


DEP_FUNCS = dict(models.DEP_FUNCS, const1=_const1)
DEP_KINDS = ["linear2", "asym3", "power3", "logistics4", "exp3"]

# icdf arguments at / next to the ends of [0, 1]; arguments of pdf / cdf far outside any bulk
TAIL_P = [0.0, 1e-300, 1e-17, 1e-12, 1e-6, 1 - 1e-6, 1 - 1e-12, 1 - 2.0 ** -53, 1.0]
OUTSIDE_X = [-np.inf, -1e6, -3.0, -1e-9, 0.0, 1e-300, 1e9, 1e300, np.inf]
B_SHAPES = ["vec-vec", "scalar-scalar", "vec-scalar", "vec-intvec", "list-vec", "vec1-vec1"]


def random_spec(rng, ranges, dep_set, const_ok=False):
    """{param: ("fixed", v) | ("dep", kind, pars)} for one template"""
    spec = {}
    for p in ranges:
        lo, hi = ranges[p]
        level = float(rng.uniform(lo, hi))
        if p in dep_set:
            kind = str(rng.choice(DEP_KINDS))
            if level <= 0.05:
                level = 0.3
            if const_ok and rng.integers(0, 4) == 0:
                spec[p] = ("dep", "const1", [max(level, 0.2)])
            else:
                dp = [float(v) for v in models.random_dep_pars(rng, kind, max(level, 0.2) * 0.7)]
                spec[p] = ("dep", kind, dp)
        else:
            spec[p] = ("fixed", level)
    return spec


def shared_spec(rng, ranges, p_in, p_out):
    """`p_in` is a dependence function; `p_out`'s dependence function takes THAT function as parameter"""
    spec = random_spec(rng, ranges, {p_in})
    lo, hi = ranges[p_out]
    level = float(rng.uniform(lo, hi))
    if abs(level) <= 0.05:
        level = 0.3
    spec[p_out] = ("outer", [level, float(rng.uniform(0.05, 0.5))], p_in)
    return spec


def spec_values(spec, g):
    """independent evaluation of every parameter at g (float or float ndarray): the plain callables are called
    directly, no virocon object involved.  Values are NOT broadcast (a constant function stays a scalar)."""
    vals = {}
    for p, sp in spec.items():
        if sp[0] == "fixed":
            vals[p] = sp[1]
        elif sp[0] == "dep":
            vals[p] = DEP_FUNCS[sp[1]](g, *sp[2])
    for p, sp in spec.items():
        if sp[0] == "outer":
            vals[p] = sp[1][0] * (1 + sp[1][1] * np.tanh(vals[sp[2]]))
    return {p: vals[p] for p in spec}


def build_conditional(cls, spec):
    """real ConditionalDistribution(template, {param: DependenceFunction}); an ("outer", pars, name) parameter
    receives the SAME DependenceFunction object that is parameter `name`"""
    from virocon import DependenceFunction
    from virocon.distributions import ConditionalDistribution

    kw, pars = {}, {}
    for p, sp in spec.items():
        if sp[0] == "fixed":
            kw["f_" + p] = sp[1]
        elif sp[0] == "dep":
            df = DependenceFunction(DEP_FUNCS[sp[1]])
            df.parameters = dict(zip(df.parameters.keys(), sp[2]))
            pars[p] = df
    for p, sp in spec.items():
        if sp[0] == "outer":
            df = DependenceFunction(_outer_shared, d=pars[sp[2]])
            df.parameters = dict(zip(df.parameters.keys(), sp[1]))
            pars[p] = df
    # dict in template order (an "outer" parameter may precede its inner one)
    pars = {p: pars[p] for p in spec if p in pars}
    return ConditionalDistribution(cls(**kw), pars), len(pars)


def gen_family_cases(rng, reps):
    fams = family_table()
    for name, (cls, ranges) in fams.items():
        pars = list(ranges)
        for r in range(0, len(pars) + 1):  # r = 0: every parameter fixed
            for dep_set in itertools.combinations(pars, r):
                for _ in range(reps):
                    yield family_case(rng, name, random_spec(rng, ranges, dep_set, const_ok=True))
        for p_in, p_out in itertools.permutations(pars, 2):
            for _ in range(max(1, reps // 2)):
                c = family_case(rng, name, shared_spec(rng, ranges, p_in, p_out))
                c["shared"] = True
                yield c


def family_case(rng, name, spec):
    meth = str(rng.choice(METHODS))
    k = int(rng.choice([1, 4, 17]))
    shape = str(rng.choice(B_SHAPES))
    if shape in ("scalar-scalar", "vec1-vec1"):
        k = 1
    gs = rng.uniform(0.2, 6.0, k)
    if shape == "vec-intvec":
        gs = rng.integers(1, 7, k).astype(float)  # handed over as an integer-dtype array
    if shape == "vec-scalar":
        gs = np.full(k, gs[0])
    points = str(rng.choice(["bulk", "bulk", "tail", "outside"]))
    if points == "tail":
        q = [float(v) for v in rng.choice(TAIL_P, k)]
    else:
        q = [float(v) for v in rng.uniform(0.02, 0.98, k)]
    case = {"part": "B", "family": name, "spec": spec, "method": meth, "shape": shape, "points": points,
            "q": q, "g": [float(v) for v in gs]}
    if points == "outside" and meth != "icdf":
        case["xo"] = [int(v) for v in rng.integers(0, len(OUTSIDE_X) + 3, k)]
    return case


def process_family(ck, case, fams):
    cls, ranges = fams[case["family"]]
    points = case.get("points", "bulk")
    n_dep = sum(1 for sp in case["spec"].values() if sp[0] != "fixed")
    ck.case(case, nontrivial=True, sample=ck.evaluations % 97 == 0)
    ck.count("part=B")
    ck.count("B_family=" + case["family"])
    ck.count("B_n_dependent=" + str(n_dep))
    ck.count("B_shape=" + case["shape"])
    ck.count("B_points=" + points)
    if case.get("shared"):
        ck.count("B_shared_inner_function")
    if any(sp[0] == "dep" and sp[1] == "const1" for sp in case["spec"].values()):
        ck.count("B_scalar_valued_dependence_function")
    try:
        cond, _ = build_conditional(cls, case["spec"])
    except Exception as e:  # noqa: BLE001
        ck.fail({"entry": "ConditionalDistribution", "predicate": "constructs", "family": case["family"]}, case,
                f"{type(e).__name__}: {e}")
        return
    k = len(case["g"])
    # evaluation points: quantiles of the constructed instance (so that they are in the bulk), or the ends of
    # [0, 1] / points outside the support
    insts, xs = [], []
    with np.errstate(all="ignore"), warnings.catch_warnings():
        warnings.simplefilter("ignore")
        for j in range(k):
            vals = {p: float(v) for p, v in spec_values(case["spec"], float(case["g"][j])).items()}
            inst = cls(**vals)
            insts.append(inst)
            if case["method"] == "icdf":
                xs.append(case["q"][j])
            elif "xo" in case:
                i = case["xo"][j]
                if i < len(OUTSIDE_X):
                    xs.append(OUTSIDE_X[i])
                else:  # at / just below / below the lower end of the support
                    lo = float(np.asarray(inst.icdf(0.0)))
                    xs.append([lo, float(np.nextafter(lo, -np.inf)), lo - 0.5][i - len(OUTSIDE_X)])
            else:
                xs.append(float(np.asarray(inst.icdf(case["q"][j]))))
    if points == "bulk" and not np.all(np.isfinite(xs)):
        ck.count("B_skipped_nonfinite")
        return
    if np.any(np.isnan(xs)):
        ck.count("B_skipped_nan_point")
        return
    with np.errstate(all="ignore"), warnings.catch_warnings():
        warnings.simplefilter("ignore")
        ref = np.array([float(np.asarray(getattr(insts[j], case["method"])(xs[j]))) for j in range(k)])
        x, g = call_shape(case["shape"], xs, case["g"])
        try:
            got = np.atleast_1d(np.asarray(getattr(cond, case["method"])(x, g), dtype=float))
        except Exception as e:  # noqa: BLE001
            ck.fail({"entry": "ConditionalDistribution." + case["method"], "predicate": "evaluates",
                     "family": case["family"]}, case, f"{type(e).__name__}: {e}")
            return
    if got.shape != (k,):
        ck.fail({"entry": "ConditionalDistribution." + case["method"], "predicate": "result_shape",
                 "family": case["family"]}, case, f"{got.shape} for {k} pairs")
        return
    if points == "bulk" and not np.all(np.isfinite(ref)):
        ck.count("B_skipped_nonfinite")
        return
    if np.array_equal(got.view(np.uint64), ref.view(np.uint64)):
        ck.count("B_bit_exact")
        if points != "bulk":
            ck.count("B_nonbulk_" + ("finite" if np.all(np.isfinite(ref)) else "with_inf_or_nan"))
        return
    # inf must be the same inf, nan must be nan; finite values within 1e-11
    same = (got == ref) | (np.isnan(got) & np.isnan(ref))
    tol = 1e-11 * np.maximum(np.abs(np.where(np.isfinite(ref), ref, 0.0)), 1e-300) + 1e-14
    with np.errstate(all="ignore"):
        close = same | (np.isfinite(got) & np.isfinite(ref) & (np.abs(got - ref) <= tol))
    if np.all(close):
        ck.count("B_within_1e-11")
        return
    j = int(np.argmax(~close))
    dep_names = sorted(p for p, sp in case["spec"].items() if sp[0] != "fixed")
    ck.fail({"entry": "ConditionalDistribution." + case["method"], "predicate": "equals_template_at_dependence_values",
             "family": case["family"], "dependent": dep_names}, case,
            f"pair {j} (x={xs[j]!r}, g={case['g'][j]!r}, points: {points}): conditional {float(got[j])!r} constructed "
            f"template {float(ref[j])!r}")


# --------------------------------------------------------------------------- (D)

D_SHAPES = ["vector", "intvector", "vec1", "scalar", "intscalar"]
_CONDSHAPE = {}
_PENDING = []  # (driver line, callback(answer tokens)): model questions of parts (E)/(F), asked in one batch


def flush(ck):
    """one driver round trip for all deferred model questions"""
    if not _PENDING:
        return
    todo = list(_PENDING)
    del _PENDING[:]
    answers = ck.driver.run([line for line, _ in todo])
    for (_, fn), ans in zip(todo, answers):
        fn(ans.split())


def gen_family_sampling_cases(rng, reps):
    fams = family_table()
    for name, (cls, ranges) in fams.items():
        pars = list(ranges)
        for r in range(0, len(pars) + 1):
            for dep_set in itertools.combinations(pars, r):
                for _ in range(reps):
                    yield sampling_case(rng, name, random_spec(rng, ranges, dep_set, const_ok=True))
        for p_in, p_out in itertools.permutations(pars, 2):
            c = sampling_case(rng, name, shared_spec(rng, ranges, p_in, p_out))
            c["shared"] = True
            yield c


def sampling_case(rng, name, spec):
    shape = str(rng.choice(D_SHAPES))
    k = 1 if shape in ("vec1", "scalar", "intscalar") else int(rng.choice([2, 5, 40]))
    gs = rng.integers(1, 7, k).astype(float) if shape.startswith("int") else rng.uniform(0.2, 6.0, k)
    return {"part": "D", "family": name, "spec": spec, "n": int(rng.choice([1, 2, 3, 7])), "shape": shape,
            "g": [float(v) for v in gs], "seed": int(rng.integers(0, 2**31)),
            "random_state": str(rng.choice(["int", "generator"]))}


def given_for_sampling(shape, gs):
    if shape == "scalar":
        return float(gs[0])
    if shape == "intscalar":
        return int(gs[0])
    if shape == "intvector":
        return np.array(gs).astype(np.int64)
    return np.array(gs, dtype=float)


def _rs(case):
    return case["seed"] if case["random_state"] == "int" else np.random.default_rng(case["seed"])


def compare_sample(ck, case, got, ref, n, k_or_none, raw_shapes, entry_sig):
    """`got`: the conditional distribution's sample, `ref`: the sample of the template constructed at the
    dependence values, same seed.  Shape: (n, k) for k conditioning values, (n,) for a scalar one."""
    want_shape = (n,) if k_or_none is None else (n, k_or_none)
    got = np.asarray(got, dtype=float)
    ref = np.asarray(ref, dtype=float)
    failed = False
    if got.shape != want_shape:
        failed = True
        ck.fail(dict(entry_sig, predicate="n_realisations_per_conditioning_value"), case,
                f"sample shape {got.shape}, expected {want_shape} (n={n}, given: "
                f"{'scalar' if k_or_none is None else str(k_or_none) + ' values'})")
    elif ref.shape != want_shape:
        ck.count("D_reference_shape_unexpected")  # harness problem, never seen; do not judge
        return
    elif np.array_equal(got.view(np.uint64), ref.view(np.uint64)):
        ck.count("sample_bit_exact")
    elif np.all(np.abs(got - ref) <= 1e-10 * np.maximum(np.abs(ref), 1e-300) + 1e-13):
        ck.count("sample_within_1e-10")
    else:
        failed = True
        j = np.unravel_index(int(np.argmax(np.abs(got - ref))), got.shape)
        ck.fail(dict(entry_sig, predicate="sample_equals_template_sample_same_seed"), case,
                f"seed {case['seed']}: conditional sample{[int(v) for v in j]} = {float(got[j])!r}, template "
                f"constructed at the dependence values (given {case['g'][:3]}) gives {float(ref[j])!r}")
    # model: size handed to the template's sampler
    line = " ".join(["RUN", "condshape", str(n), "-" if k_or_none is None else str(k_or_none)] + raw_shapes)
    if line not in _CONDSHAPE:  # a pure function of a few small numbers: ask the model once per distinct line
        _CONDSHAPE[line] = ck.driver.run([line])[0].split()
    ans = _CONDSHAPE[line]
    want = ["OK", "flat", str(n)] if got.ndim == 1 else ["OK", "matrix"] + [str(v) for v in got.shape]
    if not failed and ans != want:
        ck.diverge("conditional-sample-size", case, f"impl sample shape {got.shape}, model {' '.join(ans)}")


def process_family_sampling(ck, case, fams):
    cls, ranges = fams[case["family"]]
    spec = case["spec"]
    ck.case(case, nontrivial=True, sample=ck.evaluations % 131 == 0)
    ck.count("part=D")
    ck.count("D_family=" + case["family"])
    ck.count("D_given=" + case["shape"])
    ck.count("D_n=" + ("1" if case["n"] == 1 else ">1"))
    ck.count("D_n_dependent=" + str(sum(1 for sp in spec.values() if sp[0] != "fixed")))
    if case.get("shared"):
        ck.count("D_shared_inner_function")
    sig = {"entry": "ConditionalDistribution.draw_sample", "family": case["family"]}
    try:
        cond, _ = build_conditional(cls, spec)
    except Exception as e:  # noqa: BLE001
        ck.fail({"entry": "ConditionalDistribution", "predicate": "constructs", "family": case["family"]}, case,
                f"{type(e).__name__}: {e}")
        return
    scalar = case["shape"] in ("scalar", "intscalar")
    given = given_for_sampling(case["shape"], case["g"])
    gf = float(case["g"][0]) if scalar else np.array(case["g"], dtype=float)
    with np.errstate(all="ignore"), warnings.catch_warnings():
        warnings.simplefilter("ignore")
        raw = spec_values(spec, gf)
        raw_shapes = ["s" if np.ndim(v) == 0 else f"v{len(v)}" for v in raw.values()]
        vals = {p: (float(v) if scalar else np.broadcast_to(np.asarray(v, dtype=float), gf.shape))
                for p, v in raw.items()}
        ref = cls(**vals).draw_sample(case["n"], random_state=_rs(case))
        try:
            got = cond.draw_sample(case["n"], given, random_state=_rs(case))
        except Exception as e:  # noqa: BLE001
            ck.fail(dict(sig, predicate="evaluates"), case, f"{type(e).__name__}: {e}")
            return
    compare_sample(ck, case, got, ref, case["n"], None if scalar else len(case["g"]), raw_shapes, sig)


# --------------------------------------------------------------------------- (E), (F): rational doubles

def make_default_func(form, defaults):
    """a fresh callable f(x, <parameters>) whose SIGNATURE carries `defaults` (None = parameter without a
    default; those must come first, as Python demands).  form: affine (a, b) | asym (a, b, c) |
    chained (a, b, d) with d a dependence function."""
    if form == "affine":
        def f(x, a, b):
            return a + b * x
    elif form == "asym":
        def f(x, a, b, c):
            return a + b / (1 + c * x)
    else:
        def f(x, a, b, d):
            return (a + b * x) / d(x)
    m = sum(1 for d in defaults if d is None)
    assert all(d is None for d in defaults[:m]) and all(d is not None for d in defaults[m:])
    tail = tuple(defaults[m:])
    if form == "chained" and tail:
        tail = tail + (None,)  # def f(x, a, b=.., d=None)
    f.__defaults__ = tail or None
    return f


FORM_NAMES = {"affine": ["a", "b"], "asym": ["a", "b", "c"], "chained": ["a", "b"]}


def _rat_tokens(s_dep, l_dep):
    return doubles.ModelDesc([None, 0], [doubles.Dep("fixed", [1.0]), s_dep],
                             [doubles.Dep("fixed", [0.0]), l_dep]).tokens()


def eval_rat(ck, case, cond, s_dep, l_dep, sig):
    """cdf / icdf / pdf of a ConditionalDistribution over RatDist, built by the caller, against the template
    constructed at independently evaluated dependence values (bit-exact) and against the Lean model"""
    meth, k = case["method"], len(case["x"])
    x, g = call_shape(case["shape"], case["x"], case["g"])
    try:
        with np.errstate(all="ignore"):
            got = np.atleast_1d(np.asarray(getattr(cond, meth)(x, g), dtype=float))
    except Exception as e:  # noqa: BLE001
        ck.fail(dict(sig, entry="ConditionalDistribution." + meth, predicate="evaluates"), case,
                f"{type(e).__name__}: {e}")
        return
    ref = np.empty(k)
    for j in range(k):
        s, l = s_dep.value(case["g"][j]), l_dep.value(case["g"][j])
        ref[j] = float(np.asarray(getattr(doubles.RatDist(s=s, l=l), meth)(case["x"][j])))
    bad = False
    if got.shape != (k,):
        bad = True
        ck.fail(dict(sig, entry="ConditionalDistribution." + meth, predicate="result_shape"), case,
                f"{got.shape} for {k} pairs")
    elif not np.array_equal(got.view(np.uint64), ref.view(np.uint64)):
        bad = True
        j = int(np.argmax(got != ref))
        ck.fail(dict(sig, entry="ConditionalDistribution." + meth, predicate="equals_template_at_dependence_values"),
                case, f"pair {j} (x={case['x'][j]!r}, g={case['g'][j]!r}): conditional {float(got[j])!r} "
                      f"template {float(ref[j])!r}")
    line = ["RUN", "cond"] + _rat_tokens(s_dep, l_dep) + ["1", meth, str(k)]
    for xv, gv in zip(case["x"], case["g"]):
        line += [str(f2b(xv)), str(f2b(gv))]
    if bad:
        return

    def compare(ans):
        if ans[0] != "OK":
            ck.diverge("conditional-eval", case, " ".join(ans))
            return
        mv = np.array([b2f(v) for v in ans[2:]])
        if not np.array_equal(mv.view(np.uint64), got.view(np.uint64)):
            j = int(np.argmax(mv != got))
            ck.diverge("conditional-eval", case, f"pair {j}: impl {float(got[j])!r} model {float(mv[j])!r}")

    _PENDING.append((" ".join(line), compare))


def sample_rat(ck, case, cond, s_dep, l_dep, sig):
    """draw_sample of a ConditionalDistribution over RatDist vs RatDist at the broadcast dependence values"""
    sd = case["sampling"]
    scalar = sd["shape"] in ("scalar", "intscalar")
    given = given_for_sampling(sd["shape"], sd["g"])
    c2 = dict(case, seed=sd["seed"], random_state=sd["random_state"], g=sd["g"])
    if scalar:
        vals = {"s": s_dep.value(sd["g"][0]), "l": l_dep.value(sd["g"][0])}
    else:
        vals = {"s": np.array([s_dep.value(v) for v in sd["g"]]), "l": np.array([l_dep.value(v) for v in sd["g"]])}
    raw_shapes = [("s" if scalar or d.kind == "fixed" else f"v{len(sd['g'])}") for d in (s_dep, l_dep)]
    ref = doubles.RatDist(**vals).draw_sample(sd["n"], random_state=_rs(c2))
    try:
        with np.errstate(all="ignore"):
            got = cond.draw_sample(sd["n"], given, random_state=_rs(c2))
    except Exception as e:  # noqa: BLE001
        ck.fail(dict(sig, entry="ConditionalDistribution.draw_sample", predicate="evaluates"), case,
                f"{type(e).__name__}: {e}")
        return
    compare_sample(ck, c2, got, ref, sd["n"], None if scalar else len(sd["g"]), raw_shapes,
                   dict(sig, entry="ConditionalDistribution.draw_sample"))


def rat_eval_inputs(rng):
    meth = str(rng.choice(METHODS))
    shape = str(rng.choice(["vec-vec", "scalar-scalar", "vec-scalar", "vec1-vec1", "list-vec", "vec-intvec"]))
    k = 1 if shape in ("scalar-scalar", "vec1-vec1") else int(rng.choice([2, 5, 17]))
    xs = rng.uniform(0.001, 0.999, k) if meth == "icdf" else 10 ** rng.uniform(-1.5, 1.5, k)
    gs = 10 ** rng.uniform(-1.0, 1.3, k)
    if shape == "vec-intvec":
        gs = rng.integers(1, 20, k).astype(float)
    if shape == "vec-scalar":
        gs = np.full(k, gs[0])
    d = {"method": meth, "shape": shape, "x": [float(v) for v in xs], "g": [float(v) for v in gs]}
    if rng.integers(0, 3) == 0:
        sshape = str(rng.choice(D_SHAPES))
        sk = 1 if sshape in ("vec1", "scalar", "intscalar") else int(rng.choice([2, 5, 40]))
        sg = rng.integers(1, 20, sk).astype(float) if sshape.startswith("int") else 10 ** rng.uniform(-1, 1.3, sk)
        d["sampling"] = {"shape": sshape, "g": [float(v) for v in sg], "n": int(rng.choice([1, 2, 3, 7])),
                         "seed": int(rng.integers(0, 2**31)), "random_state": str(rng.choice(["int", "generator"]))}
    return d


def _random_defaults(rng, form):
    u = rng.uniform
    full = {"affine": [u(0.3, 3.0), u(0.0, 0.8)], "asym": [u(0.3, 3.0), u(0.1, 2.0), u(0.05, 1.5)],
            "chained": [u(0.3, 3.0), u(0.0, 0.5)]}[form]
    m = int(rng.integers(0, len(full) + 1))  # number of leading parameters WITHOUT a default (implicit 1)
    return [None] * m + [float(v) for v in full[m:]]


def gen_default_cases(rng, n):
    for _ in range(n):
        form = str(rng.choice(["affine", "asym", "chained"]))
        case = {"part": "E", "form": form, "defaults": _random_defaults(rng, form)}
        if form == "chained":
            iform = str(rng.choice(["affine", "asym"]))
            case["inner"] = {"form": iform, "defaults": _random_defaults(rng, iform)}
        case["l"] = float(rng.choice([0.0, 0.25, 1.0]))
        nfree = len(FORM_NAMES[form])
        case["explicit"] = [float(v) for v in rng.uniform(0.3, 2.5, nfree)]
        case.update(rat_eval_inputs(rng))
        yield case


_CALLMODE = {}


def _exp_pars(defaults):
    return [1.0 if d is None else float(d) for d in defaults]


def process_defaults(ck, case):
    from virocon import DependenceFunction
    from virocon.distributions import ConditionalDistribution

    form, names = case["form"], FORM_NAMES[case["form"]]
    ck.case(case, nontrivial=True, sample=ck.evaluations % 151 == 0)
    ck.count("part=E")
    ck.count("E_form=" + form)
    ck.count("E_params_without_default=" + str(sum(1 for d in case["defaults"] if d is None)))
    sig = {"entry": "DependenceFunction", "input": "signature-defaults"}
    inner_dep = inner_obj = None
    try:
        if form == "chained":
            # the inner dependence function relies on its signature as well
            inner_obj = DependenceFunction(make_default_func(case["inner"]["form"], case["inner"]["defaults"]))
            inner_dep = doubles.Dep(case["inner"]["form"], _exp_pars(case["inner"]["defaults"]))
            df = DependenceFunction(make_default_func(form, case["defaults"]), d=inner_obj)
        else:
            df = DependenceFunction(make_default_func(form, case["defaults"]))
        cond = ConditionalDistribution(doubles.RatDist(f_l=case["l"]), {"s": df})
    except Exception as e:  # noqa: BLE001
        ck.fail(dict(sig, predicate="constructs"), case, f"{type(e).__name__}: {e}")
        return
    s_dep = doubles.Dep(form, _exp_pars(case["defaults"]), inner_dep)
    l_dep = doubles.Dep("fixed", [case["l"]])
    # model of the parameter dict (correspondence)
    line = ["RUN", "defaults"]
    for nme, d in zip(names, case["defaults"]):
        line += [nme, "-" if d is None else str(f2b(d))]
    try:
        impl = ["OK"] + [t for nme, v in df.parameters.items() for t in (nme, str(f2b(float(v))))]
    except Exception as e:  # noqa: BLE001
        impl = [f"{type(e).__name__}: {e}"]
    defaults_line = " ".join(line)

    def value_of(dep, g):
        return np.array([dep.value(v) for v in np.atleast_1d(g)])

    # (1) the dependence function itself: stored (= signature) parameters
    g0, gv = float(case["g"][0]), np.array(case["g"], dtype=float)
    failed = False
    for garg in (g0, gv):
        try:
            with np.errstate(all="ignore"):
                got = np.atleast_1d(np.asarray(df(garg), dtype=float))
        except Exception as e:  # noqa: BLE001
            got = None
            detail = f"{type(e).__name__}: {e}"
        want = value_of(s_dep, garg)
        if got is None or got.shape != want.shape or not np.array_equal(got.view(np.uint64), want.view(np.uint64)):
            failed = True
            ck.fail({"entry": "DependenceFunction.__call__", "predicate": "parameters_are_signature_defaults_or_1"}, case,
                    f"defaults {dict(zip(names, case['defaults']))} (None: no default -> 1): dep({garg!r}) = "
                    f"{detail if got is None else got[:3].tolist()}, the callable with these values gives {want[:3].tolist()}")
            break
    if not failed:
        _PENDING.append((defaults_line, lambda ans: ans == impl or ck.diverge(
            "signature-defaults", case, f"impl parameters {impl} model {ans}")))
    # (2) inside a conditional distribution
    eval_rat(ck, case, cond, s_dep, l_dep, {"input": "signature-defaults"})
    if "sampling" in case:
        ck.count("E_draw_sample")
        sample_rat(ck, case, cond, s_dep, l_dep, {"input": "signature-defaults"})
    # (3) explicit-parameter call
    vals = case["explicit"]
    nfree = len(names)
    e_dep = doubles.Dep(form, vals, inner_dep)
    calls = [("positional", tuple(vals), {}), ("keyword", (), dict(zip(names, vals))),
             ("mixed", tuple(vals[:1]), dict(zip(names[1:], vals[1:])))]
    for cnt in range(1, nfree + 2):
        if cnt != nfree:
            calls.append((f"wrong-count-{cnt}-positional", tuple((vals + [0.5])[:cnt]), {}))
            if cnt < nfree:
                calls.append((f"wrong-count-{cnt}-keyword", (), dict(list(zip(names, vals))[:cnt])))
    for label, a, kw in calls:
        for garg in (g0, gv):
            try:
                with np.errstate(all="ignore"):
                    got = np.atleast_1d(np.asarray(df(garg, *a, **kw), dtype=float))
                w_e, w_s = value_of(e_dep, garg), value_of(s_dep, garg)
                if got.shape == w_e.shape and np.array_equal(got.view(np.uint64), w_e.view(np.uint64)):
                    outcome = "explicit"
                elif got.shape == w_s.shape and np.array_equal(got.view(np.uint64), w_s.view(np.uint64)):
                    outcome = "stored"
                else:
                    outcome = f"other-value {got[:3].tolist()}"
            except ValueError:
                outcome = "error"
            except Exception as e:  # noqa: BLE001
                outcome = f"raises {type(e).__name__}: {e}"
            key = (nfree, len(a), len(kw))
            if key not in _CALLMODE:  # a pure function of three small numbers: ask the model once per triple
                _CALLMODE[key] = ck.driver.run([f"RUN callmode {nfree} {len(a)} {len(kw)}"])[0].split()[-1]
            model = _CALLMODE[key]
            ck.count("E_call=" + label.split("-")[0])
            if outcome == model:
                continue
            if model == "explicit":
                ck.fail({"entry": "DependenceFunction.__call__", "predicate": "explicit_parameters_are_used",
                         "call": label}, case,
                        f"dep({garg!r}, *{a}, **{kw}): {outcome}; the callable with these parameters gives "
                        f"{value_of(e_dep, garg)[:3].tolist()}")
            else:
                ck.diverge("explicit-call-arity", case, f"dep(x, *{a}, **{kw}) with {nfree} free parameters: "
                                                        f"impl {outcome} model {model}")
            break
    # the explicit calls must not have touched the stored parameters
    try:
        with np.errstate(all="ignore"):
            got = np.atleast_1d(np.asarray(df(gv), dtype=float))
        ok = np.array_equal(got.view(np.uint64), value_of(s_dep, gv).view(np.uint64))
    except Exception:  # noqa: BLE001
        ok = False
    if not ok and not failed:
        ck.fail({"entry": "DependenceFunction.__call__", "predicate": "explicit_call_leaves_stored_parameters"}, case,
                "after calls with explicit parameters dep(x) no longer evaluates with the stored parameters")


def gen_shared_cases(rng, n):
    u = rng.uniform
    for _ in range(n):
        if rng.integers(0, 2):
            inner = doubles.Dep("affine", [float(u(0.3, 2.0)), float(u(0.0, 0.6))])
        else:
            inner = doubles.Dep("asym", [float(u(0.5, 2.0)), float(u(0.1, 1.0)), float(u(0.1, 1.0))])
        variant = str(rng.choice(["chained", "ratio-num", "ratio-den", "ratio-both"]))
        other = doubles.Dep("asym", [float(u(0.5, 2.0)), float(u(0.1, 1.0)), float(u(0.1, 1.0))])
        case = {"part": "F", "variant": variant, "inner": inner.describe(), "other": other.describe(),
                "outer_pars": [float(10 ** u(-0.5, 0.5)), float(u(0.0, 0.5))],
                "inner_is": str(rng.choice(["s", "l"])), "dict_order": str(rng.choice(["inner-first", "outer-first"]))}
        case.update(rat_eval_inputs(rng))
        yield case


def process_shared(ck, case):
    from virocon import DependenceFunction
    from virocon.distributions import ConditionalDistribution

    ck.case(case, nontrivial=True, sample=ck.evaluations % 151 == 0)
    ck.count("part=F")
    ck.count("F_variant=" + case["variant"])
    ck.count("F_shared_function_is_parameter=" + case["inner_is"])
    inner, other = doubles.dep_from_desc(case["inner"]), doubles.dep_from_desc(case["other"])
    a, b = case["outer_pars"]
    v = case["variant"]
    sig = {"input": "one-dependence-function-object-shared"}
    try:
        inner_obj = inner.build()  # ONE object: a template parameter and a parameter of the other function
        if v == "chained":
            outer = doubles.Dep("chained", [a, b], inner)
            outer_obj = DependenceFunction(doubles._chained, d=inner_obj)
        else:
            num, den = (inner if v != "ratio-den" else other), (inner if v != "ratio-num" else other)
            outer = doubles.Dep("ratio", [a], [num, den])
            outer_obj = DependenceFunction(doubles._ratio, num=inner_obj if v != "ratio-den" else other.build(),
                                           den=inner_obj if v != "ratio-num" else other.build())
        outer_obj.parameters = dict(zip(outer_obj.parameters.keys(), outer.pars))
        i_name = case["inner_is"]
        o_name = "l" if i_name == "s" else "s"
        pars = {i_name: inner_obj, o_name: outer_obj}
        if case["dict_order"] == "outer-first":
            pars = {o_name: outer_obj, i_name: inner_obj}
        cond = ConditionalDistribution(doubles.RatDist(), pars)
    except Exception as e:  # noqa: BLE001
        ck.fail(dict(sig, entry="ConditionalDistribution", predicate="constructs"), case, f"{type(e).__name__}: {e}")
        return
    s_dep, l_dep = (inner, outer) if i_name == "s" else (outer, inner)
    try:
        cond.cdf(1.0, 0.123)  # an earlier evaluation at another conditioning value must leave no trace
    except Exception:  # noqa: BLE001
        pass
    eval_rat(ck, case, cond, s_dep, l_dep, sig)
    if "sampling" in case:
        ck.count("F_draw_sample")
        sample_rat(ck, case, cond, s_dep, l_dep, sig)


# --------------------------------------------------------------------------- (C)

def _f3(x, p0, p1, p2):
    r = 0.0
    for p in (p0, p1, p2):
        r = r + (p(x) if callable(p) else p * x)
    return r


def process_binding(ck):
    from virocon import DependenceFunction

    names = ["p0", "p1", "p2"]
    for r in (1, 2):
        for bound in itertools.combinations(names, r):
            inner = {b: DependenceFunction(models._linear2) for b in bound}
            for d in inner.values():
                d.parameters = {"a": 1.0, "b": 0.5}
            case = {"part": "C", "names": names, "bound": list(bound)}
            ck.case(case, nontrivial=True, sample=False)
            ck.count("part=C")
            df = DependenceFunction(_f3, **inner)
            free = [n for n in names if n not in bound]
            df.parameters = {n: float(2 + names.index(n)) for n in free}
            x = 1.5
            try:
                val = float(df(x))
                outcome = "ok"
            except TypeError as e:
                outcome = "multipleValues" if "multiple values" in str(e) else "TypeError"
            ans = ck.driver.run([" ".join(["RUN", "bind", "3"] + names + [str(len(bound))] + list(bound))])[0].split()
            want = "ok" if ans[0] == "OK" else ans[1]
            if outcome != want:
                ck.diverge("partial-binding", case, f"impl {outcome} model {want}")
            elif outcome == "ok":
                ref = sum((1.0 + 0.5 * x) if n in bound else (2 + names.index(n)) * x for n in names)
                if abs(val - ref) > 1e-12:
                    ck.fail({"entry": "DependenceFunction.__call__", "predicate": "each_parameter_receives_its_value"},
                            case, f"value {val!r} expected {ref!r}")


def main(ck):
    rng = np.random.default_rng(ck.seed)
    thorough = ck.tier == "thorough"
    ck.rule = ("(A) ConditionalDistribution over rational doubles with random (also chained) dependence functions x "
               "{cdf, icdf, pdf} x six call shapes, bit-exact vs model and vs constructed template; draw_sample on a "
               "replayed stream; (B) 9 templates (7 shipped families incl. LogNormalNormFit + two ScipyDistribution "
               "subclasses: gamma by scipy_dist_name, Gumbel by scipy_dist, no shape parameter) x EVERY dependent subset of "
               "their parameters (incl. none: all fixed) x random dependence functions (incl. one returning a scalar for a "
               "vector) x methods x six shapes (integer-dtype given, list x, length-1 vectors) x points (bulk quantiles / "
               "p at and next to 0 and 1 / x outside the support, +-inf) vs constructed instances, plus every ordered pair "
               "(inner, outer) of parameters sharing ONE dependence-function object; (C) every keyword-binding position "
               "for 3-parameter callables; (D) draw_sample of the same 9 templates x partitions x n in {1,2,3,7} x given "
               "{float/int vector, length-1 vector, float/int scalar} x seed as int / Generator vs the sample of the "
               "template constructed at the broadcast dependence values, same seed; (E) dependence callables with "
               "signature defaults / no defaults (implicit 1), also as the inner of a chained one, never overwritten: "
               "dep(x), the conditional distribution over the double, explicit-parameter calls (positional, keyword, "
               "mixed, every wrong count); (F) doubles with one DependenceFunction object as a parameter and inside the "
               "other parameter's function (chained, ratio numerator / denominator / both); distinct by SHA1")
    ck.assumptions = ["constructed template instances Family(**values) are the reference the property names",
                      "bulk evaluation points are quantiles 0.02..0.98 of the constructed instance; tail points are "
                      "p in {0, 1e-300, 1e-17, 1e-12, 1e-6, 1-1e-6, 1-1e-12, 1-2^-53, 1} (or the x they map to), outside "
                      "points are fixed x in {-inf, -1e6, -3, -1e-9, 0, 1e-300, 1e9, 1e300, inf} and the lower end of the "
                      "support (exactly / one ulp below / 0.5 below)",
                      "sampling reference: the template constructed with every parameter broadcast to one value per "
                      "conditioning value and drawn with the same seed (so the sample is compared bit for bit; that the "
                      "template's sampler follows the template's law is C07's business)",
                      "dependence callables only promise to work on numbers and ndarrays: `given` is never a list"]
    ck.partial = {"sampling: the conditional sample equals the template's sample at the dependence values": "observed per "
                  "run for every template (same seed, bit for bit); the theorems give the sample SIZE only "
                  "(cond_sample_shape_vector / _scalar), the samplers are scipy's",
                  "explicit-parameter call with a wrong number of values raises ValueError": "not part of the property text; "
                  "compared with the model's callMode as correspondence only"}
    for case in gen_double_cases(rng, 3000 if thorough else 400):
        process_double(ck, case)
    for _ in range(200 if thorough else 40):
        process_double_sampling(ck, rng)
    fams = family_table()
    for case in gen_family_cases(rng, 40 if thorough else 5):
        process_family(ck, case, fams)
    for case in gen_family_sampling_cases(rng, 20 if thorough else 3):
        process_family_sampling(ck, case, fams)
    for i, case in enumerate(gen_default_cases(rng, 1500 if thorough else 150)):
        process_defaults(ck, case)
        if i % 200 == 199:
            flush(ck)
    for i, case in enumerate(gen_shared_cases(rng, 1500 if thorough else 150)):
        process_shared(ck, case)
        if i % 200 == 199:
            flush(ck)
    flush(ck)
    process_binding(ck)


def replay(ck, payload):
    case = payload["case"]
    if case.get("part") == "B":
        process_family(ck, case, family_table())
    elif case.get("part") == "D":
        process_family_sampling(ck, case, family_table())
    elif case.get("part") == "E":
        process_defaults(ck, case)
    elif case.get("part") == "F":
        process_shared(ck, case)
    elif case.get("part") == "A" and "method" in case:
        process_double(ck, case)
    elif case.get("kind") == "draw_sample":
        run_double_sampling(ck, case)
    flush(ck)
    for s, c, d in ck.failures:
        print("oracle:", s, d)
    for op, c, d in ck.divergences:
        print("correspondence:", op, d)
    return not ck.failures
