"""
C08 - A conditional distribution is its template evaluated at the dependence values.

Correspondence
  (A) doubles: real ConditionalDistribution over RatDist with real DependenceFunction objects
      (incl. chained ones) vs the Lean model, cdf / icdf / pdf, in the call shapes the contour
      classes use: vector x & vector given (IFORM), scalar & scalar (ISORM), vector x & scalar
      given (HDC); bit-exact.  draw_sample on a replayed uniform stream.
  (B) every shipped family as template x every partition of its parameters into fixed /
      dependent (>= 1 dependent) x random dependence functions: compared with *constructed*
      instances Family(**values).m(x_j), one pair at a time (the reference the property names).
  (C) keyword binding of dependence-function parameters: position of the bound parameter vs
      the Lean `bindCall` (TypeError iff not trailing).
"""
import itertools
import warnings

import numpy as np

from core import f2b, b2f
import doubles
import models

METHODS = ["cdf", "icdf", "pdf"]


# --------------------------------------------------------------------------- (A)

def gen_double_cases(rng, n):
    for _ in range(n):
        m = doubles.random_model(rng, n_dim=2, cond=[None, 0])
        meth = str(rng.choice(METHODS))
        shape = str(rng.choice(["vec-vec", "scalar-scalar", "vec-scalar", "vec1-vec1", "list-vec", "vec-intvec"]))
        k = 1 if shape in ("scalar-scalar", "vec1-vec1") else int(rng.choice([2, 5, 17, 200]))
        if meth == "icdf":
            xs = rng.uniform(0.001, 0.999, k)
        else:
            xs = 10 ** rng.uniform(-1.5, 1.5, k)
        gs = 10 ** rng.uniform(-1.0, 1.3, k)
        if shape == "vec-intvec":
            gs = rng.integers(1, 20, k).astype(float)  # handed over as an integer-dtype array
        if shape == "vec-scalar":
            gs = np.full(k, gs[0])
        yield {"part": "A", "model": m.describe(), "method": meth, "shape": shape,
               "x": [float(v) for v in xs], "g": [float(v) for v in gs]}


def call_shape(shape, xs, gs):
    if shape == "scalar-scalar":
        return float(xs[0]), float(gs[0])
    if shape == "vec-scalar":
        return np.array(xs), float(gs[0])
    if shape == "vec-intvec":
        return np.array(xs), np.array(gs).astype(np.int64)
    if shape == "list-vec":
        # x as a plain list (array_like); `given` stays an ndarray: the dependence callables are user
        # code and only promise to work on numbers / arrays
        return [float(v) for v in xs], np.array(gs)
    return np.array(xs), np.array(gs)


def process_double(ck, case):
    desc = doubles.model_from_desc(case["model"])
    model = desc.build()
    cond = model.distributions[1]
    x, g = call_shape(case["shape"], case["x"], case["g"])
    ck.case(case, nontrivial=desc.n_dependent() >= 1)
    ck.count("part=A")
    ck.count("A_shape=" + case["shape"])
    ck.count("A_method=" + case["method"])
    try:
        with np.errstate(all="ignore"):
            got = np.atleast_1d(np.asarray(getattr(cond, case["method"])(x, g), dtype=float))
    except Exception as e:  # noqa: BLE001
        ck.fail({"entry": "ConditionalDistribution." + case["method"], "predicate": "evaluates", "shape": case["shape"]},
                case, f"{type(e).__name__}: {e}")
        return
    k = len(case["x"])
    # independent reference: template constructed at independently evaluated dependence values
    ref = np.empty(k)
    for j in range(k):
        s, l = desc.s[1].value(case["g"][j]), desc.l[1].value(case["g"][j])
        ref[j] = float(np.asarray(getattr(doubles.RatDist(s=s, l=l), case["method"])(case["x"][j])))
    bad = []
    if got.shape != (k,):
        bad.append(("result_shape", f"{got.shape} for {k} pairs"))
    elif not np.array_equal(got.view(np.uint64), ref.view(np.uint64)):
        j = int(np.argmax(got != ref))
        bad.append(("equals_template_at_dependence_values",
                    f"pair {j} (x={case['x'][j]!r}, g={case['g'][j]!r}): conditional {got[j]!r} template {ref[j]!r}"))
    for pred, detail in bad:
        ck.fail({"entry": "ConditionalDistribution." + case["method"], "predicate": pred}, case, detail)
    line = ["RUN", "cond"] + desc.tokens() + ["1", case["method"], str(k)]
    for xv, gv in zip(case["x"], case["g"]):
        line += [str(f2b(xv)), str(f2b(gv))]
    ans = ck.driver.run([" ".join(line)])[0].split()
    if ans[0] != "OK":
        if not bad:
            ck.diverge("conditional-eval", case, " ".join(ans))
        return
    mv = np.array([b2f(v) for v in ans[2:]])
    if not bad and not np.array_equal(mv.view(np.uint64), got.view(np.uint64)):
        j = int(np.argmax(mv != got))
        ck.diverge("conditional-eval", case, f"pair {j}: impl {got[j]!r} model {mv[j]!r}")


def process_double_sampling(ck, rng):
    m = doubles.random_model(rng, n_dim=2, cond=[None, 0])
    if rng.integers(0, 6) == 0:
        # every parameter fixed (no dependence function at all): still one realisation per conditioning value
        m.s[1] = doubles.Dep("fixed", [float(rng.uniform(0.5, 2.0))])
        m.l[1] = doubles.Dep("fixed", [float(rng.choice([0.0, 0.25]))])
    k = int(rng.choice([1, 3, 40]))
    gs = 10 ** rng.uniform(-1, 1.3, k)
    int_given = bool(rng.integers(0, 3) == 0)
    if int_given:
        gs = rng.integers(1, 20, k).astype(float)
    seed = int(rng.integers(0, 2**31))
    scalar_given = bool(rng.integers(0, 4) == 0)
    if scalar_given:
        # one scalar conditioning value (as ISORM / HDC use it), n draws from that one conditional distribution
        k = int(rng.choice([1, 5]))
        gs = np.full(k, gs[0])
    case = {"part": "A", "kind": "draw_sample", "model": m.describe(), "g": [float(v) for v in gs], "seed": seed,
            "given_dtype": ("int" if int_given else "float") + ("-scalar" if scalar_given else "64")}
    run_double_sampling(ck, case)


def run_double_sampling(ck, case):
    m = doubles.model_from_desc(case["model"])
    cond = m.build().distributions[1]
    gs = np.array(case["g"], dtype=float)
    k, seed = len(gs), case["seed"]
    int_given = case["given_dtype"].startswith("int")
    if case["given_dtype"].endswith("-scalar"):
        got = np.asarray(cond.draw_sample(k, int(gs[0]) if int_given else float(gs[0]), random_state=seed), dtype=float).ravel()
        u = np.random.default_rng(seed).uniform(size=k).ravel()
    else:
        got = np.asarray(cond.draw_sample(1, gs.astype(np.int64) if int_given else gs, random_state=seed), dtype=float).ravel()
        u = np.random.default_rng(seed).uniform(size=(1, k)).ravel()
    ck.count("A_draw_sample_given=" + case["given_dtype"])
    ck.case(case, nontrivial=m.n_dependent() >= 1, sample=False)
    ck.count("A_draw_sample")
    line = ["RUN", "cond"] + m.tokens() + ["1", "icdf", str(k)]
    for uv, gv in zip(u, gs):
        line += [str(f2b(uv)), str(f2b(gv))]
    ans = ck.driver.run([" ".join(line)])[0].split()
    mv = np.array([b2f(v) for v in ans[2:]]) if ans[0] == "OK" else None
    if got.shape != (k,):
        ck.fail({"entry": "ConditionalDistribution.draw_sample", "predicate": "one_value_per_conditioning_value"}, case,
                f"shape {got.shape} for {k} conditioning values")
    elif mv is None or not np.array_equal(mv.view(np.uint64), got.view(np.uint64)):
        # the model value IS the template's quantile at the dependence values (Q(u) with the replayed uniforms):
        # a mismatch means the sample does not follow the conditional distribution at these conditioning values
        ck.fail({"entry": "ConditionalDistribution.draw_sample", "predicate": "sample_is_template_quantile_of_stream",
                 "given_dtype": case["given_dtype"]}, case,
                f"given {case['g'][:3]} ({case['given_dtype']}): samples {got[:3].tolist()} but template quantiles {None if mv is None else mv[:3].tolist()}")


# --------------------------------------------------------------------------- (B)

def family_table():
    import scipy.stats as sts
    from virocon import (ExponentiatedWeibullDistribution, GeneralizedGammaDistribution, LogNormalDistribution,
                         NormalDistribution, ScipyDistribution, VonMisesDistribution, WeibullDistribution)

    class GammaDistribution(ScipyDistribution):
        scipy_dist_name = "gamma"

    class GumbelDistribution(ScipyDistribution):  # the other documented declaration; a scipy law without shapes
        scipy_dist = sts.gumbel_r

    u = lambda rng, a, b: float(rng.uniform(a, b))  # noqa: E731
    return {
        "Weibull": (WeibullDistribution, {"alpha": (0.5, 4), "beta": (0.9, 3), "gamma": (0, 1)}),
        "LogNormal": (LogNormalDistribution, {"mu": (-0.3, 1.5), "sigma": (0.15, 0.8)}),
        "Normal": (NormalDistribution, {"mu": (-2, 6), "sigma": (0.4, 2.0)}),
        "ExpWeibull": (ExponentiatedWeibullDistribution, {"alpha": (0.5, 3), "beta": (0.8, 2.5), "delta": (0.7, 4)}),
        "GenGamma": (GeneralizedGammaDistribution, {"m": (0.8, 3), "c": (0.8, 2.5), "lambda_": (0.3, 2)}),
        "VonMises": (VonMisesDistribution, {"kappa": (0.3, 4), "mu": (0.5, 5.5)}),
        "ScipyGamma": (GammaDistribution, {"a": (0.8, 4), "loc": (0, 1), "scale": (0.5, 3)}),
        "ScipyGumbel": (GumbelDistribution, {"loc": (-2, 6), "scale": (0.4, 2.0)}),
    }


def gen_family_cases(rng, reps):
    fams = family_table()
    for name, (cls, ranges) in fams.items():
        pars = list(ranges)
        for r in range(1, len(pars) + 1):
            for dep_set in itertools.combinations(pars, r):
                for _ in range(reps):
                    spec = {}
                    for p in pars:
                        lo, hi = ranges[p]
                        level = float(rng.uniform(lo, hi))
                        if p in dep_set:
                            kind = str(rng.choice(["linear2", "asym3", "power3", "logistics4", "exp3"]))
                            if level <= 0.05:
                                level = 0.3
                            dp = [float(v) for v in models.random_dep_pars(rng, kind, max(level, 0.2) * 0.7)]
                            spec[p] = ("dep", kind, dp)
                        else:
                            spec[p] = ("fixed", level)
                    meth = str(rng.choice(METHODS))
                    k = int(rng.choice([1, 4, 17]))
                    shape = str(rng.choice(["vec-vec", "scalar-scalar", "vec-scalar"]))
                    if shape == "scalar-scalar":
                        k = 1
                    gs = rng.uniform(0.2, 6.0, k)
                    if shape == "vec-scalar":
                        gs = np.full(k, gs[0])
                    yield {"part": "B", "family": name, "spec": spec, "method": meth, "shape": shape,
                           "q": [float(v) for v in rng.uniform(0.02, 0.98, k)], "g": [float(v) for v in gs]}


def process_family(ck, case, fams):
    from virocon import DependenceFunction
    from virocon.distributions import ConditionalDistribution

    cls, ranges = fams[case["family"]]
    kw, pars = {}, {}
    for p, spec in case["spec"].items():
        if spec[0] == "fixed":
            kw["f_" + p] = spec[1]
        else:
            df = DependenceFunction(models.DEP_FUNCS[spec[1]])
            df.parameters = dict(zip(df.parameters.keys(), spec[2]))
            pars[p] = df
    ck.case(case, nontrivial=True, sample=ck.evaluations % 97 == 0)
    ck.count("part=B")
    ck.count("B_family=" + case["family"])
    ck.count("B_n_dependent=" + str(len(pars)))
    try:
        cond = ConditionalDistribution(cls(**kw), pars)
    except Exception as e:  # noqa: BLE001
        ck.fail({"entry": "ConditionalDistribution", "predicate": "constructs", "family": case["family"]}, case,
                f"{type(e).__name__}: {e}")
        return
    k = len(case["g"])
    # evaluation points: quantiles of the constructed instance (so that they are in the bulk)
    insts, xs = [], []
    for j in range(k):
        vals = {}
        for p, spec in case["spec"].items():
            vals[p] = spec[1] if spec[0] == "fixed" else float(models.DEP_FUNCS[spec[1]](case["g"][j], *spec[2]))
        inst = cls(**vals)
        insts.append(inst)
        with np.errstate(all="ignore"):
            xs.append(case["q"][j] if case["method"] == "icdf" else float(np.asarray(inst.icdf(case["q"][j]))))
    if not np.all(np.isfinite(xs)):
        ck.count("B_skipped_nonfinite")
        return
    with np.errstate(all="ignore"), warnings.catch_warnings():
        warnings.simplefilter("ignore")
        ref = np.array([float(np.asarray(getattr(insts[j], case["method"])(xs[j]))) for j in range(k)])
        x, g = call_shape(case["shape"], xs, case["g"])
        try:
            got = np.atleast_1d(np.asarray(getattr(cond, case["method"])(x, g), dtype=float))
        except Exception as e:  # noqa: BLE001
            ck.fail({"entry": "ConditionalDistribution." + case["method"], "predicate": "evaluates",
                     "family": case["family"]}, case, f"{type(e).__name__}: {e}")
            return
    if got.shape != (k,):
        ck.fail({"entry": "ConditionalDistribution." + case["method"], "predicate": "result_shape",
                 "family": case["family"]}, case, f"{got.shape} for {k} pairs")
        return
    if not np.all(np.isfinite(ref)):
        ck.count("B_skipped_nonfinite")
        return
    if np.array_equal(got.view(np.uint64), ref.view(np.uint64)):
        ck.count("B_bit_exact")
        return
    tol = 1e-11 * np.maximum(np.abs(ref), 1e-300) + 1e-14
    if np.all(np.abs(got - ref) <= tol):
        ck.count("B_within_1e-11")
        return
    j = int(np.argmax(np.abs(got - ref) - tol))
    dep_names = sorted(p for p, s in case["spec"].items() if s[0] == "dep")
    ck.fail({"entry": "ConditionalDistribution." + case["method"], "predicate": "equals_template_at_dependence_values",
             "family": case["family"], "dependent": dep_names}, case,
            f"pair {j} (x={xs[j]!r}, g={case['g'][j]!r}): conditional {got[j]!r} constructed template {ref[j]!r}")


# --------------------------------------------------------------------------- (C)

def _f3(x, p0, p1, p2):
    r = 0.0
    for p in (p0, p1, p2):
        r = r + (p(x) if callable(p) else p * x)
    return r


def process_binding(ck):
    from virocon import DependenceFunction

    names = ["p0", "p1", "p2"]
    for r in (1, 2):
        for bound in itertools.combinations(names, r):
            inner = {b: DependenceFunction(models._linear2) for b in bound}
            for d in inner.values():
                d.parameters = {"a": 1.0, "b": 0.5}
            case = {"part": "C", "names": names, "bound": list(bound)}
            ck.case(case, nontrivial=True, sample=False)
            ck.count("part=C")
            df = DependenceFunction(_f3, **inner)
            free = [n for n in names if n not in bound]
            df.parameters = {n: float(2 + names.index(n)) for n in free}
            x = 1.5
            try:
                val = float(df(x))
                outcome = "ok"
            except TypeError as e:
                outcome = "multipleValues" if "multiple values" in str(e) else "TypeError"
            ans = ck.driver.run([" ".join(["RUN", "bind", "3"] + names + [str(len(bound))] + list(bound))])[0].split()
            want = "ok" if ans[0] == "OK" else ans[1]
            if outcome != want:
                ck.diverge("partial-binding", case, f"impl {outcome} model {want}")
            elif outcome == "ok":
                ref = sum((1.0 + 0.5 * x) if n in bound else (2 + names.index(n)) * x for n in names)
                if abs(val - ref) > 1e-12:
                    ck.fail({"entry": "DependenceFunction.__call__", "predicate": "each_parameter_receives_its_value"},
                            case, f"value {val!r} expected {ref!r}")


def main(ck):
    rng = np.random.default_rng(ck.seed)
    thorough = ck.tier == "thorough"
    ck.rule = ("(A) ConditionalDistribution over rational doubles with random (also chained) dependence functions x "
               "{cdf, icdf, pdf} x five call shapes, bit-exact vs model and vs constructed template; draw_sample on a "
               "replayed stream; (B) 8 templates (6 shipped families + two ScipyDistribution subclasses: gamma by scipy_dist_name, Gumbel by scipy_dist, no shape parameter) x every non-empty "
               "dependent subset of their parameters x random dependence functions x methods x shapes vs constructed "
               "instances; (C) every keyword-binding position for 3-parameter callables; distinct by SHA1")
    ck.assumptions = ["constructed template instances Family(**values) are the reference the property names",
                      "evaluation points are quantiles 0.02..0.98 of the constructed instance"]
    for case in gen_double_cases(rng, 3000 if thorough else 400):
        process_double(ck, case)
    for _ in range(200 if thorough else 40):
        process_double_sampling(ck, rng)
    fams = family_table()
    for case in gen_family_cases(rng, 40 if thorough else 5):
        process_family(ck, case, fams)
    process_binding(ck)


def replay(ck, payload):
    case = payload["case"]
    if case.get("part") == "B":
        process_family(ck, case, family_table())
    elif case.get("part") == "A" and "method" in case:
        process_double(ck, case)
    elif case.get("kind") == "draw_sample":
        run_double_sampling(ck, case)
    for s, c, d in ck.failures:
        print("oracle:", s, d)
    for op, c, d in ck.divergences:
        print("correspondence:", op, d)
    return not ck.failures
