"""
C20 - exported, plotted and loaded data are exactly the computed / stored values.

Correspondence (real code vs Lean model, Model/Export.lean):
  * bytes written by `save_contour_coordinates`  vs `saveText` / `savePath`   (exact string equality)
  * the written file parsed back (`np.loadtxt`)   vs `parseText`              (nearest double of the exact decimal)
  * `plot_2D_contour` Line2D data / PathCollection offsets (Agg) vs `closePolyline` / `scatterPts` /
    `designPts`                                                                (bit patterns)
  * `plot_dependence_functions`, `plot_histograms_of_interval_distributions`, `plot_2D_isodensity`,
    `plot_marginal_quantiles`: arrays handed to matplotlib vs `linspaceEnd` + `curve` over an oracle
    TABLE of the real leaf (pdf / dependence function / icdf evaluated by direct calls)
  * `read_ec_benchmark_dataset` on synthetic files vs `readBenchmark`          (every row, in order)
Oracle: the clauses of the property as Python predicates on the real code's own output. Oracle only (no model): drawing
into the supplied (non-current) / a new axes, returned design conditions, axis labels and par_rename, isodensity legend
labels and automatic levels, column dtypes of the reader, the reader's default path (shipped dataset A).
"""
import locale
import math
import os
import re
import shutil
import tempfile
import warnings
from fractions import Fraction
from types import SimpleNamespace

import numpy as np

from core import f2b, fl, REPO

TMP_ROOT = os.environ.get("VERIF_TMP", "/var/tmp")


# ---------------------------------------------------------------------------
# protocol helpers


def stok(s):
    return "s" + ",".join(str(ord(c)) for c in s)


_ESC = re.compile(r"\\([0-9a-f]+);")


def unesc(t):
    assert t[:1] == "e", t[:20]
    return _ESC.sub(lambda m: chr(int(m.group(1), 16)), t[1:])


def bits(a):
    return np.ascontiguousarray(np.asarray(a, dtype=np.float64)).view(np.uint64)


def same_bits(a, b):
    a = np.asarray(a, dtype=np.float64)
    b = np.asarray(b, dtype=np.float64)
    return a.shape == b.shape and bool(np.array_equal(bits(a), bits(b)))


def same_vals(a, b):
    """equal as numbers (NaN = NaN, -0 = 0)"""
    a = np.asarray(a, dtype=np.float64)
    b = np.asarray(b, dtype=np.float64)
    return a.shape == b.shape and bool(np.array_equal(a, b, equal_nan=True))


def pairs_from_answer(ans):
    t = ans.split()
    if t[0] != "OK":
        return {"err": t[1] if len(t) > 1 else "?"}
    if t[1] == "none":
        return {"none": True}
    n = int(t[1])
    arr = np.array([int(x) for x in t[2 : 2 + 2 * n]], dtype=np.uint64).view(np.float64)
    return {"pts": arr.reshape(n, 2)}


def floats_from_answer(ans):
    t = ans.split()
    if t[0] != "OK":
        return None
    n = int(t[1])
    return np.array([int(x) for x in t[2 : 2 + n]], dtype=np.uint64).view(np.float64)


# ---------------------------------------------------------------------------
# independent Python statement of "%1.6f of the exact value" and of "has an extension"


def fmt6_exact(x):
    x = float(x)
    if math.isnan(x):
        return "nan"
    if math.isinf(x):
        return "-inf" if x < 0 else "inf"
    n, d = abs(x).as_integer_ratio()
    q, r = divmod(n * 10**6, d)
    if 2 * r > d or (2 * r == d and q % 2 == 1):
        q += 1
    s = "-" if math.copysign(1.0, x) < 0 else ""
    return f"{s}{q // 10**6}.{q % 10**6:06d}"


def has_extension(path):
    base = path.rsplit("/", 1)[-1]
    return "." in base.lstrip(".")


FIELD_RE = re.compile(r"^(-?\d+\.\d{6}|nan|-?inf)$")


# ---------------------------------------------------------------------------
# generators (every random case is regenerated from (seed, index): replays stay small)


def sub_rng(case):
    return np.random.default_rng([int(case["gen"][0]), int(case["gen"][1]), 2020])


ALPH = list("abcHsTz_ -()#%0129.") + ["é", "µ", "°", "波"]


def rand_str(rng, lo=0, hi=12, extra=()):
    n = int(rng.integers(lo, hi + 1))
    pool = ALPH + list(extra)
    return "".join(pool[int(i)] for i in rng.integers(0, len(pool), n))


def gen_values(rng, n, flavour):
    """n doubles; flavour selects the magnitude / special-value mix"""
    if n == 0:
        return np.zeros(0)
    if flavour == "decades":
        x = 10.0 ** rng.uniform(-7, 6, n) * rng.uniform(1, 10, n)
        x *= rng.choice([-1.0, 1.0], n)
    elif flavour == "ties":
        # exact ties at the 7th decimal are the odd multiples of 1/128; and their float neighbours
        m = (2 * rng.integers(0, 2 ** int(rng.integers(1, 27)), n) + 1).astype(float)
        x = m / 128.0 * rng.choice([-1.0, 1.0], n)
        k = rng.integers(0, 3, n)
        x = np.where(k == 1, np.nextafter(x, np.inf), np.where(k == 2, np.nextafter(x, -np.inf), x))
    elif flavour == "sea":
        x = rng.weibull(1.5, n) * float(10 ** rng.uniform(-1, 1.5))
    elif flavour == "tiny":
        x = rng.choice([0.0, -0.0, 5e-7, -5e-7, 4.9999999e-7, 5.0000001e-7, 1.5e-6, 2.5e-6, 1e-7, -1e-7,
                        5e-324, 2.5e-7, 9.999995e-1, 0.9999995, 0.9999994999999999, 99.9999995], n)
    elif flavour == "ints":
        x = rng.integers(-1000, 1000, n).astype(float) * float(rng.choice([1, 0.5, 0.25, 0.1, 1e-6]))
    else:  # special
        x = rng.normal(0, 100, n)
        idx = rng.integers(0, n, max(1, n // 5))
        x[idx] = rng.choice([np.nan, np.inf, -np.inf, 1e22, -1e300, 1.7976931348623157e308, 123456.7890125], len(idx))
    return x.astype(np.float64)


FLAVOURS = ["decades", "decades", "ties", "sea", "tiny", "ints", "special"]


def gen_path(rng):
    """relative path: dotted directories, hidden files, with / without extension"""
    comps = []
    for _ in range(int(rng.integers(0, 3))):
        c = rng.choice(["d", "dir.d", ".hid", "a.b.c", "x y", "v1.0", "é"])
        comps.append(str(c))
    kind = int(rng.integers(0, 12))
    if kind == 0:
        base = rand_str(rng, 1, 6).replace("/", "_") or "f"
    elif kind == 1:
        base = "contour"
    elif kind == 2:
        base = "contour.txt"
    elif kind == 3:
        base = "." + (rand_str(rng, 1, 5).replace(".", "x") or "h")  # hidden, no extension
    elif kind == 4:
        base = ".hidden.csv"
    elif kind == 5:
        base = "." * int(rng.integers(1, 4)) + "a"
    elif kind == 6:
        base = "name."
    elif kind == 7:
        base = "a.b.c"
    elif kind == 8:
        base = "." * int(rng.integers(1, 4))
        if comps == [] and base in (".", ".."):
            comps = ["d"]
    elif kind == 9:
        base = "data.CSV"
    elif kind == 10:
        base = "no_ext_" + str(int(rng.integers(0, 100)))
    else:
        base = "x" + "." + rand_str(rng, 0, 4).replace("/", "").replace(".", "")
    # np.savetxt compresses by suffix; keep away from that (outside the property)
    if base.endswith((".gz", ".bz2", ".xz")):
        base += "_"
    return "/".join(comps + [base])


def gen_semantics(rng, n_dim):
    k = int(rng.integers(0, 10))
    if k <= 2:
        return None
    extra = (";",) if k == 9 else ()
    n_names = n_dim + (int(rng.integers(0, 3)) if k == 8 else 0)
    sem = {
        "names": [rand_str(rng, 0, 14, extra) for _ in range(n_names)],
        "symbols": [rand_str(rng, 1, 4) for _ in range(n_names)],
        "units": [rand_str(rng, 0, 6, extra) for _ in range(n_names)],
    }
    if k == 7 and n_dim >= 2 and rng.integers(0, 2):
        # too few entries: IndexError expected on both sides
        which = str(rng.choice(["names", "units"]))
        sem[which] = sem[which][: n_dim - 1]
    if k == 6 and rng.integers(0, 3) == 0:
        sem["names"][0] = sem["names"][0] + "\n" + "x"  # header is then not one line (counted, not asserted)
    return sem


def materialize_save(case):
    """-> coords (n x d float64), semantics, relative path"""
    if "bits" in case:
        coords = np.array(case["bits"], dtype=np.uint64).view(np.float64).reshape(case["n_rows"], case["n_dim"])
        return coords, case.get("semantics"), case["path"]
    rng = sub_rng(case)
    n, d = case["n_rows"], case["n_dim"]
    coords = gen_values(rng, n * d, case["flavour"]).reshape(n, d)
    return coords, case.get("semantics"), case["path"]


def save_cases(rng, seed, n_cases, start):
    for i in range(n_cases):
        n_dim = int(rng.choice([2, 2, 2, 3, 3, 1, 4]))
        n_rows = int(round(10 ** rng.uniform(0, math.log10(2000))))
        if rng.integers(0, 40) == 0:
            n_rows = 0
        yield {
            "kind": "save", "gen": [seed, start + i], "n_rows": n_rows, "n_dim": n_dim,
            "flavour": str(rng.choice(FLAVOURS)), "semantics": gen_semantics(rng, n_dim),
            "path": gen_path(rng), "contour": "stub",
            "call": ["positional", "omit", "keyword"][i % 3], "overwrite": i % 7 == 3,
            "path_type": "pathlib" if i % 11 == 5 else "str",
        }


def path_cases(rng, seed, n_cases, start):
    for i in range(n_cases):
        yield {
            "kind": "save", "gen": [seed, start + i], "n_rows": 1, "n_dim": 2, "flavour": "decades",
            "semantics": None, "path": gen_path(rng), "contour": "stub", "focus": "path",
            "call": ["positional", "omit", "keyword"][i % 3], "overwrite": i % 5 == 2,
            "path_type": "pathlib" if i % 4 == 1 else "str",
        }


# ---------------------------------------------------------------------------
# real contour objects of every class (built once, deterministic)

_REAL = None


def real_contours():
    global _REAL
    if _REAL is not None:
        return _REAL
    import virocon as vc

    out = {}
    with warnings.catch_warnings():
        warnings.simplefilter("ignore")
        model, sem = vanem_model()
        sample = model.draw_sample(10000, random_state=7)
        makers = {
            "IFORM": lambda: vc.IFORMContour(model, 0.01, n_points=40),
            "ISORM": lambda: vc.ISORMContour(model, 0.01, n_points=37),
            "HDC": lambda: vc.HighestDensityContour(model, 0.05, limits=[(0, 12), (0, 20)], deltas=[0.25, 0.25]),
            "DirectSampling": lambda: vc.DirectSamplingContour(model, 0.01, sample=sample, deg_step=6),
            "And": lambda: vc.AndContour(model, 0.01, sample=sample, deg_step=3),
            "Or": lambda: vc.OrContour(model, 0.01, sample=sample, deg_step=3),
        }
        for name, mk in makers.items():
            out[name] = (mk(), sem)
        dd = [
            {"distribution": vc.WeibullDistribution(alpha=2.776, beta=1.471, gamma=0.8888)},
            {"distribution": vc.LogNormalDistribution(mu=1.2, sigma=0.3)},
            {"distribution": vc.WeibullDistribution(alpha=9.0, beta=2.0, gamma=0.0)},
        ]
        m3 = vc.GlobalHierarchicalModel(dd)
        out["IFORM3D"] = (vc.IFORMContour(m3, 0.01, n_points=12), None)
        sem3 = {"names": ["Wave height", "Wave period", "Wind speed"], "symbols": ["H_s", "T_z", "V"], "units": ["m", "s", "m/s"]}
        out["ISORM3D"] = (vc.ISORMContour(m3, 0.01, n_points=10), sem3)
        out["HDC3D"] = (vc.HighestDensityContour(m3, 0.05, limits=[(0, 12), (0, 12), (0, 30)], deltas=[0.5, 0.5, 1.0]), sem3)
    _REAL = out
    return out


class Stub:
    """stands for any Contour: the functions under test only read `.coordinates`"""

    def __init__(self, coords):
        self.coordinates = coords


def real_save_cases():
    k = 0
    for name in ["IFORM", "ISORM", "HDC", "DirectSampling", "And", "Or", "IFORM3D", "ISORM3D", "HDC3D"]:
        for with_sem in (False, True):
            k += 1
            yield {"kind": "save", "contour": name, "with_sem": with_sem,
                   "path": "out/" + name + ("" if with_sem else ".txt"), "gen": "real",
                   "call": ["positional", "omit", "keyword"][k % 3], "overwrite": k % 4 == 0,
                   "path_type": "pathlib" if (k % 5 == 0 and not with_sem) else "str"}


# ---------------------------------------------------------------------------
# save_contour_coordinates: implementation run, oracle, model


JUNK = "stale; content of an earlier file\n" * 40


def run_save_impl(contour, semantics, relpath, call="positional", overwrite=False, path_type="str"):
    """call: 'positional' (contour, path, semantics) / 'omit' (no semantics argument when it is None) / 'keyword';
    overwrite: a longer file with other content already exists at the target; path_type 'pathlib': a pathlib.Path is
    passed (only when str(Path(p)) == p, i.e. pathlib does not normalise the path)"""
    import pathlib

    from virocon import save_contour_coordinates

    tmp = tempfile.mkdtemp(prefix="c20-", dir=TMP_ROOT)
    try:
        full = tmp + "/" + relpath
        os.makedirs(os.path.dirname(full) or tmp, exist_ok=True)
        target = full if has_extension(full) else full + ".txt"
        if overwrite and not os.path.isdir(target):
            with open(target, "w", encoding="utf-8") as f:
                f.write(JUNK)
        before = {}
        for root, _, files in os.walk(tmp):
            for f in files:
                before[os.path.join(root, f)] = open(os.path.join(root, f), "rb").read()
        arg = full
        used_pathlib = False
        if path_type == "pathlib" and str(pathlib.Path(full)) == full:
            arg = pathlib.Path(full)
            used_pathlib = True
        try:
            with warnings.catch_warnings():
                warnings.simplefilter("ignore")
                if call == "omit" and semantics is None:
                    save_contour_coordinates(contour, arg)
                elif call == "keyword":
                    save_contour_coordinates(contour=contour, file_path=arg, semantics=semantics)
                else:
                    save_contour_coordinates(contour, arg, semantics)
        except Exception as e:  # noqa: BLE001
            return {"err": type(e).__name__, "msg": str(e)[:200], "full": full, "pathlib": used_pathlib}
        new = []
        for root, _, files in os.walk(tmp):
            for f in files:
                p = os.path.join(root, f)
                if p not in before or open(p, "rb").read() != before[p]:
                    new.append(p)
        out = {"full": full, "files": sorted(new), "pathlib": used_pathlib}
        if len(new) == 1:
            raw = open(new[0], "rb").read()
            out["text"] = raw.decode(locale.getpreferredencoding(False))
            if out["text"].count("\n") < 400:
                try:
                    with warnings.catch_warnings():
                        warnings.simplefilter("ignore")
                        out["loadtxt"] = np.loadtxt(new[0], delimiter=";", skiprows=1, ndmin=2)
                except Exception as e:  # noqa: BLE001
                    out["loadtxt_err"] = str(e)[:100]
        return out
    finally:
        shutil.rmtree(tmp, ignore_errors=True)


def pathlib_no_ext_refused(impl):
    """a pathlib.Path WITHOUT extension: the documented type of file_path is str, `file_path += ".txt"` raises TypeError
    for a Path. Outside the documented input domain: accepted and counted, not asserted."""
    return impl.get("pathlib") and impl.get("err") == "TypeError" and not has_extension(impl["full"])


def expected_header(semantics, n_dim):
    if semantics is None:
        return ";".join(f"Variable {d + 1} (arb. unit)" for d in range(n_dim))
    if len(semantics["names"]) < n_dim or len(semantics["units"]) < n_dim:
        return None
    return ";".join(f"{semantics['names'][d]} ({semantics['units'][d]})" for d in range(n_dim))


def oracle_save(coords, semantics, impl):
    """property clauses on the implementation's own output -> list of (predicate, detail)"""
    bad = []
    n_rows, n_dim = coords.shape
    hdr = expected_header(semantics, n_dim)
    if "err" in impl:
        if hdr is None and impl["err"] == "IndexError":
            return bad
        if pathlib_no_ext_refused(impl):
            return bad
        bad.append(("save_raises", f"{impl['err']}: {impl.get('msg')}"))
        return bad
    if hdr is None:
        bad.append(("short_semantics_accepted", "semantics shorter than n_dim but no error"))
        return bad
    full = impl["full"]
    want = full if has_extension(full) else full + ".txt"
    if impl["files"] != [want]:
        bad.append(("txt_appended_iff_no_extension", f"path {full!r}: wrote {impl['files']!r}, expected {want!r}"))
    if "text" not in impl:
        return bad
    text = impl["text"]
    if "\n" in hdr:
        if not text.startswith(hdr + "\n"):
            bad.append(("header_from_semantics", f"file starts {text[:80]!r}, expected {hdr!r}"))
        return bad
    lines = text.split("\n")
    if lines[0] != hdr:
        bad.append(("header_from_semantics", f"first line {lines[0][:120]!r}, expected {hdr[:120]!r}"))
    if lines[-1] != "":
        bad.append(("lines_newline_terminated", "file does not end with a newline"))
    rows = lines[1:-1]
    if len(rows) != n_rows:
        bad.append(("one_row_per_point", f"{len(rows)} data lines for {n_rows} contour points"))
        return bad
    for i, line in enumerate(rows):
        f = line.split(";")
        if len(f) != n_dim:
            bad.append(("fields_per_row", f"row {i}: {len(f)} ';'-separated fields for {n_dim} dimensions: {line[:80]!r}"))
            break
        ok = True
        for j in range(n_dim):
            if not FIELD_RE.match(f[j]):
                bad.append(("six_decimals_format", f"row {i} col {j}: field {f[j]!r}"))
                ok = False
                break
            w = fmt6_exact(coords[i, j])
            if f[j] != w:
                bad.append(("row_values_rounded_6_decimals",
                            f"row {i} col {j}: value {float(coords[i, j])!r} written as {f[j]!r}, "
                            f"its exact value rounds to {w!r}"))
                ok = False
                break
        if not ok:
            break
    return bad


def save_model_lines(coords, semantics, full):
    n_rows, n_dim = coords.shape
    line = ["RUN", "save20"]
    if semantics is None:
        line += ["0", str(n_dim)]
    else:
        line += ["1", str(n_dim), str(len(semantics["names"]))] + [stok(s) for s in semantics["names"]]
        line += [str(len(semantics["units"]))] + [stok(s) for s in semantics["units"]]
    line += [str(n_rows), str(n_dim)] + [str(int(b)) for b in bits(coords).ravel()]
    return [line, ["RUN", "savepath", stok(full)]]


def dec_tokens(t, p):
    """parse one decOut value from tokens t at p -> (exact value or 'nan'/'inf'/'-inf', new p)"""
    if t[p] == "f":
        neg, mant, scale = t[p + 1] == "1", int(t[p + 2]), int(t[p + 3])
        return ((-1 if neg else 1) * Fraction(mant, 10**scale), neg), p + 4
    if t[p] == "nan":
        return ("nan", False), p + 1
    return ("-inf" if t[p + 1] == "1" else "inf", t[p + 1] == "1"), p + 2


def dec_to_float(v):
    val, neg = v
    if isinstance(val, str):
        return float(val)
    x = val.numerator / val.denominator  # int / int: correctly rounded
    return -0.0 if (neg and x == 0) else x


def process_save(ck, cases):
    lines, recs = [], []
    for case in cases:
        if case.get("gen") == "real":
            contour, sem = real_contours()[case["contour"]]
            semantics = sem if case["with_sem"] else None
            coords = np.asarray(contour.coordinates, dtype=np.float64)
            relpath = case["path"]
        else:
            coords, semantics, relpath = materialize_save(case)
            contour = Stub(coords)
        impl = run_save_impl(contour, semantics, relpath, case.get("call", "positional"), bool(case.get("overwrite")),
                             case.get("path_type", "str"))
        ml = save_model_lines(coords, semantics, impl["full"])
        extra = 0
        if "text" in impl and "loadtxt" in impl and "\n" not in (expected_header(semantics, coords.shape[1]) or "\n"):
            ml.append(["RUN", "parsetext", stok(impl["text"])])
            extra = 1
        recs.append((case, coords, semantics, impl, len(lines), extra))
        lines += ml
    ans = ck.driver.run(lines) if lines else []
    for case, coords, semantics, impl, p, extra in recs:
        n_rows, n_dim = coords.shape
        finite = bool(np.isfinite(coords).all())
        ck.case(case, nontrivial=(n_rows >= 2 and n_dim >= 2 and finite) or case.get("focus") == "path")
        ck.count("save:contour=" + case["contour"])
        ck.count("save:n_dim=%d" % n_dim)
        ck.count("save:semantics=" + ("default" if semantics is None else "given"))
        ck.count("save:path_has_ext=%s" % has_extension(impl["full"]))
        if case.get("flavour"):
            ck.count("save:values=" + case["flavour"])
        ck.count("save:call=" + (case.get("call", "positional") if not (case.get("call") == "omit" and semantics is not None)
                                 else "positional"))
        if case.get("overwrite"):
            ck.count("save:target_exists_before(overwritten)")
        if impl.get("pathlib"):
            ck.count("save:path=pathlib.Path," + ("ext" if has_extension(impl["full"]) else
                                                  ("no_ext:TypeError(str documented)" if pathlib_no_ext_refused(impl) else "no_ext:accepted")))
        bad = oracle_save(coords, semantics, impl)
        for pred, detail in bad:
            ck.fail({"entry": "save_contour_coordinates", "predicate": pred}, case, detail)
        hdr = expected_header(semantics, n_dim)
        if hdr is not None and "\n" in hdr:
            ck.count("save:header_with_newline(not one line)")
        div = None
        m_txt, m_path = ans[p], ans[p + 1]
        if pathlib_no_ext_refused(impl):
            pass
        elif m_txt.startswith("ERR"):
            if "err" not in impl or impl["err"] != "IndexError":
                div = f"model {m_txt} impl {impl.get('err', 'wrote file')}"
            else:
                ck.count("save:IndexError_both")
        elif "err" in impl:
            div = f"impl raised {impl['err']} ({impl.get('msg')}), model wrote a file"
        else:
            mt = unesc(m_txt.split(" ", 1)[1])
            mp = unesc(m_path.split(" ")[1])
            if impl["files"] != [mp]:
                div = f"path: impl wrote {impl['files']!r}, model {mp!r}"
            elif impl.get("text") != mt:
                it = impl.get("text", "")
                k = next((i for i in range(min(len(it), len(mt))) if it[i] != mt[i]), min(len(it), len(mt)))
                div = f"file content differs at char {k}: impl {it[max(0, k - 30):k + 30]!r} model {mt[max(0, k - 30):k + 30]!r}"
            elif extra:
                t = ans[p + 2].split()
                if t[0] != "OK":
                    div = "model parseText rejects the written file"
                else:
                    lt = impl["loadtxt"]
                    q = 2
                    nr = int(t[q]); q += 1
                    vals = []
                    for _ in range(nr):
                        nc = int(t[q]); q += 1
                        row = []
                        for _ in range(nc):
                            v, q = dec_tokens(t, q)
                            row.append(dec_to_float(v))
                        vals.append(row)
                    mv = np.array(vals, dtype=np.float64).reshape(nr, n_dim) if nr else np.zeros((0, n_dim))
                    if nr and not same_vals(mv, lt.reshape(mv.shape) if lt.size == mv.size else lt):
                        div = "np.loadtxt of the written file differs from the model's parseText"
                    ck.hyp_checked += int(mv.size)
        if div is not None and not bad:
            ck.diverge("save_contour_coordinates", case, div)
        elif div is not None:
            ck.count("divergence_with_oracle_failure")


# ---------------------------------------------------------------------------
# plot_2D_contour


def ellipse(rng, n):
    c = rng.uniform(1, 10, 2)
    r = rng.uniform(0.5, 0.9, 2) * c
    t0 = rng.uniform(0, 2 * np.pi)
    t = t0 + np.linspace(0, 2 * np.pi, n, endpoint=False) * (1 if rng.integers(0, 2) else -1)
    return np.c_[c[0] + r[0] * np.cos(t), c[1] + r[1] * np.sin(t)]


def materialize_plot(case):
    """-> contour object, coords, sample, dc argument, semantics"""
    if case.get("contour", "stub") != "stub" and case.get("contour") != "ellipse":
        contour, sem = real_contours()[case["contour"]]
        coords = np.asarray(contour.coordinates, dtype=np.float64)
    else:
        contour = None
    rng = sub_rng(case) if isinstance(case.get("gen"), list) else np.random.default_rng(0)
    if contour is None:
        if "coords" in case:
            coords = np.array(case["coords"], dtype=np.float64).reshape(-1, 2)
        elif case.get("contour") == "ellipse":
            coords = ellipse(rng, case["n_pts"])
        else:
            coords = gen_values(rng, 2 * case["n_pts"], case.get("flavour", "sea")).reshape(-1, 2)
        contour = Stub(coords)
    sample = None
    if case.get("n_sample") is not None:
        sample = gen_values(rng, 2 * case["n_sample"], "sea").reshape(-1, 2)
        if case.get("sample_type") == "frame":
            import pandas as pd

            sample = pd.DataFrame(sample, columns=["a", "b"])
        elif case.get("sample_type") == "list":
            sample = sample.tolist()
    dc = {"none": None, "true": True, "false": False}.get(case["dc"], "arr")
    if dc == "arr":
        if "dc_pts" in case:
            dc = np.array(case["dc_pts"], dtype=np.float64).reshape(-1, 2)
        else:
            dc = gen_values(rng, 2 * case["n_dc"], "sea").reshape(-1, 2)
    return contour, coords, sample, dc, case.get("semantics")


def label_of(sem, i):
    return f"{sem['names'][i]}," + r" $\it{" + f"{sem['symbols'][i]}" + r"}$" + f" ({sem['units'][i]})"


def run_plot_impl(contour, sample, dc, semantics, swap, ax_mode="left"):
    """ax_mode 'left': the caller supplies an axes that is NOT pyplot's current axes (left panel of a two-panel figure,
    the right panel is current); 'none': ax=None, the function creates its own figure (a decoy figure is current before
    the call and must stay untouched); 'current': the supplied axes is pyplot's current axes"""
    import matplotlib.pyplot as plt
    from virocon import plot_2D_contour

    plt.close("all")
    if ax_mode == "none":
        _, other = plt.subplots()
        ax = None
    elif ax_mode == "current":
        _, ax = plt.subplots()
        other = None
    else:
        _, (ax, other) = plt.subplots(1, 2)
    try:
        try:
            with warnings.catch_warnings():
                warnings.simplefilter("ignore")
                if ax is None:
                    ret = plot_2D_contour(contour, sample=sample, design_conditions=dc, semantics=semantics, swap_axis=swap)
                else:
                    ret = plot_2D_contour(contour, sample=sample, design_conditions=dc, semantics=semantics,
                                          swap_axis=swap, ax=ax)
        except Exception as e:  # noqa: BLE001
            return {"err": type(e).__name__, "msg": str(e)[:200]}
        rax = ret[0] if isinstance(ret, tuple) else ret
        if not (hasattr(rax, "lines") and hasattr(rax, "collections")):
            return {"err": "NoAxesReturned", "msg": f"returned {type(rax).__name__} instead of a matplotlib axes"}
        out = {
            "lines": [np.c_[np.asarray(l.get_xdata(orig=False), dtype=float),
                            np.asarray(l.get_ydata(orig=False), dtype=float)] for l in rax.lines],
            "colls": [np.asarray(np.ma.getdata(c.get_offsets()), dtype=float).reshape(-1, 2) for c in rax.collections],
            "xlabel": rax.get_xlabel(), "ylabel": rax.get_ylabel(),
            "ret_tuple": isinstance(ret, tuple),
            "ax_mode": ax_mode,
            # artists that ended up in an axes the function was not asked to draw into
            "stray": 0 if other is None else len(other.lines) + len(other.collections),
            "stray_labels": "" if other is None else other.get_xlabel() + other.get_ylabel(),
        }
        out["ret_ax_ok"] = (rax is ax) if ax is not None else (rax is not other)
        if isinstance(ret, tuple):
            try:
                out["ret_dc"] = None if isinstance(ret[1], (bool, type(None))) else np.asarray(ret[1], dtype=float)
            except Exception:  # noqa: BLE001
                out["ret_dc"] = "unreadable"
        return out
    finally:
        plt.close("all")


def oracle_plot(case, contour, coords, sample, dc, semantics, swap, impl):
    from virocon import calculate_design_conditions
    from virocon.plotting import get_default_semantics

    bad = []
    xi, yi = (1, 0) if swap else (0, 1)
    if len(coords) == 0:
        # an empty contour is outside the property's quantifier: IndexError or an empty drawing are both accepted
        return bad, None
    if "err" in impl:
        if isinstance(dc, np.ndarray) and impl["err"] == "ValueError" and "truth value" in impl.get("msg", ""):
            bad.append(("design_conditions_array_accepted",
                        f"design_conditions=ndarray{dc.shape} raises ValueError: {impl['msg']}"))
        else:
            bad.append(("plot_raises", f"{impl['err']}: {impl.get('msg')}"))
        return bad, None
    if len(impl["lines"]) != 1:
        bad.append(("one_contour_line", f"{len(impl['lines'])} lines drawn"))
        return bad, None
    line = impl["lines"][0]
    n = len(coords)
    want = np.r_[coords[:, [xi, yi]], coords[:1, [xi, yi]]]
    if line.shape[0] != n + 1:
        bad.append(("polyline_closed", f"line has {line.shape[0]} points for a contour of {n} points"))
    elif not same_vals(line[-1], line[0]):
        bad.append(("polyline_closed", f"last point {line[-1]} != first point {line[0]}"))
    elif not same_vals(line, want):
        k = int(np.argmax(~np.all((line == want) | (np.isnan(line) & np.isnan(want)), axis=1)))
        bad.append(("polyline_points_in_order_swap_iff", f"swap_axis={swap}: point {k} drawn {line[k]} expected {want[k]}"))
    exp_colls = []
    dflt = None
    if dc is True:
        with warnings.catch_warnings():
            warnings.simplefilter("ignore")
            dflt = np.asarray(calculate_design_conditions(contour, swap_axis=swap), dtype=float).reshape(-1, 2)
        exp_colls.append(("design_conditions_default", dflt))
    elif isinstance(dc, np.ndarray):
        exp_colls.append(("design_conditions_as_supplied", dc))
    if sample is not None:
        s = np.asarray(sample, dtype=float)
        exp_colls.append(("sample_as_supplied_swap_iff", s[:, [xi, yi]]))
    if len(impl["colls"]) != len(exp_colls):
        bad.append(("scatter_count", f"{len(impl['colls'])} scatter collections, expected {len(exp_colls)}"))
    else:
        for (pred, w), got in zip(exp_colls, impl["colls"]):
            if not same_vals(got, w):
                bad.append((pred, f"offsets {got[:3].tolist()}… expected {w[:3].tolist()}… (shapes {got.shape} {w.shape})"))
    sem = semantics if semantics is not None else get_default_semantics(2)
    if impl["xlabel"] != label_of(sem, xi) or impl["ylabel"] != label_of(sem, yi):
        bad.append(("axis_labels_swap_iff", f"xlabel {impl['xlabel']!r} ylabel {impl['ylabel']!r}"))
    if not impl["ret_ax_ok"]:
        bad.append(("returns_axes", "returned axes object is not the one plotted into" if impl["ax_mode"] != "none"
                    else "ax=None: drew into an axes that existed before the call instead of a new figure"))
    if impl["stray"] or impl["stray_labels"]:
        bad.append(("draws_into_given_axes",
                    f"ax_mode={impl['ax_mode']}: {impl['stray']} artist(s) / labels {impl['stray_labels']!r} ended up in "
                    "another axes (pyplot's current one) than the one supplied / returned"))
    # returned design conditions (when the function returns them): the ones that were drawn
    if impl["ret_tuple"] and impl.get("ret_dc") is not None and (dc is True or isinstance(dc, np.ndarray)):
        want_dc = dflt if dc is True else dc
        got_dc = impl["ret_dc"]
        if isinstance(got_dc, str) or not same_vals(np.asarray(got_dc, dtype=float).reshape(-1, 2), want_dc):
            bad.append(("returned_design_conditions_are_the_drawn_ones",
                        f"swap_axis={swap}: returned {np.asarray(got_dc).tolist()[:3] if not isinstance(got_dc, str) else got_dc}… "
                        f"drawn / expected {np.asarray(want_dc).tolist()[:3]}…"))
    return bad, dflt


def process_plot(ck, cases):
    lines, recs = [], []
    for case in cases:
        contour, coords, sample, dc, semantics = materialize_plot(case)
        swap = bool(case["swap"])
        impl = run_plot_impl(contour, sample, dc, semantics, swap, case.get("ax_mode", "left"))
        bad, dflt = oracle_plot(case, contour, coords, sample, dc, semantics, swap, impl)
        p = len(lines)
        lines.append(["RUN", "polyline", "1" if swap else "0"] + fl(coords.ravel()))
        s = np.asarray(sample, dtype=float) if sample is not None else np.zeros((0, 2))
        lines.append(["RUN", "scatter", "1" if swap else "0"] + fl(s.ravel()))
        kind = case["dc"] if case["dc"] in ("none", "true", "false") else "arr"
        d0 = dflt if dflt is not None else np.zeros((0, 2))
        d1 = dc if isinstance(dc, np.ndarray) else np.zeros((0, 2))
        lines.append(["RUN", "design", kind] + fl(d0.ravel()) + fl(d1.ravel()))
        recs.append((case, coords, sample, dc, impl, bad, p))
    ans = ck.driver.run(lines) if lines else []
    for case, coords, sample, dc, impl, bad, p in recs:
        ck.case(case, nontrivial=len(coords) >= 3)
        ck.count("plot2d:swap=%s" % bool(case["swap"]))
        ck.count("plot2d:design_conditions=" + (case["dc"] if case["dc"] in ("none", "true", "false") else "array"))
        ck.count("plot2d:sample=" + ("none" if sample is None else case.get("sample_type", "array")))
        ck.count("plot2d:contour=" + case.get("contour", "stub"))
        ck.count("plot2d:ax=" + {"left": "given(not current)", "none": "None", "current": "given(current)"}[case.get("ax_mode", "left")])
        if isinstance(dc, np.ndarray) and len(dc) == 0:
            ck.count("plot2d:design_conditions=empty_array")
        if impl.get("ret_tuple") and impl.get("ret_dc") is not None and (dc is True or isinstance(dc, np.ndarray)):
            ck.count("plot2d:returned_design_conditions_checked")
        for pred, detail in bad:
            ck.fail({"entry": "plot_2D_contour", "predicate": pred}, case, detail)
        div = None
        mline, mscat, mdc = pairs_from_answer(ans[p]), pairs_from_answer(ans[p + 1]), pairs_from_answer(ans[p + 2])
        if len(coords) == 0:
            ck.count("plot2d:empty_contour(" + ("model and impl refuse" if "err" in impl and "err" in mline else "not compared") + ")")
        elif "err" in impl:
            if not ("err" in mline and impl["err"] == "IndexError"):
                div = f"impl raised {impl['err']}: {impl.get('msg')}; model {list(mline)[0]}"
        elif "err" in mline:
            div = "model: empty contour is an error, impl drew something"
        else:
            if len(impl["lines"]) != 1 or not same_bits(impl["lines"][0], mline["pts"]):
                div = "Line2D data differ from the model's closed polyline"
            colls = list(impl["colls"])
            if div is None and "pts" in mdc:
                if not colls or not same_bits(colls[0], mdc["pts"]):
                    div = "design-condition offsets differ from the model"
                colls = colls[1:]
            if div is None and sample is not None:
                if not colls or not same_bits(colls[0], mscat["pts"]):
                    div = "sample offsets differ from the model's scatter points"
                colls = colls[1:]
            if div is None and colls:
                div = f"{len(colls)} unexpected scatter collection(s)"
        if div is not None and not bad:
            ck.diverge("plot_2D_contour", case, div)
        elif div is not None:
            ck.count("divergence_with_oracle_failure")


def plot_cases(rng, seed, n_cases, start):
    names = ["IFORM", "ISORM", "HDC", "DirectSampling", "And", "Or"]
    for i in range(n_cases):
        k = int(rng.integers(0, 10))
        case = {"kind": "plot2d", "gen": [seed, start + i], "swap": bool(rng.integers(0, 2))}
        if k <= 2:
            case["contour"] = names[int(rng.integers(0, len(names)))]
        elif k <= 5:
            case["contour"] = "ellipse"
            case["n_pts"] = int(rng.choice([3, 4, 7, 30, 180]))
        else:
            case["contour"] = "stub"
            case["n_pts"] = int(rng.choice([1, 2, 3, 5, 50, 400]))
            case["flavour"] = str(rng.choice(["sea", "decades", "ints"]))
        convex = case["contour"] in ("ellipse", "IFORM", "ISORM")
        case["dc"] = str(rng.choice(["none", "true", "array", "array", "false"] if convex else ["none", "array", "array", "false"]))
        if case["dc"] == "array":
            case["n_dc"] = int(rng.choice([1, 2, 3, 10, 0]))
        case["ax_mode"] = ["left", "none", "left", "current"][i % 4]
        if rng.integers(0, 3):
            case["n_sample"] = int(rng.choice([1, 2, 10, 500]))
            case["sample_type"] = str(rng.choice(["array", "array", "frame", "list"]))
        if rng.integers(0, 2):
            case["semantics"] = {"names": [rand_str(rng, 1, 8), rand_str(rng, 1, 8)],
                                 "symbols": ["H_s", "T_z"], "units": ["m", "s"]}
        yield case


# ---------------------------------------------------------------------------
# the other plot functions: what is handed to matplotlib


class Recorder:
    """records the arguments of Axes.hist / Axes.contour while the plot functions run"""

    def __enter__(self):
        import matplotlib.axes as maxes

        self.hist, self.contour = [], []
        self._oh, self._oc = maxes.Axes.hist, maxes.Axes.contour
        rec = self

        def hist(ax, x, *a, **k):
            rec.hist.append((ax, np.array(x, dtype=float), dict(k)))
            return rec._oh(ax, x, *a, **k)

        def contour(ax, *a, **k):
            rec.contour.append((ax, [np.array(v, dtype=float) for v in a], dict(k)))
            return rec._oc(ax, *a, **k)

        maxes.Axes.hist, maxes.Axes.contour = hist, contour
        return self

    def __exit__(self, *exc):
        import matplotlib.axes as maxes

        maxes.Axes.hist, maxes.Axes.contour = self._oh, self._oc


_DATA = {}


def dataset(name):
    if name not in _DATA:
        # read independently of the function under test
        rows = [l.split(";")[1:] for l in open(os.path.join(REPO, "datasets", name), encoding="utf-8").read().split("\n")[1:] if l]
        _DATA[name] = np.array([[float(v) for v in r] for r in rows], dtype=float)
    return _DATA[name]


MODELS = {
    "OMAE2020_V_Hs": ("get_OMAE2020_V_Hs", "ec-benchmark_dataset_D_1year.txt"),
    "DNVGL_Hs_Tz": ("get_DNVGL_Hs_Tz", "ec-benchmark_dataset_A_1year.txt"),
    "OMAE2020_Hs_Tz": ("get_OMAE2020_Hs_Tz", "ec-benchmark_dataset_B_1year.txt"),
}


def vanem_model():
    import virocon as vc

    def _power3(x, a=0.1000, b=1.489, c=0.1901):
        return a + b * x**c

    def _exp3(x, a=0.0400, b=0.1748, c=-0.2243):
        return a + b * np.exp(c * x)

    bounds = [(0, None), (0, None), (None, None)]
    power3 = vc.DependenceFunction(_power3, bounds, latex="$a + b * x^{c}$")
    exp3 = vc.DependenceFunction(_exp3, bounds)
    d0 = {"distribution": vc.WeibullDistribution(alpha=2.776, beta=1.471, gamma=0.8888)}
    d1 = {"distribution": vc.LogNormalDistribution(), "conditional_on": 0, "parameters": {"mu": power3, "sigma": exp3}}
    sem = {"names": ["Significant wave height", "Zero-up-crossing wave period"], "symbols": ["H_s", "T_z"], "units": ["m", "s"]}
    return vc.GlobalHierarchicalModel([d0, d1]), sem


def _c3_lin(x, a=1.0, b=0.5):
    return a + b * x


def _c3_pow(x, a=0.1, b=1.4, c=0.3):
    return a + b * x**c


def _c3_exp(x, a=0.05, b=0.2, c=-0.2):
    return a + b * np.exp(c * x)


def chain3d_model(fitted, rng, n, shape="2+2"):
    """X0 Weibull; X1 | X0 log-normal (mu, sigma dependent); X2 | X1 Weibull (alpha, beta dependent): two conditional
    dimensions, four dependent parameters -> four axes, in the order of the dimensions"""
    import virocon as vc

    def descs(for_fit):
        kw = {} if not for_fit else {"bounds": [(0, None), (0, None), (None, None)]}
        kw2 = {} if not for_fit else {"bounds": [(0, None), (0, None)]}
        if shape != "2+2":
            # conditional dimensions with DIFFERENT numbers of dependent parameters ("2+1" / "1+2"): the axes of the
            # dependence plot are still one per dependent parameter, in the order of the dimensions
            two = {"distribution": vc.LogNormalDistribution(), "parameters": {"mu": vc.DependenceFunction(_c3_pow, **kw),
                                                                              "sigma": vc.DependenceFunction(_c3_exp, **kw)}}
            one = {"distribution": vc.LogNormalDistribution(f_sigma=0.3), "parameters": {"mu": vc.DependenceFunction(_c3_pow, **kw)}}
            first, second = (two, one) if shape == "2+1" else (one, two)
            return [
                {"distribution": vc.WeibullDistribution(alpha=2.5, beta=1.5, gamma=0.5) if not for_fit else vc.WeibullDistribution(),
                 "intervals": vc.NumberOfIntervalsSlicer(5, min_n_points=20)},
                dict(first, conditional_on=0, intervals=vc.NumberOfIntervalsSlicer(4, min_n_points=20)),
                dict(second, conditional_on=1),
            ]
        return [
            {"distribution": vc.WeibullDistribution(alpha=2.5, beta=1.5, gamma=0.5) if not for_fit else vc.WeibullDistribution(),
             "intervals": vc.NumberOfIntervalsSlicer(5, min_n_points=20)},
            {"distribution": vc.LogNormalDistribution(), "conditional_on": 0,
             "parameters": {"mu": vc.DependenceFunction(_c3_pow, **kw), "sigma": vc.DependenceFunction(_c3_exp, **kw)},
             "intervals": vc.NumberOfIntervalsSlicer(4, min_n_points=20)},
            {"distribution": vc.WeibullDistribution(f_gamma=0.0), "conditional_on": 1,
             "parameters": {"alpha": vc.DependenceFunction(_c3_lin, **kw2), "beta": vc.DependenceFunction(_c3_lin, **kw2)}},
        ]

    sem = {"names": ["first", "second", "third"], "symbols": ["X_0", "X_1", "X_2"], "units": ["a", "b", "c"]}
    gen = vc.GlobalHierarchicalModel(descs(False))
    if not fitted:
        return gen, None, sem
    sample = gen.draw_sample(n, random_state=int(rng.integers(0, 2**31)))
    model = vc.GlobalHierarchicalModel(descs(True))
    with warnings.catch_warnings():
        warnings.simplefilter("ignore")
        model.fit(sample)
    return model, sample, sem


def materialize_model(case):
    import virocon as vc

    if case["model"] == "VanemBG":
        model, sem = vanem_model()
        return model, None, sem
    if case["model"] == "Chain3D":
        return chain3d_model(case["fitted"], sub_rng(case), case.get("n_sample", 1500), case.get("shape", "2+2"))
    getter, ds = MODELS[case["model"]]
    dd, fd, sem = getattr(vc, getter)()
    model = vc.GlobalHierarchicalModel(dd)
    sample = None
    if case["fitted"]:
        rng = sub_rng(case)
        data = dataset(ds)
        sample = data[np.sort(rng.choice(len(data), case["n_sample"], replace=False))]
        with warnings.catch_warnings():
            warnings.simplefilter("ignore")
            model.fit(sample, fd)
    return model, sample, sem


def names_in_label(label, sem, i, lower=False):
    """the label names variable i (its name and unit; the exact wording is not part of the property)"""
    name = sem["names"][i].lower() if lower else sem["names"][i]
    return name in label and sem["units"][i] in label


def as_sample_arg(sample, sample_type):
    """the `sample` argument as an ndarray / a list of rows / a DataFrame (the plot functions convert with np.asarray)"""
    if sample is None or sample_type == "array":
        return sample
    if sample_type == "list":
        return sample.tolist()
    import pandas as pd

    return pd.DataFrame(sample, columns=[f"c{j}" for j in range(sample.shape[1])])


def curve_check(ck, tables, lines, checks, tag, xs_impl, ys_impl, a, b, num, leaf, what):
    """register: xs must be linspace(a,b,num) (model, bit exact), ys must be leaf(xs) (TABLE of direct call)"""
    with warnings.catch_warnings():
        warnings.simplefilter("ignore")
        direct = np.asarray(leaf(np.asarray(xs_impl, dtype=float)), dtype=float)
    for x, y in zip(np.asarray(xs_impl, dtype=float), direct):
        lines.append(["TABLE", tag, str(f2b(x)), str(f2b(y))])
    lines.append(["RUN", "linspace", str(f2b(a)), str(f2b(b)), str(num)])
    lines.append(["RUN", "curve", tag] + fl(xs_impl))
    checks.append((what, np.asarray(xs_impl, dtype=float), np.asarray(ys_impl, dtype=float), direct))


def process_models(ck, cases):
    """dependence functions, interval histograms, isodensity, marginal quantiles"""
    import matplotlib.pyplot as plt
    import scipy.stats as sts
    import virocon as vc

    for case in cases:
        try:
            model, sample, sem = materialize_model(case)
        except RuntimeError as e:
            # the optimiser behind a dependence-function fit gave up on this particular sub-sample: nothing to plot
            if "Failed to fit dependence function" not in str(e) and "too few intervals" not in str(e):
                raise
            ck.count("models:fit_failed_on_subsample")
            continue
        semantics = sem if case.get("with_sem", True) else None
        from virocon.plotting import get_default_semantics

        sem_used = semantics if semantics is not None else get_default_semantics(model.n_dim)
        sample_type = case.get("sample_type", "array")
        # which optional arguments are used (par_rename, axes=) is a function of the case, so that a replay repeats it
        variant = int(case.get("variant", case["gen"][1] if isinstance(case.get("gen"), list) else 0))
        sample_arg = as_sample_arg(sample, sample_type)
        bad = []      # (entry, predicate, detail)
        lines = []    # driver lines
        checks = []   # curve checks in the order of the RUN linspace / RUN curve pairs
        cond_dims = [d for d in range(model.n_dim) if model.conditional_on[d] is not None]

        # -- plot_dependence_functions ------------------------------------------------
        try:
            with warnings.catch_warnings():
                warnings.simplefilter("ignore")
                # par_rename only changes axis labels; the curves and estimates must be the same with and without it
                ren = {}
                if variant % 2:
                    for dist in model.distributions:
                        for par in getattr(dist, "conditional_parameters", {}):
                            ren[par] = "renamed " + par
                    if variant % 4 == 3 and len(ren) >= 2:
                        del ren[sorted(ren)[0]]   # only some of the parameters renamed
                ck.count("models:par_rename=" + ("none" if not ren else "given"))
                n_par = sum(len(model.distributions[d].conditional_parameters) for d in cond_dims)
                if variant % 3 == 1 and n_par >= 2:
                    # axes supplied by the caller: parameter k is drawn into axes[k]
                    _, given = plt.subplots(1, n_par)
                    axes = vc.plot_dependence_functions(model, semantics, par_rename=ren, axes=list(given))
                    if len(axes) != n_par or any(a is not g for a, g in zip(axes, given)):
                        bad.append(("plot_dependence_functions", "draws_into_given_axes", "returned axes are not the supplied ones"))
                    ck.count("models:dep_axes_supplied")
                else:
                    axes = vc.plot_dependence_functions(model, semantics, par_rename=ren)
            k = 0
            for dim in cond_dims:
                dist = model.distributions[dim]
                cv = dist.conditioning_values
                hi = max(cv) if cv is not None else 10
                for par, dep in dist.conditional_parameters.items():
                    ax = axes[k]
                    k += 1
                    # the abscissa is the conditioning variable, the ordinate the parameter (renamed iff in par_rename)
                    ci = model.conditional_on[dim]
                    if not names_in_label(ax.get_xlabel(), sem_used, ci) or sem_used["symbols"][ci] not in ax.get_xlabel():
                        bad.append(("plot_dependence_functions", "xlabel_names_conditioning_variable",
                                    f"dim {dim} parameter {par}: xlabel {ax.get_xlabel()!r}, conditioning variable {ci} is "
                                    f"{sem_used['names'][ci]!r} [{sem_used['symbols'][ci]}] ({sem_used['units'][ci]})"))
                    if (ax.get_ylabel() != ren[par]) if par in ren else (par not in ax.get_ylabel()):
                        bad.append(("plot_dependence_functions", "ylabel_parameter_renamed_iff",
                                    f"dim {dim} parameter {par}: ylabel {ax.get_ylabel()!r}, par_rename {ren!r}"))
                    if len(ax.lines) != 1:
                        bad.append(("plot_dependence_functions", "one_curve_per_axes", f"{len(ax.lines)} lines for {par}"))
                        continue
                    xs = np.asarray(ax.lines[0].get_xdata(orig=False), dtype=float)
                    ys = np.asarray(ax.lines[0].get_ydata(orig=False), dtype=float)
                    curve_check(ck, None, lines, checks, f"dep{dim}{par}", xs, ys, 0.0, float(hi), 50, dep,
                                ("plot_dependence_functions", "dependence_values_unmodified", f"dim {dim} parameter {par}"))
                    if cv is not None:
                        est = np.array([p[par] for p in dist.parameters_per_interval], dtype=float)
                        want = np.c_[np.asarray(cv, dtype=float), est]
                        got = [np.asarray(np.ma.getdata(c.get_offsets()), dtype=float) for c in ax.collections]
                        if len(got) != 1 or not same_vals(got[0], want):
                            bad.append(("plot_dependence_functions", "interval_estimates_unmodified",
                                        f"dim {dim} parameter {par}: scatter {got[0][:3].tolist() if got else None} expected {want[:3].tolist()}"))
                        lines.append(["RUN", "scatter", "0"] + fl(want.ravel()))
                        checks.append((("plot_dependence_functions", "interval_estimates_model", par), got[0] if got else None, None, None))
                    elif ax.collections:
                        bad.append(("plot_dependence_functions", "interval_estimates_unmodified", "scatter drawn for an unfitted model"))
            if k != len(axes):
                bad.append(("plot_dependence_functions", "one_axes_per_parameter", f"{len(axes)} axes for {k} dependent parameters"))
        except Exception as e:  # noqa: BLE001
            bad.append(("plot_dependence_functions", "raises", f"{type(e).__name__}: {e}"))
        plt.close("all")

        if sample is not None:
            # -- plot_histograms_of_interval_distributions --------------------------------
            try:
                with Recorder() as rec, warnings.catch_warnings():
                    warnings.simplefilter("ignore")
                    figs, axes_list = vc.plot_histograms_of_interval_distributions(model, sample_arg, semantics)
                    # plot_pdf=False: the same histograms, no density curve
                    with Recorder() as rec2:
                        _, axes_nopdf = vc.plot_histograms_of_interval_distributions(model, sample_arg, semantics, plot_pdf=False)
                    flat_np = []
                    for a in axes_nopdf:
                        flat_np += list(a) if isinstance(a, (list, tuple, np.ndarray)) else [a]
                    if any(len(a.lines) for a in flat_np):
                        bad.append(("plot_histograms_of_interval_distributions", "plot_pdf_false_draws_no_curve", ""))
                    # (the outer recorder also saw the second call: its first half belongs to the first call)
                    first = rec.hist[: len(rec.hist) - len(rec2.hist)]
                    del rec.hist[len(first):]
                    if len(rec2.hist) != len(first) or any(not same_vals(h2[1], h1[1]) for h1, h2 in zip(first, rec2.hist)):
                        bad.append(("plot_histograms_of_interval_distributions", "plot_pdf_false_same_histograms",
                                    f"{len(rec2.hist)} histograms vs {len(first)}"))
                hist_by_ax = {id(a): x for a, x, _ in rec.hist}
                dens = {id(a): kw.get("density") for a, _, kw in rec.hist}
                for dim in range(model.n_dim):
                    if model.conditional_on[dim] is None:
                        items = [(axes_list[dim], sample[:, dim], model.distributions[dim], None)]
                    else:
                        cd = model.distributions[dim]
                        ci = model.conditional_on[dim]
                        with warnings.catch_warnings():
                            warnings.simplefilter("ignore")
                            masks, cvals, _ = model.interval_slicers[ci].slice_(sample[:, ci])
                        items = [(axes_list[dim][i], sample[masks[i], dim], cd.distributions_per_interval[i], cvals[i])
                                 for i in range(len(cd.distributions_per_interval))]
                    for i, (ax, data, dist, cval) in enumerate(items):
                        hx = hist_by_ax.get(id(ax))
                        if hx is None or not same_vals(hx, data) or dens.get(id(ax)) is not True:
                            bad.append(("plot_histograms_of_interval_distributions", "histogram_of_interval_data",
                                        f"dim {dim} interval {i}: hist got {None if hx is None else hx.shape} expected {data.shape}"))
                        if not names_in_label(ax.get_xlabel(), sem_used, dim) or sem_used["symbols"][dim] not in ax.get_xlabel():
                            bad.append(("plot_histograms_of_interval_distributions", "xlabel_names_variable",
                                        f"dim {dim} interval {i}: xlabel {ax.get_xlabel()!r}, variable is {sem_used['names'][dim]!r}"))
                        if f"n={len(data)}" not in ax.get_title():
                            bad.append(("plot_histograms_of_interval_distributions", "title_counts_data", ax.get_title()))
                        if len(ax.lines) != 1:
                            bad.append(("plot_histograms_of_interval_distributions", "one_pdf_curve", f"{len(ax.lines)} lines"))
                            continue
                        xs = np.asarray(ax.lines[0].get_xdata(orig=False), dtype=float)
                        ys = np.asarray(ax.lines[0].get_ydata(orig=False), dtype=float)
                        curve_check(ck, None, lines, checks, f"pdf{dim}i{i}", xs, ys, float(np.min(data)), float(np.max(data)),
                                    50, dist.pdf,
                                    ("plot_histograms_of_interval_distributions", "pdf_values_unmodified", f"dim {dim} interval {i}"))
            except Exception as e:  # noqa: BLE001
                bad.append(("plot_histograms_of_interval_distributions", "raises", f"{type(e).__name__}: {e}"))
            plt.close("all")

            # -- plot_2D_isodensity -------------------------------------------------------
            for swap in ((False, True) if model.n_dim == 2 else ()):
                try:
                    # configuration of this call: levels given / automatic, axes None / supplied (not pyplot's current
                    # one), n_grid_steps given / default (250)
                    cfg = int(case.get("iso_cfg", 0))
                    lv_given = (cfg % 2 == 0) != swap
                    ax_given = (cfg // 2 % 2 == 0) == swap
                    n_grid = case.get("n_grid", 24)
                    if n_grid is not None and swap and case.get("n_grid_default_when_swapped"):
                        n_grid = None
                    kw = {} if n_grid is None else {"n_grid_steps": int(n_grid)}
                    n_grid_eff = 250 if n_grid is None else int(n_grid)
                    limits = case.get("limits")
                    lv = [1e-4, 1e-3, 1e-2] if lv_given else None
                    ck.count("iso:levels=%s,ax=%s,n_grid=%s,swap=%s" % ("given" if lv_given else "auto", "given" if ax_given else "None",
                                                                      "default" if n_grid is None else "given", swap))
                    ck.count("iso:sample=" + sample_type)
                    plt.close("all")
                    with Recorder() as rec, warnings.catch_warnings():
                        warnings.simplefilter("ignore")
                        if ax_given:
                            # an axes supplied by the caller that is NOT pyplot's current axes (left panel of a
                            # two-panel figure): everything must be drawn into it
                            _, (ax_given_obj, ax_other) = plt.subplots(1, 2)
                            ax = vc.plot_2D_isodensity(model, sample_arg, semantics, swap_axis=swap, limits=limits,
                                                       levels=lv, ax=ax_given_obj, **kw)
                            if ax is not ax_given_obj:
                                bad.append(("plot_2D_isodensity", "draws_into_given_axes", "returned axes is not the supplied one"))
                        else:
                            _, ax_other = plt.subplots()
                            ax = vc.plot_2D_isodensity(model, sample_arg, semantics, swap_axis=swap, limits=limits,
                                                       levels=lv, **kw)
                            if ax is ax_other:
                                bad.append(("plot_2D_isodensity", "draws_into_given_axes",
                                            "ax=None: drew into an axes that existed before the call instead of a new figure"))
                    if ax is not ax_other and (len(ax_other.lines) + len(ax_other.collections) or ax_other.get_legend() is not None
                                               or ax_other.get_xlabel() or ax_other.get_ylabel()):
                        bad.append(("plot_2D_isodensity", "draws_into_given_axes",
                                    f"swap_axis={swap}: artists / legend / labels ended up in another axes than the one supplied / returned"))
                    if len(rec.contour) == 1:
                        got_lv = rec.contour[0][2].get("levels")
                        got_lv = None if got_lv is None else [float(v) for v in np.asarray(got_lv, dtype=float).ravel()]
                        if lv is not None and got_lv != lv:
                            bad.append(("plot_2D_isodensity", "levels_as_supplied", f"levels {got_lv!r} instead of {lv!r}"))
                        if lv is None and (got_lv is None or len(got_lv) == 0 or any(v <= 0 for v in got_lv)
                                           or any(b <= a for a, b in zip(got_lv, got_lv[1:]))):
                            bad.append(("plot_2D_isodensity", "automatic_levels_increasing_positive", f"levels {got_lv!r}"))
                        # the legend says which density each line stands for: label i <-> level i
                        leg = ax.get_legend()
                        labels = [t.get_text() for t in leg.get_texts()] if leg is not None else None
                        if got_lv is not None and labels is not None:
                            try:
                                lab_v = [float(t) for t in labels]
                            except ValueError:
                                lab_v = None
                            if lab_v is not None and (len(lab_v) != len(got_lv) or any(
                                    abs(a - b) > 0.06 * abs(b) for a, b in zip(lab_v, got_lv))):
                                bad.append(("plot_2D_isodensity", "legend_labels_are_the_levels_drawn",
                                            f"swap_axis={swap}: legend {labels!r} for levels {got_lv!r}"))
                            elif lab_v is not None:
                                ck.count("iso:legend_labels_checked")
                    if ax.get_xlabel() != label_of(sem_used, 1 if swap else 0) or ax.get_ylabel() != label_of(sem_used, 0 if swap else 1):
                        bad.append(("plot_2D_isodensity", "axis_labels_swap_iff",
                                    f"swap_axis={swap}: xlabel {ax.get_xlabel()!r} ylabel {ax.get_ylabel()!r}"))
                    if len(rec.contour) == 1 and rec.contour[0][0] is not ax:
                        bad.append(("plot_2D_isodensity", "draws_into_given_axes",
                                    f"swap_axis={swap}: the isodensity lines were drawn into another axes than the one supplied / returned"))
                    xi, yi = (1, 0) if swap else (0, 1)
                    # the sample scatter is drawn first (the deprecated CS.collections access adds further collections)
                    got = [np.asarray(np.ma.getdata(c.get_offsets()), dtype=float) for c in ax.collections[:1]
                           if type(c).__name__ == "PathCollection"]
                    if len(got) != 1 or not same_vals(got[0], sample[:, [xi, yi]]):
                        bad.append(("plot_2D_isodensity", "sample_as_supplied_swap_iff", f"swap_axis={swap}"))
                    if len(rec.contour) != 1 or len(rec.contour[0][1]) != 3:
                        bad.append(("plot_2D_isodensity", "one_contour_call", f"{len(rec.contour)} calls"))
                    else:
                        X, Y, Z = rec.contour[0][1]
                        v1, v2 = (Y, X) if swap else (X, Y)   # values of variable 1 / variable 2 at each grid node
                        pts = np.c_[v1.ravel(), v2.ravel()]
                        with warnings.catch_warnings():
                            warnings.simplefilter("ignore")
                            f = np.asarray(model.pdf(pts), dtype=float)
                        if not same_vals(Z.ravel(), f):
                            j = int(np.argmax(~((Z.ravel() == f) | (np.isnan(f) & np.isnan(Z.ravel())))))
                            bad.append(("plot_2D_isodensity", "pdf_values_unmodified_swap_iff",
                                        f"swap_axis={swap}: node {pts[j].tolist()} drawn {Z.ravel()[j]!r}, model.pdf {f[j]!r}"))
                        if limits is not None:
                            lo1, hi1 = limits[0]
                            lo2, hi2 = limits[1]
                        else:
                            r1 = max(sample[:, 0]) - min(sample[:, 0])
                            r2 = max(sample[:, 1]) - min(sample[:, 1])
                            lo1, hi1 = min(sample[:, 0]) - 0.05 * r1, max(sample[:, 0]) + 0.05 * r1
                            lo2, hi2 = min(sample[:, 1]) - 0.05 * r2, max(sample[:, 1]) + 0.05 * r2
                        ok = (np.isclose(v1.min(), lo1) and np.isclose(v1.max(), hi1)
                              and np.isclose(v2.min(), lo2) and np.isclose(v2.max(), hi2)
                              and (Z.shape == (n_grid_eff, n_grid_eff) if n_grid is not None
                                   else (Z.ndim == 2 and Z.shape[0] == Z.shape[1] >= 2)))
                        if not ok:
                            bad.append(("plot_2D_isodensity", "grid_covers_limits", f"swap_axis={swap}"))
                        # model: Z is the curve of the pdf leaf over the grid nodes (uninterpreted function of two arguments)
                        step = max(1, len(pts) // 80)
                        sub = pts[::step]
                        for (a, b), z in zip(sub, f[::step]):
                            lines.append(["TABLE", f"iso{int(swap)}", str(f2b(a)), str(f2b(b)), str(f2b(z))])
                        lines.append(["RUN", "curve2", f"iso{int(swap)}"] + fl(sub.ravel()))
                        checks.append((("plot_2D_isodensity", "pdf_values_model", f"swap {swap}"), sub, Z.ravel()[::step], None))
                except Exception as e:  # noqa: BLE001
                    bad.append(("plot_2D_isodensity", "raises", f"{type(e).__name__}: {e}"))
                plt.close("all")

            # -- plot_marginal_quantiles --------------------------------------------------
            try:
                with warnings.catch_warnings():
                    warnings.simplefilter("ignore")
                    if (variant // 2) % 2:
                        # axes supplied by the caller (not pyplot's current axes): variable i is drawn into axes[i]
                        _, given = plt.subplots(1, model.n_dim + 1)
                        given = list(given[: model.n_dim])
                        axes = vc.plot_marginal_quantiles(model, sample_arg, semantics, axes=given)
                        if len(axes) != model.n_dim or any(a is not g for a, g in zip(axes, given)):
                            bad.append(("plot_marginal_quantiles", "draws_into_given_axes", "returned axes are not the supplied ones"))
                        ck.count("models:quantile_axes_supplied")
                    else:
                        axes = vc.plot_marginal_quantiles(model, sample_arg, semantics)
                n = len(sample)
                osm = sts._morestats._calc_uniform_order_statistic_medians(n)
                for dim in range(model.n_dim):
                    l0 = axes[dim].get_lines()[0]
                    xs = np.asarray(l0.get_xdata(orig=False), dtype=float)
                    ys = np.asarray(l0.get_ydata(orig=False), dtype=float)
                    if not same_vals(ys, np.sort(sample[:, dim])):
                        bad.append(("plot_marginal_quantiles", "ordered_sample_values", f"dim {dim}"))
                    for which, lab in (("xlabel", axes[dim].get_xlabel()), ("ylabel", axes[dim].get_ylabel())):
                        if not names_in_label(lab, sem_used, dim, lower=True):
                            bad.append(("plot_marginal_quantiles", "labels_name_variable",
                                        f"dim {dim}: {which} {lab!r}, variable is {sem_used['names'][dim]!r} ({sem_used['units'][dim]})"))
                    if model.conditional_on[dim] is None:
                        want = np.asarray(model.marginal_icdf(osm, dim), dtype=float)
                        if not same_vals(xs, want):
                            bad.append(("plot_marginal_quantiles", "theoretical_quantiles_are_marginal_icdf", f"dim {dim}"))
                    elif len(xs) != n or np.any(np.diff(xs) < 0):
                        bad.append(("plot_marginal_quantiles", "theoretical_quantiles_monotone", f"dim {dim}"))
            except Exception as e:  # noqa: BLE001
                bad.append(("plot_marginal_quantiles", "raises", f"{type(e).__name__}: {e}"))
            plt.close("all")

        # -- model side -------------------------------------------------------------------
        ans = ck.driver.run(["CLEAR"] + lines) if lines else []
        runs = [a for a in ans]
        ri = 0
        divs = []
        for what, a1, a2, direct in checks:
            entry, pred, where = what
            if pred in ("dependence_values_unmodified", "pdf_values_unmodified"):
                lin = floats_from_answer(runs[ri]); cur = pairs_from_answer(runs[ri + 1]); ri += 2
                if not same_vals(a2, direct):
                    bad.append((entry, pred, f"{where}: drawn ordinates differ from a direct call of the leaf at the drawn abscissae"))
                if lin is None or not same_bits(lin, a1):
                    divs.append((entry, f"{where}: abscissae differ from the model's np.linspace"))
                elif "pts" not in cur or not same_bits(cur["pts"][:, 1], a2) or not same_bits(cur["pts"][:, 0], a1):
                    divs.append((entry, f"{where}: curve differs from the model (leaf values at the abscissae)"))
            elif pred == "interval_estimates_model":
                sc = pairs_from_answer(runs[ri]); ri += 1
                if a1 is None or "pts" not in sc or not same_bits(sc["pts"], a1):
                    divs.append((entry, f"{where}: estimate scatter differs from the model"))
            else:  # pdf_values_model (isodensity)
                cur = floats_from_answer(runs[ri]); ri += 1
                if cur is None or not same_bits(cur, a2):
                    divs.append((entry, f"{where}: Z handed to contour differs from the pdf leaf at the grid nodes"))
        ck.case(case, nontrivial=bool(cond_dims) and case["fitted"])
        ck.count("models:" + case["model"] + case.get("shape", "") + (":fitted" if case["fitted"] else ":unfitted"))
        ck.count("models:curves_checked", len(checks))
        for entry, pred, detail in bad:
            ck.fail({"entry": entry, "predicate": pred}, case, detail)
        if not bad:
            for entry, detail in divs:
                ck.diverge(entry, case, detail)
        elif divs:
            ck.count("divergence_with_oracle_failure")


def model_cases(rng, seed, n_cases, start):
    names = list(MODELS)
    for i in range(n_cases):
        yield {"kind": "models", "gen": [seed, start + i], "model": names[i % len(names)], "fitted": True,
               "n_sample": int(rng.choice([800, 1500, 3000])), "with_sem": bool(rng.integers(0, 4)),
               "n_grid": int(rng.choice([12, 24, 31])),
               "limits": None if rng.integers(0, 2) else [[0.0, float(rng.uniform(20, 40))], [0.0, float(rng.uniform(12, 25))]],
               "iso_cfg": i % 4, "n_grid_default_when_swapped": i % 3 == 1, "sample_type": ["array", "frame", "list"][i % 3]}
    yield {"kind": "models", "gen": [seed, start + n_cases], "model": "VanemBG", "fitted": False, "with_sem": True}
    yield {"kind": "models", "gen": [seed, start + n_cases + 1], "model": "Chain3D", "fitted": False, "with_sem": True}
    yield {"kind": "models", "gen": [seed, start + n_cases + 3], "model": "Chain3D", "fitted": False, "with_sem": True, "shape": "2+1"}
    yield {"kind": "models", "gen": [seed, start + n_cases + 4], "model": "Chain3D", "fitted": False, "with_sem": bool(rng.integers(0, 2)),
           "shape": "1+2"}
    yield {"kind": "models", "gen": [seed, start + n_cases + 2], "model": "Chain3D", "fitted": True, "with_sem": bool(rng.integers(0, 2)),
           "n_sample": int(rng.choice([1000, 2000])), "sample_type": "frame"}


# ---------------------------------------------------------------------------
# read_ec_benchmark_dataset


def days_in_month(y, m):
    if m == 2:
        return 29 if (y % 4 == 0 and y % 100 != 0) or y % 400 == 0 else 28
    return 30 if m in (4, 6, 9, 11) else 31


def materialize_bench(case):
    if "text" in case:
        return case["text"]
    if "file" in case:
        return open(os.path.join(REPO, "datasets", case["file"]), encoding="utf-8").read()
    rng = sub_rng(case)
    n, ncol = case["n_rows"], case["n_cols"]
    names = ["time (YYYY-MM-DD-HH)"]
    pool = ["significant wave height (m)", "zero-up-crossing period (s)", "wind speed (m/s)", "Hs", "T z", "v_10 [m s^-1]", "x.1", "é"]
    idx = rng.permutation(len(pool))[:ncol]
    names += [pool[int(i)] for i in idx]
    sep = case["sep"]
    # hourly stamps from a random start; optionally shuffled / with duplicates (the reader must not sort or merge)
    import datetime as dt

    start = dt.datetime(int(rng.integers(1950, 2100)), int(rng.integers(1, 13)), int(rng.integers(1, 29)), int(rng.integers(0, 24)))
    hours = np.arange(n) * int(case.get("step_h", 1))
    if case["order"] == "shuffled":
        hours = rng.permutation(hours)
    elif case["order"] == "dups":
        hours = np.sort(rng.integers(0, max(1, n // 2), n))
    dec = case["decimals"]
    vals = gen_values(rng, n * ncol, case["flavour"]).reshape(n, ncol)
    vals = np.where(np.isfinite(vals), vals, 1.0)
    vals = np.clip(vals, -1e9, 1e9)
    out = [sep.join(names)]
    for i in range(n):
        t = start + dt.timedelta(hours=int(hours[i]))
        f = [t.strftime("%Y-%m-%d-%H")] + [("%." + str(dec) + "f") % v for v in vals[i]]
        out.append(sep.join(f))
        if case.get("blank") and i == n // 2:
            out.append("")
    eol = case.get("eol", "\n")   # "\r\n": the file as a Windows checkout / editor stores it
    text = eol.join(out)
    if case["trailing_newline"]:
        text += eol
    return text


def bench_cases(rng, seed, n_cases, start, max_rows):
    for i in range(n_cases):
        n = int(round(10 ** rng.uniform(0, math.log10(max_rows))))
        if i == 0:
            n = max_rows
        if i == 1:
            n = 1
        case = {"kind": "bench", "gen": [seed, start + i], "n_rows": n, "n_cols": int(rng.choice([1, 2, 2, 3, 4])),
               "sep": str(rng.choice(["; ", "; ", ";", ";  "])), "order": str(rng.choice(["sorted", "sorted", "shuffled", "dups"])),
               "decimals": int(rng.choice([1, 2, 4, 4, 6])), "flavour": str(rng.choice(["sea", "decades", "ints"])),
               "trailing_newline": bool(rng.integers(0, 4)), "blank": bool(rng.integers(0, 6) == 0),
               "step_h": int(rng.choice([1, 1, 3, 24])), "reread": i % 2 == 1}
        if i % 6 == 5:
            case["decimals"] = 0          # whole numbers: pandas makes these int64 columns
        if i % 5 == 3:
            case["eol"] = "\r\n"
        yield case


def run_bench_impl(text, reread=False, default_path=False):
    from virocon import read_ec_benchmark_dataset

    if default_path:
        # no argument: the shipped example dataset A is read (text = that file's content, read independently)
        try:
            with warnings.catch_warnings():
                warnings.simplefilter("ignore")
                df = read_ec_benchmark_dataset()
        except Exception as e:  # noqa: BLE001
            return {"err": type(e).__name__, "msg": str(e)[:200]}
        return frame_summary(df)
    tmp = tempfile.mkdtemp(prefix="c20-", dir=TMP_ROOT)
    try:
        p = os.path.join(tmp, "bench.txt")
        if reread:
            # history: the same path was read before - with other content (the file is then rewritten) and the frame
            # returned by that first read was edited in place by its owner; the evaluated read must return the file's rows
            ls = [l for l in text.split("\n") if l != ""]
            earlier = "\n".join(ls[:1] + ls[1:][::-1][: max(1, (len(ls) - 1) // 2)]) + "\n"
            with open(p, "w", encoding="utf-8") as f:
                f.write(earlier)
            try:
                with warnings.catch_warnings():
                    warnings.simplefilter("ignore")
                    df0 = read_ec_benchmark_dataset(p)
                    df0.iloc[:, :] = -1.0
                    df0.drop(df0.index[:1], inplace=True)
                    df0 = read_ec_benchmark_dataset(p)
                    df0.iloc[:, :] = -2.0
            except Exception:  # noqa: BLE001
                pass
        with open(p, "w", encoding="utf-8") as f:
            f.write(text)
        try:
            with warnings.catch_warnings():
                warnings.simplefilter("ignore")
                df = read_ec_benchmark_dataset(p)
        except Exception as e:  # noqa: BLE001
            return {"err": type(e).__name__, "msg": str(e)[:200]}
        return frame_summary(df)
    finally:
        shutil.rmtree(tmp, ignore_errors=True)


def frame_summary(df):
    idx = df.index
    cols = [str(c) for c in df.columns]
    kinds = [str(getattr(df[c], "dtype", "?")) if list(df.columns).count(c) == 1 else "?" for c in df.columns]
    try:
        values = np.asarray(df.values, dtype=float).reshape(len(df), len(cols))
    except Exception:  # noqa: BLE001  (e.g. text columns that are not numbers)
        values = np.zeros((len(df), len(cols))) * np.nan
    if not str(idx.dtype).startswith("datetime64"):
        return {"columns": cols, "index_name": None if idx.name is None else str(idx.name),
                "n": len(df), "stamps": np.zeros((len(df), 4), dtype=int) - 1, "sub_hour": False,
                "values": np.zeros((len(df), len(cols))) * np.nan, "is_datetime": False, "dtypes": kinds}
    return {
        "columns": cols, "index_name": None if idx.name is None else str(idx.name),
        "n": len(df), "stamps": np.c_[idx.year, idx.month, idx.day, idx.hour].astype(int),
        "sub_hour": bool(np.any(idx.minute != 0) or np.any(idx.second != 0)),
        "values": values, "is_datetime": True, "dtypes": kinds,
    }


def near(a, b):
    """equal up to one unit in the last place (pandas' default float parser is not correctly rounded)"""
    a = np.asarray(a, dtype=float)
    b = np.asarray(b, dtype=float)
    return a.shape == b.shape and bool(np.all((a == b) | (np.abs(a - b) <= np.spacing(np.abs(b))) | (np.isnan(a) & np.isnan(b))))


def oracle_bench(text, impl):
    import datetime as dt

    bad = []
    lines = [l for l in text.replace("\r\n", "\n").split("\n") if l != ""]
    hdr = [f.lstrip(" ") for f in lines[0].split(";")]
    rows = [[f.lstrip(" ") for f in l.split(";")] for l in lines[1:]]
    try:
        stamps = [dt.datetime.strptime(r[0], "%Y-%m-%d-%H") for r in rows]
    except ValueError:
        stamps = None
    if "err" in impl:
        if stamps is None:
            return bad
        bad.append(("reader_raises", f"{impl['err']}: {impl.get('msg')}"))
        return bad
    if stamps is None:
        bad.append(("invalid_stamp_accepted", "a time stamp that does not match %Y-%m-%d-%H was accepted"))
        return bad
    if impl["n"] != len(rows):
        bad.append(("every_data_row", f"{impl['n']} rows returned for {len(rows)} data lines"))
        return bad
    if impl["columns"] != hdr[1:] or impl["index_name"] != hdr[0]:
        bad.append(("column_names", f"columns {impl['columns']} index {impl['index_name']!r}, header {hdr}"))
    if any(k != "?" and not k.startswith(("float", "int", "uint")) for k in impl.get("dtypes", [])):
        bad.append(("values_numeric", f"column dtypes {impl['dtypes']} for a file whose value fields are all decimal numbers"))
    if not impl["is_datetime"] or impl["sub_hour"]:
        bad.append(("time_stamp_index", "index is not a whole-hour datetime index"))
    want = np.array([[t.year, t.month, t.day, t.hour] for t in stamps], dtype=int).reshape(len(rows), 4)
    if not np.array_equal(want, impl["stamps"]):
        k = int(np.argmax(np.any(want != impl["stamps"], axis=1)))
        bad.append(("rows_in_order_with_time_stamp", f"row {k}: index {impl['stamps'][k].tolist()} file {rows[k][0]!r}"))
    vals = np.array([[float(x) for x in r[1:]] for r in rows], dtype=float).reshape(len(rows), len(hdr) - 1)
    if not near(impl["values"], vals):
        diff = ~((impl["values"] == vals) | (np.abs(impl["values"] - vals) <= np.spacing(np.abs(vals))))
        k = int(np.argmax(np.any(diff, axis=1))) if impl["values"].shape == vals.shape else -1
        bad.append(("rows_in_order_values", f"row {k}: returned {impl['values'][k].tolist() if k >= 0 else impl['values'].shape} file {rows[k][1:] if k >= 0 else vals.shape}"))
    return bad


def process_bench(ck, cases):
    lines, recs = [], []
    for case in cases:
        if case.get("default_path"):
            p = os.path.join(REPO, "datasets", case["file"])
            if not (os.path.exists(p) and os.path.getsize(p) > 0):
                ck.case(case, nontrivial=False)
                ck.fail({"entry": "read_ec_benchmark_dataset", "predicate": "default_dataset_shipped"}, case,
                        f"datasets/{case['file']} (the default of read_ec_benchmark_dataset) is missing or empty")
                continue
        text = materialize_bench(case)
        impl = run_bench_impl(text, reread=bool(case.get("reread")), default_path=bool(case.get("default_path")))
        bad = oracle_bench(text, impl)
        recs.append((case, text, impl, bad))
        lines.append(["RUN", "readbench", stok(text)])
    ans = ck.driver.run(lines) if lines else []
    for (case, text, impl, bad), a in zip(recs, ans):
        n_lines = len([l for l in text.replace("\r\n", "\n").split("\n") if l])
        if "\r\n" in text:
            ck.count("bench:line_ends=CRLF")
        if case.get("decimals") == 0:
            ck.count("bench:whole_number_columns")
        if "dtypes" in impl:
            for k in set(impl["dtypes"]):
                ck.count("bench:column_dtype=" + k)
        ck.case(case, nontrivial=n_lines >= 3)
        ck.count("bench:rows<=%d" % (10 ** len(str(max(0, n_lines - 2)))))
        if "order" in case:
            ck.count("bench:order=" + case["order"])
        if case.get("reread"):
            ck.count("bench:path_read_before_with_other_content")
        if case.get("default_path"):
            ck.count("bench:default_path(no argument, shipped dataset A)")
        for pred, detail in bad:
            ck.fail({"entry": "read_ec_benchmark_dataset", "predicate": pred}, case, detail)
        div = None
        t = a.split()
        if t[0] != "OK":
            if "err" not in impl:
                div = "model rejects the file, implementation returned a DataFrame"
            else:
                ck.count("bench:rejected_both")
        elif "err" in impl:
            div = f"impl raised {impl['err']}: {impl.get('msg')}; model accepts"
        else:
            q = 1
            nc = int(t[q]); q += 1
            cols = [unesc(x) for x in t[q:q + nc]]; q += nc
            nr = int(t[q]); q += 1
            stamps = np.zeros((nr, 4), dtype=int)
            vals = np.zeros((nr, nc - 1))
            exact = 0
            for i in range(nr):
                stamps[i] = [int(x) for x in t[q:q + 4]]
                nv = int(t[q + 4]); q += 5
                for j in range(nv):
                    v, q = dec_tokens(t, q)
                    vals[i, j] = dec_to_float(v)
            if cols[1:] != impl["columns"] or cols[0] != impl["index_name"]:
                div = f"column names: impl {impl['columns']} model {cols}"
            elif nr != impl["n"]:
                div = f"row count: impl {impl['n']} model {nr}"
            elif not np.array_equal(stamps, impl["stamps"]):
                div = "time stamps differ"
            elif not near(impl["values"], vals):
                div = "values differ by more than one ulp from the nearest double of the model's exact decimal"
            else:
                exact = int(np.sum(bits(impl["values"]) == bits(vals)))
                ck.count("bench:values_bit_exact", exact)
                ck.count("bench:values_within_1ulp(pandas fast float parser)", int(vals.size - exact))
                ck.hyp_checked += int(vals.size)
        if div is not None and not bad:
            ck.diverge("read_ec_benchmark_dataset", case, div)
        elif div is not None:
            ck.count("divergence_with_oracle_failure")


# ---------------------------------------------------------------------------
# corpus (witnesses; run first)


def corpus():
    half = [1 / 128, 3 / 128, -1 / 128, 5 / 128, 1234567 / 128, 0.0078125, 0.0234375]
    b = [int(x) for x in bits(np.array(half + [0.0, -0.0, 5e-7, -4e-7, 1e6, -999999.9999995, 2.5e-6]))]
    save = [
        {"kind": "save", "gen": "corpus", "bits": b, "n_rows": 7, "n_dim": 2, "semantics": None, "path": "contour", "contour": "stub"},
        {"kind": "save", "gen": "corpus", "bits": b[:6], "n_rows": 2, "n_dim": 3,
         "semantics": {"names": ["Wind speed", "Wave height", "Period"], "symbols": ["V", "H_s", "T_z"], "units": ["m/s", "m", "s"]},
         "path": "res.v2/.coords", "contour": "stub"},
        {"kind": "save", "gen": "corpus", "bits": b[:4], "n_rows": 2, "n_dim": 2, "semantics": None, "path": "a.b/c.csv", "contour": "stub"},
    ]
    tri = [1.0, 1.0, 4.0, 1.5, 2.5, 5.0]
    plots = [
        # defect #13: an array of design conditions
        {"kind": "plot2d", "gen": "corpus", "coords": tri, "swap": False, "dc": "array", "dc_pts": [2.0, 3.0, 3.0, 2.5], "contour": "stub"},
        {"kind": "plot2d", "gen": "corpus", "coords": tri, "swap": True, "dc": "array", "dc_pts": [2.0, 3.0], "n_sample": 5, "contour": "stub"},
        {"kind": "plot2d", "gen": "corpus", "coords": tri, "swap": True, "dc": "none", "n_sample": 3, "contour": "stub"},
        {"kind": "plot2d", "gen": "corpus", "coords": [], "swap": False, "dc": "none", "contour": "stub"},
        {"kind": "plot2d", "gen": [0, 1], "contour": "IFORM", "swap": True, "dc": "true"},
        {"kind": "plot2d", "gen": [0, 1], "contour": "IFORM", "swap": True, "dc": "true", "ax_mode": "none", "n_sample": 4},
        {"kind": "plot2d", "gen": "corpus", "coords": tri, "swap": False, "dc": "array", "dc_pts": [], "ax_mode": "none", "contour": "stub"},
    ] + [
        # every contour class (OrContour used to store an object array that matplotlib refused)
        {"kind": "plot2d", "gen": [0, 2 + i], "contour": name, "swap": bool(i % 2), "dc": "none", "n_sample": 10}
        for i, name in enumerate(["Or", "And", "DirectSampling", "HDC", "ISORM", "IFORM", "Or"])
    ]
    bench = [
        {"kind": "bench", "gen": "corpus",
         "text": "time (YYYY-MM-DD-HH); significant wave height (m); zero-up-crossing period (s)\n"
                 "1996-01-01-00; 0.2845; 4.7252\n1996-01-01-01; 0.2774; 4.6210\n1995-12-31-23; 0.3062; 4.1545\n"},
        {"kind": "bench", "gen": "corpus", "text": "t; a\n2000-02-29-23; 1.5\n2000-02-29-23; -0.25"},
        {"kind": "bench", "gen": "corpus", "text": "t; a; b\r\n2001-03-04-05; 1.5; 2\r\n\r\n2001-03-04-04; -0.25; 3\r\n"},
        {"kind": "bench", "gen": "corpus", "text": "t; a\n1997-02-29-00; 1.5\n"},
        {"kind": "bench", "gen": "corpus", "text": "t; a\n1997-02-28-24; 1.5\n"},
        {"kind": "bench", "gen": "corpus", "text": "t; a\n1997-13-01-00; 1.5\n"},
    ]
    return save, plots, bench


# ---------------------------------------------------------------------------


def run_cases(ck, cases):
    by = {"save": [], "plot2d": [], "models": [], "bench": []}
    for c in cases:
        by[c["kind"]].append(c)
    for i in range(0, len(by["save"]), 60):
        process_save(ck, by["save"][i:i + 60])
    for i in range(0, len(by["plot2d"]), 100):
        process_plot(ck, by["plot2d"][i:i + 100])
    process_models(ck, by["models"])
    for i in range(0, len(by["bench"]), 20):
        process_bench(ck, by["bench"][i:i + 20])


def main(ck):
    import matplotlib

    matplotlib.use("Agg")
    rng = np.random.default_rng(ck.seed)
    thorough = ck.tier == "thorough"
    k = 10 if thorough else 1
    ck.rule = (
        "corpus witnesses first (exact ties at the 7th decimal = odd multiples of 1/128, the design-conditions array of "
        "defect #13, invalid time stamps); then random cases regenerated from (seed, index): save_contour_coordinates on "
        "2-D/3-D (also 1-D/4-D) coordinate arrays of 0..2000 rows (magnitudes 1e-7..1e7 of either sign, exact ties and their "
        "float neighbours, zeros, non-finite) x default/given semantics (unicode, ';', too short) x paths with/without "
        "extension, dotted directories, hidden files (str or pathlib.Path), target file existing before or not, semantics "
        "positional / omitted / keyword, plus contours of every class (2-D) and IFORM/ISORM/HDC in 3-D; plot_2D_contour on "
        "real / elliptic / arbitrary contours x swap_axis x design_conditions None/True/False/array (also empty) x sample "
        "none/array/DataFrame/list x ax None / supplied-but-not-current / supplied-and-current; the other plot functions on "
        "three predefined models fitted to random subsamples of the shipped 1-year datasets (sample passed as array / "
        "DataFrame / list; isodensity with levels given/automatic x ax None/supplied x n_grid_steps given/default; "
        "par_rename none/all/some; axes supplied or not); read_ec_benchmark_dataset on synthetic files of 1..1e4 rows "
        "(sorted / shuffled / duplicated stamps, 1-4 value columns, 0-6 decimals, LF / CRLF line ends) and, without a path "
        "argument, on the shipped dataset A. Non-trivial: save with >= 2 rows, >= 2 columns, finite values (or a path-rule case); plot with >= 3 "
        "contour points; fitted model with a conditional dimension; file with >= 2 data rows. Distinct by SHA1 of the case."
    )
    ck.assumptions = [
        "files are compared as text decoded with the locale encoding (UTF-8 here); np.savetxt's compression by suffix (.gz/.bz2/.xz) is excluded",
        "pandas' default float parser may be off by one ulp: reader values are compared with the nearest double of the exact decimal up to one ulp",
        "Axes.hist / Axes.contour arguments are observed through recording wrappers installed in the harness process",
        "theoretical quantiles of conditional dimensions in plot_marginal_quantiles come from an unseeded Monte-Carlo sample: only order and length are checked there",
    ]
    ck.assumptions += [
        "a pathlib.Path without extension is refused by save_contour_coordinates (TypeError; file_path is documented as str): counted, not asserted",
        "CRLF files: the model drops a '\\r' directly in front of '\\n' (normalizeEol) before parsing; lone '\\r' are not generated",
    ]
    ck.partial = {
        "other plot functions": "that the arrays handed to matplotlib are `curve leaf (linspace …)` is observed per run "
                                "(leaf = direct call of pdf / dependence function); the Lean theorem curve_values is about the model curve only",
        "histogram data / QQ ordinates / interval estimates": "compared per run with the interval data, the sorted sample and "
                                                              "parameters_per_interval; no Lean theorem",
        "labels, legend, returned values": "axis labels (variable named iff it is the one drawn, par_rename), isodensity legend "
                                           "label i = level i, automatic levels increasing, returned design conditions = drawn "
                                           "ones, drawing into the supplied / a new axes: oracle per run only, no model",
    }
    save_c, plot_c, bench_c = corpus()
    run_cases(ck, save_c + plot_c + bench_c)
    run_cases(ck, list(real_save_cases()))
    cases = []
    cases += list(save_cases(rng, ck.seed, 300 * k, 0))
    cases += list(path_cases(rng, ck.seed, 400 * k, 100000))
    cases += list(plot_cases(rng, ck.seed, 120 * k, 200000))
    cases += list(model_cases(rng, ck.seed, 6 * k, 300000))
    cases += list(bench_cases(rng, ck.seed, 60 * k, 400000, 10000))
    run_cases(ck, cases)
    # real benchmark files of the repo (8760 rows each; some shipped files are empty and skipped)
    for fn in (["ec-benchmark_dataset_A_1year.txt", "ec-benchmark_dataset_B_1year.txt", "ec-benchmark_dataset_C_1year.txt"]
               if thorough else ["ec-benchmark_dataset_A_1year.txt"]):
        p = os.path.join(REPO, "datasets", fn)
        if os.path.exists(p) and os.path.getsize(p) > 0:
            process_bench(ck, [{"kind": "bench", "gen": "repo-file", "file": fn}])
    # no path argument: the shipped example dataset A (82805 rows) is read
    process_bench(ck, [{"kind": "bench", "gen": "repo-file", "file": "ec-benchmark_dataset_A.txt", "default_path": True}])
    ck.extra["exhaustive"] = False


def replay(ck, payload):
    case = payload["case"]
    n0 = len(ck.failures)
    d0 = len(ck.divergences)
    run_cases(ck, [case])
    for sig, _, detail in ck.failures[n0:]:
        print("oracle:", sig, detail)
    for kid, (k, _, detail) in ck.known_seen.items():
        print("oracle (known finding):", kid, detail)
    for op, _, detail in ck.divergences[d0:]:
        print("correspondence:", op, detail)
    return len(ck.failures) == n0 and not ck.known_seen
