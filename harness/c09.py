"""
C09 - Joint fitting is order-invariant and fits each interval to exactly its own data.

Correspondence
  (A) real GlobalHierarchicalModel.fit over *recording* test-double distributions (closed-form,
      exactly permutation-invariant estimators: median / range) with real slicers, real
      ConditionalDistribution.fit (deepcopy per interval) and real DependenceFunction objects:
      data_intervals, conditioning_values, boundaries, per-interval estimates, the (x, y) pairs
      handed to every dependence function and the (method, weights) each dimension receives are
      compared exactly with the Lean model (Model/Slicers.lean + Model/FitPipeline.lean).
  (B) shipped families: parameters_per_interval[k] equals a stand-alone deepcopy(template).fit
      on the model's interval data; fit(data[perm]) gives the same model.
"""
import copy
import warnings

import numpy as np

from core import f2b, b2f, fl, il
import c10
import doubles
import models

LOG = []
PPI_MAX_ROWS = 5000  # the Lean PointsPerInterval model is quadratic in the number of rows


def _dist_base():
    from virocon.distributions import Distribution

    return Distribution


class RecDist(_dist_base()):
    """recording double: parameters m (median of the data) and w (range + 1)"""

    def __init__(self, m=1.0, w=1.0, f_m=None, f_w=None, tag="?"):
        self.m = m if f_m is None else f_m
        self.w = w if f_w is None else f_w
        self.f_m, self.f_w, self.tag = f_m, f_w, tag

    @property
    def parameters(self):
        return {"m": self.m, "w": self.w}

    def cdf(self, x, m=None, w=None):
        m = self.m if m is None else m
        w = self.w if w is None else w
        z = np.asarray(x, dtype=float) - m
        return np.where(z > 0, z / (z + w), 0.0)

    def icdf(self, prob, m=None, w=None):
        m = self.m if m is None else m
        w = self.w if w is None else w
        prob = np.asarray(prob, dtype=float)
        return m + w * prob / (1 - prob)

    def pdf(self, x, m=None, w=None):
        m = self.m if m is None else m
        w = self.w if w is None else w
        z = np.asarray(x, dtype=float) - m
        return np.where(z > 0, w / ((z + w) * (z + w)), 0.0)

    def draw_sample(self, n, m=None, w=None, *, random_state=None):
        rng = np.random.default_rng(random_state)
        return self.icdf(rng.uniform(size=n), m, w)

    def _estimate(self, data):
        data = np.asarray(data, dtype=float)
        if self.f_m is None:
            self.m = float(np.median(data))
        if self.f_w is None:
            self.w = float(np.max(data) - np.min(data) + 1.0)

    def _fit_mle(self, data):
        LOG.append((self.tag, "mle", None, np.array(data, dtype=float)))
        self._estimate(data)

    def _fit_lsq(self, data, weights):
        LOG.append((self.tag, "lsq", weights, np.array(data, dtype=float)))
        self._estimate(data)


def _chain_aff(x, a, b, d):
    return (a + b * x) + 0.5 * d(x)


def est_ref(data):
    data = np.asarray(data, dtype=float)
    return {"m": float(np.median(data)), "w": float(np.max(data) - np.min(data) + 1.0)}


# what a model built WITHOUT the "intervals" key must use for that dimension (jointmodels.py: NumberOfIntervalsSlicer(10)
# with the slicer's documented defaults); the Lean slicer model is run with these values, independently of the code
DEFAULT_SLICER = {"slicer": "number", "n_intervals": 10, "include_max": True, "ref": "center", "value_range": None,
                  "min_pts": 50, "min_iv": 3}


def eff(cfg):
    """the slicer configuration in effect: {"slicer": "default"} = the description has no "intervals" key"""
    return DEFAULT_SLICER if cfg["slicer"] == "default" else cfg


def make_slicer(cfg):
    from virocon.intervals import NumberOfIntervalsSlicer, PointsPerIntervalSlicer, WidthOfIntervalSlicer

    ref = {"median": np.median, "mean": np.mean}.get(cfg.get("ref"), cfg.get("ref"))
    vr = tuple(cfg["value_range"]) if cfg.get("value_range") is not None else None
    if cfg["slicer"] == "width":
        return WidthOfIntervalSlicer(cfg["width"], reference=ref, right_open=cfg["right_open"], value_range=vr,
                                     min_n_points=cfg["min_pts"], min_n_intervals=cfg["min_iv"])
    if cfg["slicer"] == "number":
        return NumberOfIntervalsSlicer(cfg["n_intervals"], reference=ref, include_max=cfg["include_max"], value_range=vr,
                                       min_n_points=cfg["min_pts"], min_n_intervals=cfg["min_iv"])
    return PointsPerIntervalSlicer(cfg["n_points"], reference=ref, last_full=cfg["last_full"],
                                   min_n_points=cfg["min_pts"], min_n_intervals=cfg["min_iv"])


def random_slicer_cfg(rng, col):
    n = len(col)
    kind = str(rng.choice(["width", "number", "ppi"] if n <= PPI_MAX_ROWS else ["width", "number"]))
    mx = float(np.max(col))
    if n >= 300 and rng.integers(0, 6) == 0:
        return {"slicer": "default"}  # no "intervals" key in the description
    if kind == "width":
        vr = None
        r = int(rng.integers(0, 6))
        if r == 0:
            vr = [float(np.quantile(col, 0.1)), float(np.quantile(col, 0.9))]
        elif r == 1:
            vr = [None, float(np.quantile(col, 0.9))]
        elif r == 2:
            vr = [0.5, None]
        return {"slicer": "width", "width": float(rng.choice([mx / 4, mx / 7, 0.5, 1.0, 0.3])),
                "right_open": bool(rng.integers(0, 2)), "ref": str(rng.choice(["center", "left", "right", "median"])),
                "value_range": vr, "min_pts": int(rng.choice([1, 3, 10])), "min_iv": int(rng.choice([1, 2, 3]))}
    if kind == "number":
        vr = None
        r = int(rng.integers(0, 6))
        if r == 0:
            vr = [float(np.quantile(col, 0.05)), float(np.quantile(col, 0.95))]
        elif r == 1:
            vr = [float(np.min(col)) - 1.0, mx + 1.0]
        return {"slicer": "number", "n_intervals": int(rng.choice([2, 3, 5, 8])), "include_max": bool(rng.integers(0, 2)),
                "ref": str(rng.choice(["center", "left", "right", "median"])), "value_range": vr,
                "min_pts": int(rng.choice([1, 3, 10])), "min_iv": int(rng.choice([1, 2, 3]))}
    return {"slicer": "ppi", "n_points": int(rng.choice([max(2, n // 3), max(2, n // 5), 7, 25])),
            "last_full": bool(rng.integers(0, 2)), "ref": str(rng.choice(["median", "mean"])),
            "min_pts": int(rng.choice([1, 3, 10])), "min_iv": int(rng.choice([1, 2]))}


def random_data(rng, n, n_dim):
    mode = rng.integers(0, 4)
    x = rng.weibull(1.5, size=(n, n_dim)) * rng.uniform(1, 4, n_dim) + 0.05
    if mode == 1:
        x = np.round(x, 1) + 0.1
    elif mode == 2:
        x[:, 0] = np.round(x[:, 0] * 2) / 2 + 0.5  # heavy ties in the first column
    elif mode == 3:
        x = x[np.argsort(x[:, 0])]
    return x


def gen_cases(rng, n_cases, sizes=(30, 60, 300, 1000)):
    for _ in range(n_cases):
        n_dim = int(rng.choice([2, 2, 3]))
        n = int(rng.choice(sizes))
        data = random_data(rng, n, n_dim)
        # every dimension after the first is conditional on an earlier one OR unconditional itself
        cond = [None] + [None if rng.integers(0, 3) == 0 else int(rng.integers(0, i)) for i in range(1, n_dim)]
        slicers = [random_slicer_cfg(rng, data[:, j]) for j in range(n_dim)]
        fixed = [None if rng.integers(0, 3) else str(rng.choice(["m", "w"])) for _ in range(n_dim)]
        fd = []
        for i in range(n_dim):
            r = rng.integers(0, 6)
            if r == 4:
                fd.append({"method": "lsq"})  # weights key absent: must default to None for THIS dimension
            elif r == 0:
                fd.append(None)
            elif r == 1:
                fd.append({"method": "mle"})
            elif r == 2:
                fd.append({"method": "wlsq", "weights": str(rng.choice(["linear", "quadratic", "cubic"]))})
            elif r == 5 and n <= 1000:
                # one weight per ROW given to this dimension (also a conditional one: every interval fit is handed it)
                fd.append({"method": "wlsq", "weights": [float(v) for v in np.round(rng.uniform(0.5, 2.0, n), 3)]})
            else:
                fd.append({"method": "lsq", "weights": None})
        if rng.integers(0, 5) == 0:
            fd = None
        bad_fd = None
        r = rng.integers(0, 14)
        if r == 0:      # a description without "method"
            fd = fd if fd is not None else [None] * n_dim
            k = int(rng.integers(0, n_dim))
            fd[k] = {} if rng.integers(0, 2) else {"weights": str(rng.choice(["linear", "quadratic"]))}
            bad_fd = "missing_method"
        elif r == 1:    # not one description per dimension
            fd = fd if fd is not None else [None] * n_dim
            fd = [fd[:-1], fd + [{"method": "mle"}], fd + [None], []][int(rng.integers(0, 4))]
            bad_fd = "wrong_length"
        chain = [None] + [[None, None, "m_uses_w", "w_uses_m"][int(rng.integers(0, 4))] for _ in range(1, n_dim)]
        as_int = bool(rng.integers(0, 6) == 0)
        if as_int:
            data = np.round(data * 3) + 1.0
            slicers = [random_slicer_cfg(rng, data[:, j]) for j in range(n_dim)]
        case = {"part": "A", "n_dim": n_dim, "cond": cond, "slicers": slicers, "fixed": fixed, "fit_desc": fd, "chain": chain,
                "as_int": as_int,
                "data": [[float(v) for v in r] for r in data], "perm_seed": int(rng.integers(0, 2**31))}
        if bad_fd:
            case["bad_fd"] = bad_fd
        if rng.integers(0, 3) == 0:
            # the caller keeps ONE fit_descriptions list (equal entries are one dict object) and uses it for every call
            case["own_list"] = True
        if rng.integers(0, 4) == 0:
            case["as_list"] = True  # list of rows instead of an ndarray
        yield case


def build_model(case):
    from virocon import DependenceFunction, GlobalHierarchicalModel

    descs, deps = [], {}
    for i in range(case["n_dim"]):
        d = {} if case["slicers"][i]["slicer"] == "default" else {"intervals": make_slicer(case["slicers"][i])}
        if case["cond"][i] is None:
            d["distribution"] = RecDist(tag=i)
        else:
            kw, pars = {}, {}
            chain = case.get("chain", [None] * case["n_dim"])[i] if case["fixed"][i] is None else None
            for p in ("m", "w"):
                if case["fixed"][i] == p:
                    kw["f_" + p] = 2.5
                else:
                    pars[p] = DependenceFunction(doubles._affine)
                    deps[(i, p)] = pars[p]
            if chain == "m_uses_w":    # the dependent function's parameter comes BEFORE its conditioner's
                pars["m"] = DependenceFunction(_chain_aff, d=pars["w"])
                deps[(i, "m")] = pars["m"]
            elif chain == "w_uses_m":  # ... and AFTER it
                pars["w"] = DependenceFunction(_chain_aff, d=pars["m"])
                deps[(i, "w")] = pars["w"]
            d["distribution"] = RecDist(tag=i, **kw)
            d["conditional_on"] = case["cond"][i]
            d["parameters"] = pars
        descs.append(d)
    return GlobalHierarchicalModel(descs), deps


def caller_list(case):
    """the caller's own fit_descriptions object: equal dict entries are ONE dict object (a caller who writes
    `d = {...}; fit_descriptions = [d, None, d]`)"""
    fd = copy.deepcopy(case["fit_desc"])
    if fd is not None:
        for i in range(len(fd)):
            for j in range(i):
                if fd[i] is not None and fd[i] == fd[j]:
                    fd[i] = fd[j]
                    break
    return fd


def fit_model(case, data, fd_obj=None):
    """fd_obj: use this very object as fit_descriptions (caller's own list) instead of a fresh copy of the case's"""
    model, deps = build_model(case)
    if case.get("as_int"):
        data = np.asarray(data).astype(np.int64)  # whole-number observations stored as an integer matrix
    if case.get("as_list"):
        data = np.asarray(data).tolist()
    LOG.clear()
    fd = copy.deepcopy(case["fit_desc"]) if fd_obj is None else fd_obj
    with warnings.catch_warnings():
        warnings.simplefilter("ignore")
        try:
            model.fit(data, fit_descriptions=fd)
        except RuntimeError as e:
            if "too few intervals" in str(e):
                return model, deps, "tooFewIntervals", list(LOG)
            if "Failed to fit dependence function" in str(e) or "Optimal parameters not found" in str(e):
                return None, None, "depfit", list(LOG)
            raise
        except (TypeError, ValueError, KeyError, IndexError, AttributeError) as e:
            if not LOG and isinstance(e, ValueError):
                # refused before the first dimension (always unconditional) was fitted: the descriptions were rejected
                return None, None, "fitdesc:" + str(e), []
            if isinstance(e, (KeyError, IndexError, AttributeError)) or not LOG:
                # not a failed dependence-function fit (the first dimension is unconditional and is fitted before any)
                return None, None, "crash:" + type(e).__name__ + ":" + str(e)[:60], list(LOG)
            return None, None, "depfit:" + type(e).__name__, list(LOG)
    return model, deps, None, list(LOG)


def _wkey(w):
    return w if (w is None or isinstance(w, str)) else ("array", tuple(float(v) for v in np.asarray(w, dtype=float)))


def options_seen(log):
    seen = {}
    for tag, meth, w, arr in log:
        seen.setdefault(tag, set()).add((meth, _wkey(w)))
    return seen


def options_mismatch(case, plan, log):
    """every fit of dimension i (the dimension itself, or each interval's copy of its template) was called with
    dimension i's method and weights as given in the case's description"""
    out = []
    seen = options_seen(log)
    fd = case["fit_desc"]
    for i in range(case["n_dim"]):
        m, w = plan[i].split(":")
        if w.startswith("arr"):
            w = _wkey(fd[int(w[3:])]["weights"])
        want = ("mle", None) if m == "mle" else ("lsq", None if w == "None" else w)
        if i in seen and seen[i] != {want}:
            show = lambda t: (t[0], "array[%d]" % len(t[1][1]) if isinstance(t[1], tuple) else t[1])  # noqa: E731
            out.append(f"dimension {i} was fitted with {sorted(map(str, map(show, seen[i])))}, expected {show(want)}")
    return out


def fit_inputs_mismatch(case, data, model, log, complete):
    """which observations every fit received: an unconditional dimension i exactly data[:, i] (one fit), a
    conditional dimension one fit per interval with that interval's data"""
    out = []
    data = np.asarray(data, dtype=float)
    for i in range(case["n_dim"]):
        entries = [e for e in log if e[0] == i]
        if not entries and not complete:
            continue  # the fit loop stopped before this dimension
        if case["cond"][i] is None:
            if len(entries) != 1:
                out.append(("unconditional_dimension_fitted_to_own_column", f"dimension {i} was fitted {len(entries)} times"))
            elif not np.array_equal(entries[0][3], data[:, i]):
                col = [j for j in range(case["n_dim"]) if np.array_equal(entries[0][3], data[:, j])]
                out.append(("unconditional_dimension_fitted_to_own_column",
                            f"unconditional dimension {i} was fitted to {len(entries[0][3])} values that are not data[:, {i}]"
                            + (f" but data[:, {col[0]}]" if col else "")))
            elif complete and model.distributions[i].parameters != est_ref(data[:, i]):
                out.append(("unconditional_dimension_fitted_to_own_column",
                            f"dimension {i}: parameters {model.distributions[i].parameters} vs {est_ref(data[:, i])}"))
        else:
            ivs = getattr(model.distributions[i], "data_intervals", None)
            if ivs is None:
                continue
            if len(entries) != len(ivs) or not all(np.array_equal(e[3], np.asarray(d, dtype=float)) for e, d in zip(entries, ivs)):
                out.append(("interval_fit_receives_interval_data",
                            f"dimension {i}: {len(entries)} template fits for {len(ivs)} intervals, or not on the intervals' data"))
    return out


def split_line(cfg, cond_col, dist_col):
    base = c10.model_line(dict(cfg, data=[float(v) for v in cond_col], ref=cfg["ref"] if cfg["ref"] in c10.REFS else "callable"),
                          cfg["min_pts"], cfg["min_iv"])
    # base = RUN <slicer> ... n data…  (ppi: n perm… n data…) -> insert "split" and append the dist column
    return ["RUN", "split"] + base[1:] + fl(dist_col)


def parse_split(ans):
    t = ans.split()
    if t[0] == "ERR":
        return {"err": t[1]}
    K = int(t[1])
    p = 2
    out = []
    for _ in range(K):
        ref = None if t[p] == "-" else b2f(t[p])
        lo, hi = b2f(t[p + 1]), b2f(t[p + 2])
        n = int(t[p + 3])
        vals = np.array([b2f(v) for v in t[p + 4:p + 4 + n]])
        p += 4 + n
        out.append({"ref": ref, "lo": lo, "hi": hi, "data": vals})
    return {"ivs": out}


def has_boundary_ties(cfg, col):
    """PointsPerInterval: equal conditioning values on both sides of a chunk boundary"""
    if cfg["slicer"] != "ppi":
        return False
    s = np.sort(col)
    n, k = len(s), cfg["n_points"]
    rem = n % k
    cuts = list(range(rem if (rem and cfg["last_full"]) else k, n, k))
    return any(0 < c < n and s[c - 1] == s[c] for c in cuts)


def fitdesc_tokens(case):
    fd = case["fit_desc"]
    if fd is None:
        return ["absent"]
    toks = []
    for k, d in enumerate(fd):
        if d is None:
            toks.append("N")
        else:
            w = "absent" if "weights" not in d else ("none" if d["weights"] is None else
                                                     (d["weights"] if isinstance(d["weights"], str) else f"arr{k}"))
            toks += ["D", d.get("method", "-"), w]
    return toks


def process(ck, case):
    data = np.array(case["data"], dtype=float)
    n_dim = case["n_dim"]
    own = caller_list(case) if case.get("own_list") else None
    model, deps, err, log = fit_model(case, data, own)
    ck.case(case, nontrivial=True, sample=ck.evaluations < 3)
    ck.count("part=A")
    ck.count(f"A_n_dim={n_dim}")
    ck.count("A_rows=%d" % len(data))
    if case.get("own_list"):
        ck.count("A_callers_own_fit_descriptions_list")
    if case.get("as_list"):
        ck.count("A_data_list_of_lists")
    if any(c is None for c in case["cond"][1:]):
        ck.count("A_unconditional_dimension_after_first")
    if case["fit_desc"] is not None and any(d is not None and isinstance(d.get("weights"), list) for d in case["fit_desc"]):
        ck.count("A_array_weights")
        if any(d is not None and isinstance(d.get("weights"), list) and case["cond"][k] is not None
               for k, d in enumerate(case["fit_desc"][:n_dim])):
            ck.count("A_array_weights_conditional_dimension")
    # per-dimension fit options: the model's plan (Lean fillFitDesc) for the description as written by the caller
    plan_ans = ck.driver.run([" ".join(["RUN", "fitdesc", str(n_dim)] + fitdesc_tokens(case))])[0].split()
    if plan_ans[0] == "ERR":
        # model: the descriptions are refused (wrong length / a description without "method", naming the dimension)
        ck.count("A_fitdesc_refused=" + plan_ans[1])
        if err is None or not err.startswith("fitdesc:"):
            ck.diverge("fit-descriptions-refused", case,
                       f"model refuses the fit descriptions ({' '.join(plan_ans[1:])}); implementation: "
                       f"{'fitted without error' if err is None else err}")
        elif plan_ans[1] == "missingMethod" and f"dimension {plan_ans[2]}" not in err:
            ck.diverge("fit-descriptions-refused", case,
                       f"model: method missing for dimension {plan_ans[2]}; implementation's message: {err[8:]!r}")
        return
    if err and err.startswith("fitdesc:"):
        ck.diverge("fit-descriptions-refused", case, f"model accepts the fit descriptions, implementation raised ValueError {err[8:]!r}")
        return
    if err and err.startswith("crash:"):
        ck.diverge("fit-pipeline", case, f"the model fits every dimension, implementation raised {err[6:]}")
        return
    if err and err.startswith("depfit"):
        ck.count("A_dependence_fit_failed")
        return
    plan = plan_ans[1:]
    bad = []
    for detail in options_mismatch(case, plan, log):
        bad.append(("fit_options_of_own_dimension", detail))
    # which observations every fit received
    bad += fit_inputs_mismatch(case, data, model, log, complete=err is None)
    # intervals of every conditional dimension
    lines, idx = [], []
    for i in range(n_dim):
        j = case["cond"][i]
        if j is None:
            continue
        lines.append(split_line(eff(case["slicers"][j]), data[:, j], data[:, i]))
        lines.append(split_line(eff(case["slicers"][j]), data[:, j], data[:, j]))
        idx.append(i)
    answers = ck.driver.run(lines)
    div = None
    err_explained = False
    for k, i in enumerate(idx):
        j = case["cond"][i]
        ms, mc = parse_split(answers[2 * k]), parse_split(answers[2 * k + 1])
        ck.count("A_slicer=" + case["slicers"][j]["slicer"])
        if eff(case["slicers"][j]).get("value_range") is not None:
            ck.count("A_slicer_value_range")
        if "err" in ms:
            # the fit loop stops at the first dimension whose slicing fails
            if err != ms["err"]:
                div = f"dimension {i}: model {ms['err']} implementation {err}"
            err_explained = True
            break
        dist = model.distributions[i]
        if not hasattr(dist, "data_intervals"):
            div = f"dimension {i}: implementation raised {err} before fitting it, model returned {len(ms['ivs'])} intervals"
            break
        ivs = ms["ivs"]
        if case["slicers"][j]["slicer"] == "default":
            ck.count("A_default_slicer_intervals_fitted")
        if len(dist.data_intervals) != len(ivs):
            bad.append(("interval_count", f"dimension {i}: {len(dist.data_intervals)} vs model {len(ivs)}"))
            continue
        cfg = eff(case["slicers"][j])
        for q, iv in enumerate(ivs):
            got = np.asarray(dist.data_intervals[q], dtype=float)
            # oracle: exactly the observations whose conditioning value falls in the interval
            if not np.array_equal(got, iv["data"]):
                bad.append(("interval_data_are_own_observations", f"dimension {i} interval {q}: {len(got)} values vs {len(iv['data'])}"))
                break
            want_par = est_ref(iv["data"])
            for p in ("m", "w"):
                if case["fixed"][i] == p:
                    want_par[p] = 2.5
            if dist.parameters_per_interval[q] != want_par:
                bad.append(("estimate_is_standalone_fit_of_interval", f"dimension {i} interval {q}: {dist.parameters_per_interval[q]} vs {want_par}"))
                break
            cdata = mc["ivs"][q]["data"]
            if cfg["ref"] in ("median", "mean"):
                ref_want = float(np.median(cdata)) if cfg["ref"] == "median" else float(np.mean(cdata))
            else:
                ref_want = iv["ref"]
            if f2b(float(dist.conditioning_values[q])) != f2b(ref_want):
                if cfg["ref"] in ("median", "mean"):
                    # callable reference: the interval's members are settled (data_intervals agree), so the
                    # reference must be that callable applied to the members' conditioning values
                    bad.append(("reference_is_callable_of_interval_members",
                                f"dimension {i} interval {q}: reference {dist.conditioning_values[q]!r} but "
                                f"np.{cfg['ref']} of the interval's conditioning values is {ref_want!r}"))
                    break
                div = div or f"dimension {i} interval {q}: reference {dist.conditioning_values[q]!r} model {ref_want!r}"
            b = dist.conditioning_interval_boundaries[q]
            if (f2b(float(b[0])), f2b(float(b[1]))) != (f2b(iv["lo"]), f2b(iv["hi"])):
                div = div or f"dimension {i} interval {q}: boundaries {b} model {(iv['lo'], iv['hi'])}"
        for (di, p), dep in deps.items():
            if di != i:
                continue
            # the pairs this dependence function has to be fitted to: the distribution's own records of this fit
            xs = np.asarray(dist.conditioning_values, dtype=float)
            ys = np.array([pp[p] for pp in dist.parameters_per_interval], dtype=float)
            # what the dependence function says it was given (semi-private attributes; when a tree does not keep
            # them the least-squares oracle below still decides)
            seen_x, seen_y = getattr(dep, "x", None), getattr(dep, "y", None)
            if seen_x is None or seen_y is None:
                ck.count("A_dep_xy_not_observable")
            if seen_x is not None and seen_y is not None and not (
                    np.array_equal(np.asarray(seen_x, dtype=float), xs) and np.array_equal(np.asarray(seen_y, dtype=float), ys)):
                bad.append(("dependence_function_fitted_to_reference_estimate_pairs", f"dimension {i} parameter {p}"))
            elif len(xs) >= 3 and np.ptp(xs) > 0:
                # ... and actually fitted: its parameters are the least-squares solution on those pairs
                # (for a chained function: given the final parameters of the function it uses)
                other = dep.dependent_parameters.get("d")
                target = ys - (0.5 * np.asarray(other(xs), dtype=float) if other is not None else 0.0)
                b_ref, a_ref = np.polyfit(xs, target, 1)
                got_p = np.array(list(dep.parameters.values()), dtype=float)
                scale = max(1.0, float(np.max(np.abs(target))))
                if not np.allclose(got_p, [a_ref, b_ref], rtol=1e-4, atol=1e-5 * scale):
                    bad.append(("dependence_function_is_least_squares_fit_of_pairs",
                                f"dimension {i} parameter {p} ({'chained' if other is not None else 'plain'}): "
                                f"parameters {got_p.tolist()} but least squares on the pairs gives {[float(a_ref), float(b_ref)]}"))
    if err is not None and not err_explained and div is None:
        div = f"implementation raised {err} but the model slices every dimension"
    # order invariance
    if err is None and not bad and div is None:
        perm = np.random.default_rng(case["perm_seed"]).permutation(len(data))
        model2, deps2, err2, log2 = fit_model(case, data[perm], own)
        ties = any(has_boundary_ties(eff(case["slicers"][case["cond"][i]]), data[:, case["cond"][i]]) for i in idx)
        # the options at this second call: with a fresh copy of the description it is the property's clause again; with the
        # caller's own list (filled in place by the first call) the model's plan for the description as written must still hold
        for detail in options_mismatch(case, plan, log2):
            if own is None:
                bad.append(("fit_options_of_own_dimension", "fit of the permuted rows: " + detail))
            else:
                div = div or ("second call with the caller's own fit_descriptions list (filled in place by the first "
                              "call): " + detail)
        if err2 is None:
            bad += [(p_, "fit of the permuted rows: " + d_) for p_, d_ in fit_inputs_mismatch(case, data[perm], model2, log2, True)]
        if ties:
            ck.count("A_ppi_boundary_ties")
        differs = None
        if err2 is not None:
            differs = f"permuted data raised {err2}"
        else:
            for i in idx:
                a, b = model.distributions[i], model2.distributions[i]
                if a.parameters_per_interval != b.parameters_per_interval or \
                        not (np.shape(a.conditioning_values) == np.shape(b.conditioning_values) and np.allclose(a.conditioning_values, b.conditioning_values, rtol=1e-12, atol=0)) or \
                        list(map(tuple, a.conditioning_interval_boundaries)) != list(map(tuple, b.conditioning_interval_boundaries)):
                    differs = f"dimension {i}: estimates / references / boundaries differ after permuting the rows"
                    break
                for q in range(len(a.data_intervals)):
                    if not np.array_equal(np.sort(a.data_intervals[q]), np.sort(b.data_intervals[q])):
                        differs = f"dimension {i} interval {q}: different observations after permuting the rows"
                        break
        if differs:
            sigd = {"entry": "GlobalHierarchicalModel.fit", "predicate": "order_invariant"}
            if ties:
                sigd["input_class"] = "PointsPerIntervalSlicer with equal conditioning values across a chunk boundary"
            ck.fail(sigd, case, differs)
    # history: re-fitting the SAME model object with a different data matrix must give what a fresh model gives
    if err is None and not bad and div is None:
        rng2 = np.random.default_rng(case["perm_seed"] + 1)
        data_b = data[rng2.permutation(len(data))[: max(len(data) * 2 // 3, 10)]] * float(rng2.uniform(1.2, 1.9)) + 0.05
        LOG.clear()
        data_b_in = np.asarray(data_b).astype(np.int64) if case.get("as_int") else data_b
        with warnings.catch_warnings():
            warnings.simplefilter("ignore")
            try:
                model.fit(data_b_in.tolist() if case.get("as_list") else data_b_in,
                          fit_descriptions=copy.deepcopy(case["fit_desc"]) if own is None else own)
                err_re = None
            except Exception as e:  # noqa: BLE001
                err_re = type(e).__name__ + ":" + str(e)[:40]
        log_re = list(LOG)
        for detail in options_mismatch(case, plan, log_re):
            if own is None:
                bad.append(("fit_options_of_own_dimension", "re-fit of the fitted model: " + detail))
            else:
                div = div or ("re-fit with the caller's own fit_descriptions list (used for two calls before): " + detail)
        if err_re is None:
            bad += [(p_, "re-fit of the fitted model: " + d_) for p_, d_ in fit_inputs_mismatch(case, data_b_in, model, log_re, True)]
        try:
            fresh, _, err_f, _ = fit_model(case, data_b)
        except Exception as e:  # noqa: BLE001
            fresh, err_f = None, type(e).__name__ + ":" + str(e)[:40]
        err_f = None if err_f is None else err_f
        ck.count("A_refit_history")
        if (err_re is None) != (err_f is None):
            bad.append(("refit_equals_fresh_fit", f"re-fit of a fitted model raised {err_re}, a fresh model {err_f}"))
        elif err_re is None:
            for i in idx:
                a, b = model.distributions[i], fresh.distributions[i]
                same = (len(a.data_intervals) == len(b.data_intervals)
                        and all(np.array_equal(u, v) for u, v in zip(a.data_intervals, b.data_intervals))
                        and np.array_equal(np.asarray(a.conditioning_values), np.asarray(b.conditioning_values))
                        and list(map(tuple, a.conditioning_interval_boundaries)) == list(map(tuple, b.conditioning_interval_boundaries))
                        and a.parameters_per_interval == b.parameters_per_interval)
                if not same:
                    bad.append(("refit_equals_fresh_fit",
                                f"dimension {i}: model fitted to A and re-fitted to B has {len(a.data_intervals)} intervals "
                                f"(references {np.asarray(a.conditioning_values)[:4].tolist()}...), a fresh model fitted to B has "
                                f"{len(b.data_intervals)} (references {np.asarray(b.conditioning_values)[:4].tolist()}...)"))
                    break
                # ... and the same dependence functions (both are least-squares fits of the same pairs; the re-fit only
                # starts from other parameter values)
                for p, dep_a in a.conditional_parameters.items():
                    pa = np.array(list(dep_a.parameters.values()), dtype=float)
                    pb = np.array(list(b.conditional_parameters[p].parameters.values()), dtype=float)
                    scale = max(1.0, float(np.max(np.abs([pp[p] for pp in b.parameters_per_interval]))))
                    if len(b.conditioning_values) >= 3 and np.ptp(np.asarray(b.conditioning_values, dtype=float)) > 0 \
                            and not np.allclose(pa, pb, rtol=1e-4, atol=1e-5 * scale):
                        bad.append(("refit_equals_fresh_fit",
                                    f"dimension {i} parameter {p}: dependence function of the model fitted to A and re-fitted "
                                    f"to B has parameters {pa.tolist()}, of a fresh model fitted to B {pb.tolist()}"))
                        break
    for pred, detail in bad:
        ck.fail({"entry": "GlobalHierarchicalModel.fit", "predicate": pred}, case, detail)
    if div and not bad:
        ck.diverge("fit-pipeline", case, div)


# --------------------------------------------------------------------------- (B)

def process_families(ck, sub_seed, n):
    rng = np.random.default_rng(sub_seed)
    from virocon import (DependenceFunction, ExponentiatedWeibullDistribution, GlobalHierarchicalModel,
                         LogNormalDistribution, WeibullDistribution, WidthOfIntervalSlicer, NumberOfIntervalsSlicer)

    gen = GlobalHierarchicalModel([
        {"distribution": WeibullDistribution(2.0, 1.6)},
        {"distribution": LogNormalDistribution(), "conditional_on": 0,
         "parameters": {"mu": _dep(models._lnsquare2, [2.0, 4.0]), "sigma": _dep(models._asym3, [0.1, 0.3, 0.4])}}])
    data = gen.draw_sample(n, random_state=int(rng.integers(0, 2**31)))
    if rng.integers(0, 2):
        data = np.round(data, 2) + 0.01
    use_ew = bool(rng.integers(0, 2))
    slicer_cfg = {"slicer": "width", "width": 0.8, "right_open": True, "ref": "center", "value_range": None,
                  "min_pts": 30, "min_iv": 2} if rng.integers(0, 2) else \
        {"slicer": "number", "n_intervals": 6, "include_max": True, "ref": "center", "value_range": None,
         "min_pts": 30, "min_iv": 2}

    def build():
        d0 = ExponentiatedWeibullDistribution() if use_ew else WeibullDistribution()
        return GlobalHierarchicalModel([
            {"distribution": d0, "intervals": make_slicer(slicer_cfg)},
            {"distribution": LogNormalDistribution(), "conditional_on": 0,
             "parameters": {"mu": DependenceFunction(models._lnsquare2, bounds=[(0, None), (0, None)]),
                            "sigma": DependenceFunction(models._asym3, bounds=[(0, None), (0, None), (None, None)])}}])

    # one weight per observation (travels with its row when the rows are permuted); with rounded data the ties
    # carry different weights
    w_arr = rng.uniform(0.5, 2.0, len(data)) if use_ew and rng.integers(0, 2) else None
    fd = [{"method": "wlsq", "weights": "quadratic" if w_arr is None else w_arr} if use_ew else {"method": "mle"}, None]
    case = {"part": "B", "n": n, "ew": use_ew, "slicer": slicer_cfg, "sub_seed": int(sub_seed),
            "weights": "quadratic" if w_arr is None else "array"}
    if w_arr is not None:
        ck.count("B_array_weights")
    ck.case(case, nontrivial=True, sample=False)
    ck.count("part=B")
    with warnings.catch_warnings():
        warnings.simplefilter("ignore")
        m1 = build()
        try:
            m1.fit(data, fit_descriptions=copy.deepcopy(fd))
        except NotImplementedError:
            # (a RuntimeError subclass) LogNormal implements no least squares and its description is None: the first
            # dimension's options reached it
            ck.fail({"entry": "GlobalHierarchicalModel.fit", "predicate": "fit_options_of_own_dimension", "families": True}, case,
                    "the conditional LogNormal dimension (description None) was asked for a least-squares fit")
            return
        except RuntimeError:
            ck.count("B_fit_failed")
            return
        ans = ck.driver.run([split_line(slicer_cfg, data[:, 0], data[:, 1])])
        ms = parse_split(ans[0])
        dist = m1.distributions[1]
        bad = []
        if "err" in ms or len(ms["ivs"]) != len(dist.data_intervals):
            ck.diverge("fit-pipeline-families", case, f"model {ms.get('err', len(ms.get('ivs', [])))} vs {len(dist.data_intervals)} intervals")
            return
        for q, iv in enumerate(ms["ivs"]):
            if not np.array_equal(np.asarray(dist.data_intervals[q]), iv["data"]):
                bad.append(("interval_data_are_own_observations", f"interval {q}"))
                break
            t = LogNormalDistribution()
            t.fit(iv["data"])
            if t.parameters != dist.parameters_per_interval[q]:
                bad.append(("estimate_is_standalone_fit_of_interval", f"interval {q}: {dist.parameters_per_interval[q]} vs {t.parameters}"))
                break
        perm = rng.permutation(len(data))
        m2 = build()
        fd2 = copy.deepcopy(fd)
        if w_arr is not None:
            fd2[0]["weights"] = w_arr[perm]
        m2.fit(data[perm], fit_descriptions=fd2)
        for i in range(2):
            a, b = m1.distributions[i], m2.distributions[i]
            if i == 0:
                pa, pb = a.parameters, b.parameters
                if not all(abs(pa[k] - pb[k]) <= 1e-6 * max(1.0, abs(pa[k])) for k in pa):
                    bad.append(("order_invariant", f"marginal parameters {pa} vs {pb}"))
            else:
                for p in a.conditional_parameters:
                    va = np.array(list(a.conditional_parameters[p].parameters.values()), dtype=float)
                    vb = np.array(list(b.conditional_parameters[p].parameters.values()), dtype=float)
                    xs = np.array([0.5, 1.5, 3.0, 5.0])
                    fa, fb = a.conditional_parameters[p](xs), b.conditional_parameters[p](xs)
                    if not np.allclose(fa, fb, rtol=DEP_ORDER_RTOL, atol=1e-6):
                        bad.append(("order_invariant", f"dependence function of {p}: {va.tolist()} vs {vb.tolist()}"))
        for pred, detail in bad:
            ck.fail({"entry": "GlobalHierarchicalModel.fit", "predicate": pred, "families": True}, case, detail)


# --------------------------------------------------------------------------- (B2)
# shipped families, arbitrary structure: every dimension (unconditional at any position, or each interval of a
# conditional one) equals a stand-alone fit of a fresh copy of that dimension's template to exactly its own data WITH
# THAT DIMENSION'S method and weights; only ExponentiatedWeibullDistribution implements (w)lsq, so options that reach
# another dimension change the estimates or raise NotImplementedError.

def _fam_dist(spec):
    from virocon import (ExponentiatedWeibullDistribution, LogNormalDistribution, NormalDistribution, WeibullDistribution)

    cls = {"weibull": WeibullDistribution, "lognormal": LogNormalDistribution, "normal": NormalDistribution,
           "expweib": ExponentiatedWeibullDistribution}[spec["fam"]]
    return cls(**spec.get("kw", {}))


def _fam_struct(rng, n):
    """dimension specs + the numpy recipe of the data (the fitted model need not be the generating one)"""
    ew_fd = lambda: {"method": str(rng.choice(["wlsq", "lsq"])),  # noqa: E731
                     "weights": [None, "linear", "quadratic", "quadratic"][int(rng.integers(0, 4))]}
    ew_cond = lambda j: {"fam": "expweib", "kw": {"f_delta": float(rng.choice([5.0, 2.0]))} if rng.integers(0, 4) else {},  # noqa: E731
                         "cond": j, "deps": ["alpha", "beta", "delta"], "fd": ew_fd(), "gen": "scaled"}
    plain_fd = lambda: [None, {"method": "mle"}, {"method": "mle", "weights": None}][int(rng.integers(0, 3))]  # noqa: E731
    d0 = {"fam": "expweib", "cond": None, "fd": ew_fd(), "gen": "weibull"} if rng.integers(0, 3) == 0 else \
        {"fam": "weibull", "cond": None, "fd": plain_fd(), "gen": "weibull"}
    v = int(rng.integers(0, 4))
    if v == 0:      # 2-D: virocon's OMAE2020-like model: conditional exponentiated Weibull, WLSQ
        dims = [d0, ew_cond(0)]
    elif v == 1:    # 3-D chain, the last dimension conditional on dimension 0 or 1
        dims = [d0, {"fam": "lognormal", "cond": 0, "deps": ["mu", "sigma"], "fd": plain_fd(), "gen": "lognormal"},
                ew_cond(int(rng.integers(0, 2)))]
    elif v == 2:    # 3-D: an unconditional dimension in the middle, the last conditional on it
        dims = [d0, {"fam": str(rng.choice(["normal", "weibull"])), "cond": None, "fd": plain_fd(), "gen": "free"},
                ew_cond(1) if rng.integers(0, 2) else
                {"fam": "lognormal", "cond": 1, "deps": ["mu", "sigma"], "fd": plain_fd(), "gen": "scaled"}]
    else:           # 3-D: unconditional LAST dimension (its own column, its own options)
        dims = [d0, ew_cond(0),
                {"fam": "expweib", "kw": {"f_delta": 3.0} if rng.integers(0, 2) else {}, "cond": None, "fd": ew_fd(), "gen": "free"}
                if rng.integers(0, 2) else {"fam": "normal", "cond": None, "fd": plain_fd(), "gen": "free"}]
    for d in dims:
        r = int(rng.integers(0, 3)) if n >= 1000 else int(rng.integers(0, 2))
        d["slicer"] = [{"slicer": "width", "width": 0.8, "right_open": True, "ref": "center", "value_range": None,
                        "min_pts": 30, "min_iv": 2},
                       {"slicer": "number", "n_intervals": 6, "include_max": True, "ref": "center", "value_range": None,
                        "min_pts": 30, "min_iv": 2},
                       {"slicer": "default"}][r]
    return dims


def _fam_data(rng, dims, n):
    cols = []
    for d in dims:
        if d["gen"] == "weibull":
            c = 2.0 * rng.weibull(1.6, n) + 0.02
        elif d["gen"] == "free":
            c = np.abs(rng.normal(6.0, 1.5, n)) + 0.05
        elif d["gen"] == "lognormal":
            x = cols[d["cond"]]
            c = rng.lognormal(np.log(2.0 + 4.0 * np.sqrt(x / 9.81)), 0.1 + 0.3 / (1 + 0.4 * x))
        else:
            c = (0.8 + 0.5 * cols[d["cond"]]) * rng.weibull(2.2, n) + 0.02
        cols.append(c)
    return np.column_stack(cols)


def _fam_model(dims):
    from virocon import DependenceFunction, GlobalHierarchicalModel

    descs = []
    for d in dims:
        desc = {"distribution": _fam_dist(d)}
        if d["slicer"]["slicer"] != "default":
            desc["intervals"] = make_slicer(d["slicer"])
        if d["cond"] is not None:
            desc["conditional_on"] = d["cond"]
            desc["parameters"] = {p: DependenceFunction(models._linear2) for p in d["deps"]
                                  if "f_" + p not in d.get("kw", {})}
        descs.append(desc)
    return GlobalHierarchicalModel(descs)


def _fam_fit_one(d, values):
    """stand-alone fit of a fresh template of dimension d, with d's OWN method and weights"""
    t = _fam_dist(d)
    fd = d["fd"]
    with warnings.catch_warnings():
        warnings.simplefilter("ignore")
        if fd is None:
            t.fit(values)
        else:
            t.fit(values, fd["method"], fd.get("weights"))
    return t.parameters


def _close(pa, pb, rtol):
    return set(pa) == set(pb) and all(abs(pa[k] - pb[k]) <= rtol * max(1.0, abs(pa[k])) for k in pa)


def process_families2(ck, sub_seed, n):
    rng = np.random.default_rng(sub_seed)
    dims = _fam_struct(rng, n)
    data = _fam_data(rng, dims, n)
    if rng.integers(0, 2):
        data = np.round(data, 2) + 0.01
    as_list = bool(rng.integers(0, 3) == 0)
    perm = rng.permutation(len(data))
    case = {"part": "B2", "n": n, "sub_seed": int(sub_seed), "as_list": as_list,
            "dims": [{k: v for k, v in d.items()} for d in dims]}
    ck.case(case, nontrivial=True, sample=False)
    ck.count("part=B2")
    ck.count(f"B2_n_dim={len(dims)}")
    ck.count("B2_rows=%d" % n)
    sig = {"entry": "GlobalHierarchicalModel.fit", "families": True}
    fds = [copy.deepcopy(d["fd"]) for d in dims]

    def run_fit(matrix):
        m = _fam_model(dims)
        with warnings.catch_warnings():
            warnings.simplefilter("ignore")
            try:
                m.fit(matrix.tolist() if as_list else matrix, fit_descriptions=copy.deepcopy(fds))
            except NotImplementedError:
                # only the exponentiated Weibull implements (w)lsq and only it is given (w)lsq here
                return m, "NotImplementedError"
            except RuntimeError as e:
                return m, "RuntimeError:" + str(e)[:60]
            except (TypeError, AttributeError, IndexError, KeyError) as e:
                return m, "crash:" + type(e).__name__ + ":" + str(e)[:60]
        return m, None

    m1, err = run_fit(data)
    if err == "NotImplementedError":
        ck.fail(dict(sig, predicate="fit_options_of_own_dimension"), case,
                "a least-squares fit was requested from a dimension whose own description says mle / nothing")
        return
    if err is not None and err.startswith("crash:"):
        ck.diverge("fit-pipeline-families", case, f"the model fits every dimension, implementation raised {err[6:]}")
        return
    if err is not None:
        ck.count("B2_fit_failed")
        return
    if as_list:
        ck.count("B2_data_list_of_lists")
    bad = []
    lines, idx = [], []
    for i, d in enumerate(dims):
        if d["cond"] is not None:
            lines.append(split_line(eff(dims[d["cond"]]["slicer"]), data[:, d["cond"]], data[:, i]))
            idx.append(i)
    answers = dict(zip(idx, ck.driver.run(lines))) if lines else {}
    for i, d in enumerate(dims):
        dist = m1.distributions[i]
        tag = f"{d['fam']}{'|%d' % d['cond'] if d['cond'] is not None else ''}:" \
              f"{'default' if d['fd'] is None else d['fd']['method'] + '/' + str(d['fd'].get('weights'))}"
        if d["cond"] is None:
            if i > 0:
                ck.count("B2_unconditional_dimension_after_first")
            want = _fam_fit_one(d, data[:, i])
            if dist.parameters != want:
                bad.append(("unconditional_dimension_fitted_to_own_column" if _fam_fit_one(d, data[:, 0]) == dist.parameters and i > 0
                            else "estimate_is_standalone_fit_with_own_options",
                            f"dimension {i} ({tag}): {dist.parameters} vs stand-alone fit of data[:, {i}] {want}"))
            continue
        ck.count("B2_conditional=" + tag.split(":")[0].split("|")[0] + ":" + tag.split(":")[1])
        if dims[d["cond"]]["slicer"]["slicer"] == "default":
            ck.count("B2_default_slicer")
        if "kw" in d and d["kw"]:
            ck.count("B2_template_with_fixed_parameter")
        ms = parse_split(answers[i])
        if "err" in ms or len(ms["ivs"]) != len(dist.data_intervals):
            ck.diverge("fit-pipeline-families", case,
                       f"dimension {i}: model {ms.get('err', len(ms.get('ivs', [])))} vs {len(dist.data_intervals)} intervals")
            return
        for q, iv in enumerate(ms["ivs"]):
            if not np.array_equal(np.asarray(dist.data_intervals[q], dtype=float), iv["data"]):
                bad.append(("interval_data_are_own_observations", f"dimension {i} interval {q}"))
                break
            want = _fam_fit_one(d, iv["data"])
            if dist.parameters_per_interval[q] != want:
                bad.append(("estimate_is_standalone_fit_with_own_options",
                            f"dimension {i} ({tag}) interval {q}: {dist.parameters_per_interval[q]} vs stand-alone fit of the "
                            f"template to the interval's data with this dimension's method and weights {want}"))
                break
    # order invariance
    if not bad:
        m2, err2 = run_fit(data[perm])
        if err2 is not None:
            bad.append(("order_invariant", f"fit of the permuted rows raised {err2}"))
        else:
            for i, d in enumerate(dims):
                a, b = m1.distributions[i], m2.distributions[i]
                if d["cond"] is None:
                    if not _close(a.parameters, b.parameters, 1e-6):
                        bad.append(("order_invariant", f"dimension {i}: {a.parameters} vs {b.parameters}"))
                    continue
                if len(a.parameters_per_interval) != len(b.parameters_per_interval) or not all(
                        _close(u, v, 1e-6) for u, v in zip(a.parameters_per_interval, b.parameters_per_interval)):
                    bad.append(("order_invariant", f"dimension {i}: per-interval estimates differ after permuting the rows"))
                    continue
                xs = np.asarray(a.conditioning_values, dtype=float)
                for p in a.conditional_parameters:
                    fa, fb = a.conditional_parameters[p](xs), b.conditional_parameters[p](xs)
                    if not np.allclose(fa, fb, rtol=DEP_ORDER_RTOL, atol=1e-6):
                        bad.append(("order_invariant", f"dimension {i}: dependence function of {p} differs after permuting the rows"))
    for pred, detail in bad:
        ck.fail(dict(sig, predicate=pred), case, detail)


# Both fits are least-squares fits of the same (reference, estimate) pairs up to summation-order noise of ~1e-10 in the
# estimates; curve_fit stops at ftol = xtol = 1.5e-8, which a three-parameter non-linear shape amplifies to ~1e-4 in the
# function values (seen in the thorough soak: asym3, 4e-4 in the parameters). "The same model" is judged within that.
DEP_ORDER_RTOL = 2e-3


def _dep(func, pars):
    from virocon import DependenceFunction

    d = DependenceFunction(func)
    d.parameters = dict(zip(d.parameters.keys(), pars))
    return d


def main(ck):
    rng = np.random.default_rng(ck.seed)
    thorough = ck.tier == "thorough"
    ck.rule = ("(A) random data matrices (30..5000 rows, thorough also 20000; raw, rounded, heavy ties, sorted, int64, list of "
               "rows) x 2-D/3-D structures incl. unconditional dimensions after the first x random Width/Number/"
               "PointsPerInterval slicer options incl. value_range and the default slicer (no 'intervals' key) x fixed/dependent "
               "parameters x fit descriptions (None, mle, lsq, wlsq+keyword, wlsq+per-row array also on conditional dimensions, "
               "absent, without 'method', wrong length; fresh copy or the caller's own list reused for three calls), first fit, "
               "fit of the permuted matrix and re-fit, over recording doubles; (B) shipped families (Weibull / exponentiated "
               "Weibull WLSQ + conditional LogNormal), 300..3000 rows (thorough ..20000); (B2) shipped families in 2-D/3-D "
               "structures (conditional exponentiated Weibull with fixed delta fitted by (w)lsq with keyword weights, conditional "
               "LogNormal, unconditional middle/last dimensions, default slicer, list-of-lists input), every dimension "
               "compared with a stand-alone fit using its own method and weights; distinct by SHA1")
    ck.assumptions = ["recording doubles use exactly permutation-invariant closed-form estimators (median, range)",
                      "np.argsort's result is passed to the PointsPerInterval model as the sorting permutation"]
    ck.partial = {"order invariance of iterative estimators": "MLE / least squares are permutation invariant only up to float "
                  "summation and optimiser noise; compared with rtol 1e-6 / 1e-5 at runtime"}
    for case in gen_cases(rng, 1500 if thorough else 150):
        process(ck, case)
    # row counts over the property's whole range (300..20000)
    for case in gen_cases(rng, 60 if thorough else 8, sizes=(3000, 5000, 20000) if thorough else (3000, 5000)):
        process(ck, case)
    for _ in range(24 if thorough else 6):
        process_families(ck, int(rng.integers(0, 2**31)), int(rng.choice([300, 1000, 3000])) if not thorough else int(rng.choice([1000, 5000, 20000])))
    for _ in range(60 if thorough else 14):
        process_families2(ck, int(rng.integers(0, 2**31)),
                          int(rng.choice([300, 1000, 3000])) if not thorough else int(rng.choice([300, 1000, 5000, 20000])))


def replay(ck, payload):
    case = payload["case"]
    if case.get("part") == "A":
        process(ck, case)
    elif case.get("part") == "B" and "sub_seed" in case:
        process_families(ck, case["sub_seed"], case["n"])
    elif case.get("part") == "B2":
        process_families2(ck, case["sub_seed"], case["n"])
    for s, c, d in ck.failures:
        print("oracle:", s, d)
    for k in ck.known_seen:
        print("known finding:", k)
    for op, c, d in ck.divergences:
        print("correspondence:", op, d)
    return not ck.failures
