"""
C09 - Joint fitting is order-invariant and fits each interval to exactly its own data.

Correspondence
  (A) real GlobalHierarchicalModel.fit over *recording* test-double distributions (closed-form,
      exactly permutation-invariant estimators: median / range) with real slicers, real
      ConditionalDistribution.fit (deepcopy per interval) and real DependenceFunction objects:
      data_intervals, conditioning_values, boundaries, per-interval estimates, the (x, y) pairs
      handed to every dependence function and the (method, weights) each dimension receives are
      compared exactly with the Lean model (Model/Slicers.lean + Model/FitPipeline.lean).
  (B) shipped families: parameters_per_interval[k] equals a stand-alone deepcopy(template).fit
      on the model's interval data; fit(data[perm]) gives the same model.
"""
import copy
import warnings

import numpy as np

from core import f2b, b2f, fl, il
import c10
import doubles
import models

LOG = []


def _dist_base():
    from virocon.distributions import Distribution

    return Distribution


class RecDist(_dist_base()):
    """recording double: parameters m (median of the data) and w (range + 1)"""

    def __init__(self, m=1.0, w=1.0, f_m=None, f_w=None, tag="?"):
        self.m = m if f_m is None else f_m
        self.w = w if f_w is None else f_w
        self.f_m, self.f_w, self.tag = f_m, f_w, tag

    @property
    def parameters(self):
        return {"m": self.m, "w": self.w}

    def cdf(self, x, m=None, w=None):
        m = self.m if m is None else m
        w = self.w if w is None else w
        z = np.asarray(x, dtype=float) - m
        return np.where(z > 0, z / (z + w), 0.0)

    def icdf(self, prob, m=None, w=None):
        m = self.m if m is None else m
        w = self.w if w is None else w
        prob = np.asarray(prob, dtype=float)
        return m + w * prob / (1 - prob)

    def pdf(self, x, m=None, w=None):
        m = self.m if m is None else m
        w = self.w if w is None else w
        z = np.asarray(x, dtype=float) - m
        return np.where(z > 0, w / ((z + w) * (z + w)), 0.0)

    def draw_sample(self, n, m=None, w=None, *, random_state=None):
        rng = np.random.default_rng(random_state)
        return self.icdf(rng.uniform(size=n), m, w)

    def _estimate(self, data):
        data = np.asarray(data, dtype=float)
        if self.f_m is None:
            self.m = float(np.median(data))
        if self.f_w is None:
            self.w = float(np.max(data) - np.min(data) + 1.0)

    def _fit_mle(self, data):
        LOG.append((self.tag, "mle", None, np.array(data, dtype=float)))
        self._estimate(data)

    def _fit_lsq(self, data, weights):
        LOG.append((self.tag, "lsq", weights, np.array(data, dtype=float)))
        self._estimate(data)


def _chain_aff(x, a, b, d):
    return (a + b * x) + 0.5 * d(x)


def est_ref(data):
    data = np.asarray(data, dtype=float)
    return {"m": float(np.median(data)), "w": float(np.max(data) - np.min(data) + 1.0)}


def make_slicer(cfg):
    from virocon.intervals import NumberOfIntervalsSlicer, PointsPerIntervalSlicer, WidthOfIntervalSlicer

    ref = {"median": np.median, "mean": np.mean}.get(cfg.get("ref"), cfg.get("ref"))
    if cfg["slicer"] == "width":
        return WidthOfIntervalSlicer(cfg["width"], reference=ref, right_open=cfg["right_open"],
                                     min_n_points=cfg["min_pts"], min_n_intervals=cfg["min_iv"])
    if cfg["slicer"] == "number":
        return NumberOfIntervalsSlicer(cfg["n_intervals"], reference=ref, include_max=cfg["include_max"],
                                       min_n_points=cfg["min_pts"], min_n_intervals=cfg["min_iv"])
    return PointsPerIntervalSlicer(cfg["n_points"], reference=ref, last_full=cfg["last_full"],
                                   min_n_points=cfg["min_pts"], min_n_intervals=cfg["min_iv"])


def random_slicer_cfg(rng, col):
    kind = str(rng.choice(["width", "number", "ppi"]))
    n = len(col)
    mx = float(np.max(col))
    if kind == "width":
        return {"slicer": "width", "width": float(rng.choice([mx / 4, mx / 7, 0.5, 1.0, 0.3])),
                "right_open": bool(rng.integers(0, 2)), "ref": str(rng.choice(["center", "left", "right", "median"])),
                "value_range": None, "min_pts": int(rng.choice([1, 3, 10])), "min_iv": int(rng.choice([1, 2, 3]))}
    if kind == "number":
        return {"slicer": "number", "n_intervals": int(rng.choice([2, 3, 5, 8])), "include_max": bool(rng.integers(0, 2)),
                "ref": str(rng.choice(["center", "left", "right", "median"])), "value_range": None,
                "min_pts": int(rng.choice([1, 3, 10])), "min_iv": int(rng.choice([1, 2, 3]))}
    return {"slicer": "ppi", "n_points": int(rng.choice([max(2, n // 3), max(2, n // 5), 7, 25])),
            "last_full": bool(rng.integers(0, 2)), "ref": str(rng.choice(["median", "mean"])),
            "min_pts": int(rng.choice([1, 3, 10])), "min_iv": int(rng.choice([1, 2]))}


def random_data(rng, n, n_dim):
    mode = rng.integers(0, 4)
    x = rng.weibull(1.5, size=(n, n_dim)) * rng.uniform(1, 4, n_dim) + 0.05
    if mode == 1:
        x = np.round(x, 1) + 0.1
    elif mode == 2:
        x[:, 0] = np.round(x[:, 0] * 2) / 2 + 0.5  # heavy ties in the first column
    elif mode == 3:
        x = x[np.argsort(x[:, 0])]
    return x


def gen_cases(rng, n_cases):
    for _ in range(n_cases):
        n_dim = int(rng.choice([2, 2, 3]))
        n = int(rng.choice([30, 60, 300, 1000]))
        data = random_data(rng, n, n_dim)
        cond = [None] + [int(rng.integers(0, i)) for i in range(1, n_dim)]
        slicers = [random_slicer_cfg(rng, data[:, j]) for j in range(n_dim)]
        fixed = [None if rng.integers(0, 3) else str(rng.choice(["m", "w"])) for _ in range(n_dim)]
        fd = []
        for i in range(n_dim):
            r = rng.integers(0, 5)
            if r == 4:
                fd.append({"method": "lsq"})  # weights key absent: must default to None for THIS dimension
            elif r == 0:
                fd.append(None)
            elif r == 1:
                fd.append({"method": "mle"})
            elif r == 2:
                fd.append({"method": "wlsq", "weights": str(rng.choice(["linear", "quadratic", "cubic"]))})
            else:
                fd.append({"method": "lsq", "weights": None})
        if rng.integers(0, 5) == 0:
            fd = None
        chain = [None] + [[None, None, "m_uses_w", "w_uses_m"][int(rng.integers(0, 4))] for _ in range(1, n_dim)]
        as_int = bool(rng.integers(0, 6) == 0)
        if as_int:
            data = np.round(data * 3) + 1.0
            slicers = [random_slicer_cfg(rng, data[:, j]) for j in range(n_dim)]
        yield {"part": "A", "n_dim": n_dim, "cond": cond, "slicers": slicers, "fixed": fixed, "fit_desc": fd, "chain": chain,
               "as_int": as_int,
               "data": [[float(v) for v in r] for r in data], "perm_seed": int(rng.integers(0, 2**31))}


def build_model(case):
    from virocon import DependenceFunction, GlobalHierarchicalModel

    descs, deps = [], {}
    for i in range(case["n_dim"]):
        d = {"intervals": make_slicer(case["slicers"][i])}
        if case["cond"][i] is None:
            d["distribution"] = RecDist(tag=i)
        else:
            kw, pars = {}, {}
            chain = case.get("chain", [None] * case["n_dim"])[i] if case["fixed"][i] is None else None
            for p in ("m", "w"):
                if case["fixed"][i] == p:
                    kw["f_" + p] = 2.5
                else:
                    pars[p] = DependenceFunction(doubles._affine)
                    deps[(i, p)] = pars[p]
            if chain == "m_uses_w":    # the dependent function's parameter comes BEFORE its conditioner's
                pars["m"] = DependenceFunction(_chain_aff, d=pars["w"])
                deps[(i, "m")] = pars["m"]
            elif chain == "w_uses_m":  # ... and AFTER it
                pars["w"] = DependenceFunction(_chain_aff, d=pars["m"])
                deps[(i, "w")] = pars["w"]
            d["distribution"] = RecDist(tag=i, **kw)
            d["conditional_on"] = case["cond"][i]
            d["parameters"] = pars
        descs.append(d)
    return GlobalHierarchicalModel(descs), deps


def fit_model(case, data):
    model, deps = build_model(case)
    if case.get("as_int"):
        data = np.asarray(data).astype(np.int64)  # whole-number observations stored as an integer matrix
    LOG.clear()
    fd = copy.deepcopy(case["fit_desc"])
    with warnings.catch_warnings():
        warnings.simplefilter("ignore")
        try:
            model.fit(data, fit_descriptions=fd)
        except RuntimeError as e:
            if "too few intervals" in str(e):
                return model, deps, "tooFewIntervals", list(LOG)
            if "Failed to fit dependence function" in str(e) or "Optimal parameters not found" in str(e):
                return None, None, "depfit", list(LOG)
            raise
        except (TypeError, ValueError) as e:
            return None, None, "depfit:" + type(e).__name__, list(LOG)
    return model, deps, None, list(LOG)


def split_line(cfg, cond_col, dist_col):
    base = c10.model_line(dict(cfg, data=[float(v) for v in cond_col], ref=cfg["ref"] if cfg["ref"] in c10.REFS else "callable"),
                          cfg["min_pts"], cfg["min_iv"])
    # base = RUN <slicer> ... n data…  (ppi: n perm… n data…) -> insert "split" and append the dist column
    return ["RUN", "split"] + base[1:] + fl(dist_col)


def parse_split(ans):
    t = ans.split()
    if t[0] == "ERR":
        return {"err": t[1]}
    K = int(t[1])
    p = 2
    out = []
    for _ in range(K):
        ref = None if t[p] == "-" else b2f(t[p])
        lo, hi = b2f(t[p + 1]), b2f(t[p + 2])
        n = int(t[p + 3])
        vals = np.array([b2f(v) for v in t[p + 4:p + 4 + n]])
        p += 4 + n
        out.append({"ref": ref, "lo": lo, "hi": hi, "data": vals})
    return {"ivs": out}


def has_boundary_ties(cfg, col):
    """PointsPerInterval: equal conditioning values on both sides of a chunk boundary"""
    if cfg["slicer"] != "ppi":
        return False
    s = np.sort(col)
    n, k = len(s), cfg["n_points"]
    rem = n % k
    cuts = list(range(rem if (rem and cfg["last_full"]) else k, n, k))
    return any(0 < c < n and s[c - 1] == s[c] for c in cuts)


def process(ck, case):
    data = np.array(case["data"], dtype=float)
    n_dim = case["n_dim"]
    model, deps, err, log = fit_model(case, data)
    ck.case(case, nontrivial=True, sample=ck.evaluations < 3)
    ck.count("part=A")
    ck.count(f"A_n_dim={n_dim}")
    if err and err.startswith("depfit"):
        ck.count("A_dependence_fit_failed")
        return
    bad = []
    # per-dimension fit options
    fd = case["fit_desc"]
    toks = ["absent"] if fd is None else sum(
        [["N"] if d is None else ["D", d.get("method", "-"),
                                  ("absent" if "weights" not in d else ("none" if d["weights"] is None else d["weights"]))]
         for d in fd], [])
    plan = ck.driver.run([" ".join(["RUN", "fitdesc", str(n_dim)] + toks)])[0].split()[1:]
    seen = {}
    for tag, meth, w, arr in log:
        seen.setdefault(tag, set()).add((meth, w))
    for i in range(n_dim):
        m, w = plan[i].split(":")
        want = ("mle", None) if m == "mle" else ("lsq", None if w == "None" else w)
        if i in seen and seen[i] != {want}:
            bad.append(("fit_options_of_own_dimension", f"dimension {i} was fitted with {sorted(map(str, seen[i]))}, expected {want}"))
    # intervals of every conditional dimension
    lines, idx = [], []
    for i in range(n_dim):
        j = case["cond"][i]
        if j is None:
            continue
        lines.append(split_line(case["slicers"][j], data[:, j], data[:, i]))
        lines.append(split_line(case["slicers"][j], data[:, j], data[:, j]))
        idx.append(i)
    answers = ck.driver.run(lines)
    div = None
    err_explained = False
    for k, i in enumerate(idx):
        j = case["cond"][i]
        ms, mc = parse_split(answers[2 * k]), parse_split(answers[2 * k + 1])
        ck.count("A_slicer=" + case["slicers"][j]["slicer"])
        if "err" in ms:
            # the fit loop stops at the first dimension whose slicing fails
            if err != ms["err"]:
                div = f"dimension {i}: model {ms['err']} implementation {err}"
            err_explained = True
            break
        dist = model.distributions[i]
        if not hasattr(dist, "data_intervals"):
            div = f"dimension {i}: implementation raised {err} before fitting it, model returned {len(ms['ivs'])} intervals"
            break
        ivs = ms["ivs"]
        if len(dist.data_intervals) != len(ivs):
            bad.append(("interval_count", f"dimension {i}: {len(dist.data_intervals)} vs model {len(ivs)}"))
            continue
        cfg = case["slicers"][j]
        for q, iv in enumerate(ivs):
            got = np.asarray(dist.data_intervals[q], dtype=float)
            # oracle: exactly the observations whose conditioning value falls in the interval
            if not np.array_equal(got, iv["data"]):
                bad.append(("interval_data_are_own_observations", f"dimension {i} interval {q}: {len(got)} values vs {len(iv['data'])}"))
                break
            want_par = est_ref(iv["data"])
            for p in ("m", "w"):
                if case["fixed"][i] == p:
                    want_par[p] = 2.5
            if dist.parameters_per_interval[q] != want_par:
                bad.append(("estimate_is_standalone_fit_of_interval", f"dimension {i} interval {q}: {dist.parameters_per_interval[q]} vs {want_par}"))
                break
            cdata = mc["ivs"][q]["data"]
            if cfg["ref"] in ("median", "mean"):
                ref_want = float(np.median(cdata)) if cfg["ref"] == "median" else float(np.mean(cdata))
            else:
                ref_want = iv["ref"]
            if f2b(float(dist.conditioning_values[q])) != f2b(ref_want):
                if cfg["ref"] in ("median", "mean"):
                    # callable reference: the interval's members are settled (data_intervals agree), so the
                    # reference must be that callable applied to the members' conditioning values
                    bad.append(("reference_is_callable_of_interval_members",
                                f"dimension {i} interval {q}: reference {dist.conditioning_values[q]!r} but "
                                f"np.{cfg['ref']} of the interval's conditioning values is {ref_want!r}"))
                    break
                div = div or f"dimension {i} interval {q}: reference {dist.conditioning_values[q]!r} model {ref_want!r}"
            b = dist.conditioning_interval_boundaries[q]
            if (f2b(float(b[0])), f2b(float(b[1]))) != (f2b(iv["lo"]), f2b(iv["hi"])):
                div = div or f"dimension {i} interval {q}: boundaries {b} model {(iv['lo'], iv['hi'])}"
        for (di, p), dep in deps.items():
            if di != i:
                continue
            # the pairs this dependence function has to be fitted to: the distribution's own records of this fit
            xs = np.asarray(dist.conditioning_values, dtype=float)
            ys = np.array([pp[p] for pp in dist.parameters_per_interval], dtype=float)
            # what the dependence function says it was given (semi-private attributes; when a tree does not keep
            # them the least-squares oracle below still decides)
            seen_x, seen_y = getattr(dep, "x", None), getattr(dep, "y", None)
            if seen_x is None or seen_y is None:
                ck.count("A_dep_xy_not_observable")
            if seen_x is not None and seen_y is not None and not (
                    np.array_equal(np.asarray(seen_x, dtype=float), xs) and np.array_equal(np.asarray(seen_y, dtype=float), ys)):
                bad.append(("dependence_function_fitted_to_reference_estimate_pairs", f"dimension {i} parameter {p}"))
            elif len(xs) >= 3 and np.ptp(xs) > 0:
                # ... and actually fitted: its parameters are the least-squares solution on those pairs
                # (for a chained function: given the final parameters of the function it uses)
                other = dep.dependent_parameters.get("d")
                target = ys - (0.5 * np.asarray(other(xs), dtype=float) if other is not None else 0.0)
                b_ref, a_ref = np.polyfit(xs, target, 1)
                got_p = np.array(list(dep.parameters.values()), dtype=float)
                scale = max(1.0, float(np.max(np.abs(target))))
                if not np.allclose(got_p, [a_ref, b_ref], rtol=1e-4, atol=1e-5 * scale):
                    bad.append(("dependence_function_is_least_squares_fit_of_pairs",
                                f"dimension {i} parameter {p} ({'chained' if other is not None else 'plain'}): "
                                f"parameters {got_p.tolist()} but least squares on the pairs gives {[float(a_ref), float(b_ref)]}"))
    if err is not None and not err_explained and div is None:
        div = f"implementation raised {err} but the model slices every dimension"
    # order invariance
    if err is None and not bad and div is None:
        perm = np.random.default_rng(case["perm_seed"]).permutation(len(data))
        model2, deps2, err2, _ = fit_model(case, data[perm])
        ties = any(has_boundary_ties(case["slicers"][case["cond"][i]], data[:, case["cond"][i]]) for i in idx)
        if ties:
            ck.count("A_ppi_boundary_ties")
        differs = None
        if err2 is not None:
            differs = f"permuted data raised {err2}"
        else:
            for i in idx:
                a, b = model.distributions[i], model2.distributions[i]
                if a.parameters_per_interval != b.parameters_per_interval or \
                        not (np.shape(a.conditioning_values) == np.shape(b.conditioning_values) and np.allclose(a.conditioning_values, b.conditioning_values, rtol=1e-12, atol=0)) or \
                        list(map(tuple, a.conditioning_interval_boundaries)) != list(map(tuple, b.conditioning_interval_boundaries)):
                    differs = f"dimension {i}: estimates / references / boundaries differ after permuting the rows"
                    break
                for q in range(len(a.data_intervals)):
                    if not np.array_equal(np.sort(a.data_intervals[q]), np.sort(b.data_intervals[q])):
                        differs = f"dimension {i} interval {q}: different observations after permuting the rows"
                        break
        if differs:
            sigd = {"entry": "GlobalHierarchicalModel.fit", "predicate": "order_invariant"}
            if ties:
                sigd["input_class"] = "PointsPerIntervalSlicer with equal conditioning values across a chunk boundary"
            ck.fail(sigd, case, differs)
    # history: re-fitting the SAME model object with a different data matrix must give what a fresh model gives
    if err is None and not bad and div is None:
        rng2 = np.random.default_rng(case["perm_seed"] + 1)
        data_b = data[rng2.permutation(len(data))[: max(len(data) * 2 // 3, 10)]] * float(rng2.uniform(1.2, 1.9)) + 0.05
        LOG.clear()
        with warnings.catch_warnings():
            warnings.simplefilter("ignore")
            try:
                model.fit(np.asarray(data_b).astype(np.int64) if case.get("as_int") else data_b,
                          fit_descriptions=copy.deepcopy(case["fit_desc"]))
                err_re = None
            except Exception as e:  # noqa: BLE001
                err_re = type(e).__name__ + ":" + str(e)[:40]
        try:
            fresh, _, err_f, _ = fit_model(case, data_b)
        except Exception as e:  # noqa: BLE001
            fresh, err_f = None, type(e).__name__ + ":" + str(e)[:40]
        err_f = None if err_f is None else err_f
        ck.count("A_refit_history")
        if (err_re is None) != (err_f is None):
            bad.append(("refit_equals_fresh_fit", f"re-fit of a fitted model raised {err_re}, a fresh model {err_f}"))
        elif err_re is None:
            for i in idx:
                a, b = model.distributions[i], fresh.distributions[i]
                same = (len(a.data_intervals) == len(b.data_intervals)
                        and all(np.array_equal(u, v) for u, v in zip(a.data_intervals, b.data_intervals))
                        and np.array_equal(np.asarray(a.conditioning_values), np.asarray(b.conditioning_values))
                        and list(map(tuple, a.conditioning_interval_boundaries)) == list(map(tuple, b.conditioning_interval_boundaries))
                        and a.parameters_per_interval == b.parameters_per_interval)
                if not same:
                    bad.append(("refit_equals_fresh_fit",
                                f"dimension {i}: model fitted to A and re-fitted to B has {len(a.data_intervals)} intervals "
                                f"(references {np.asarray(a.conditioning_values)[:4].tolist()}...), a fresh model fitted to B has "
                                f"{len(b.data_intervals)} (references {np.asarray(b.conditioning_values)[:4].tolist()}...)"))
                    break
                # ... and the same dependence functions (both are least-squares fits of the same pairs; the re-fit only
                # starts from other parameter values)
                for p, dep_a in a.conditional_parameters.items():
                    pa = np.array(list(dep_a.parameters.values()), dtype=float)
                    pb = np.array(list(b.conditional_parameters[p].parameters.values()), dtype=float)
                    scale = max(1.0, float(np.max(np.abs([pp[p] for pp in b.parameters_per_interval]))))
                    if len(b.conditioning_values) >= 3 and np.ptp(np.asarray(b.conditioning_values, dtype=float)) > 0 \
                            and not np.allclose(pa, pb, rtol=1e-4, atol=1e-5 * scale):
                        bad.append(("refit_equals_fresh_fit",
                                    f"dimension {i} parameter {p}: dependence function of the model fitted to A and re-fitted "
                                    f"to B has parameters {pa.tolist()}, of a fresh model fitted to B {pb.tolist()}"))
                        break
    for pred, detail in bad:
        ck.fail({"entry": "GlobalHierarchicalModel.fit", "predicate": pred}, case, detail)
    if div and not bad:
        ck.diverge("fit-pipeline", case, div)


# --------------------------------------------------------------------------- (B)

def process_families(ck, sub_seed, n):
    rng = np.random.default_rng(sub_seed)
    from virocon import (DependenceFunction, ExponentiatedWeibullDistribution, GlobalHierarchicalModel,
                         LogNormalDistribution, WeibullDistribution, WidthOfIntervalSlicer, NumberOfIntervalsSlicer)

    gen = GlobalHierarchicalModel([
        {"distribution": WeibullDistribution(2.0, 1.6)},
        {"distribution": LogNormalDistribution(), "conditional_on": 0,
         "parameters": {"mu": _dep(models._lnsquare2, [2.0, 4.0]), "sigma": _dep(models._asym3, [0.1, 0.3, 0.4])}}])
    data = gen.draw_sample(n, random_state=int(rng.integers(0, 2**31)))
    if rng.integers(0, 2):
        data = np.round(data, 2) + 0.01
    use_ew = bool(rng.integers(0, 2))
    slicer_cfg = {"slicer": "width", "width": 0.8, "right_open": True, "ref": "center", "value_range": None,
                  "min_pts": 30, "min_iv": 2} if rng.integers(0, 2) else \
        {"slicer": "number", "n_intervals": 6, "include_max": True, "ref": "center", "value_range": None,
         "min_pts": 30, "min_iv": 2}

    def build():
        d0 = ExponentiatedWeibullDistribution() if use_ew else WeibullDistribution()
        return GlobalHierarchicalModel([
            {"distribution": d0, "intervals": make_slicer(slicer_cfg)},
            {"distribution": LogNormalDistribution(), "conditional_on": 0,
             "parameters": {"mu": DependenceFunction(models._lnsquare2, bounds=[(0, None), (0, None)]),
                            "sigma": DependenceFunction(models._asym3, bounds=[(0, None), (0, None), (None, None)])}}])

    # one weight per observation (travels with its row when the rows are permuted); with rounded data the ties
    # carry different weights
    w_arr = rng.uniform(0.5, 2.0, len(data)) if use_ew and rng.integers(0, 2) else None
    fd = [{"method": "wlsq", "weights": "quadratic" if w_arr is None else w_arr} if use_ew else {"method": "mle"}, None]
    case = {"part": "B", "n": n, "ew": use_ew, "slicer": slicer_cfg, "sub_seed": int(sub_seed),
            "weights": "quadratic" if w_arr is None else "array"}
    if w_arr is not None:
        ck.count("B_array_weights")
    ck.case(case, nontrivial=True, sample=False)
    ck.count("part=B")
    with warnings.catch_warnings():
        warnings.simplefilter("ignore")
        m1 = build()
        try:
            m1.fit(data, fit_descriptions=copy.deepcopy(fd))
        except RuntimeError:
            ck.count("B_fit_failed")
            return
        ans = ck.driver.run([split_line(slicer_cfg, data[:, 0], data[:, 1])])
        ms = parse_split(ans[0])
        dist = m1.distributions[1]
        bad = []
        if "err" in ms or len(ms["ivs"]) != len(dist.data_intervals):
            ck.diverge("fit-pipeline-families", case, f"model {ms.get('err', len(ms.get('ivs', [])))} vs {len(dist.data_intervals)} intervals")
            return
        for q, iv in enumerate(ms["ivs"]):
            if not np.array_equal(np.asarray(dist.data_intervals[q]), iv["data"]):
                bad.append(("interval_data_are_own_observations", f"interval {q}"))
                break
            t = LogNormalDistribution()
            t.fit(iv["data"])
            if t.parameters != dist.parameters_per_interval[q]:
                bad.append(("estimate_is_standalone_fit_of_interval", f"interval {q}: {dist.parameters_per_interval[q]} vs {t.parameters}"))
                break
        perm = rng.permutation(len(data))
        m2 = build()
        fd2 = copy.deepcopy(fd)
        if w_arr is not None:
            fd2[0]["weights"] = w_arr[perm]
        m2.fit(data[perm], fit_descriptions=fd2)
        for i in range(2):
            a, b = m1.distributions[i], m2.distributions[i]
            if i == 0:
                pa, pb = a.parameters, b.parameters
                if not all(abs(pa[k] - pb[k]) <= 1e-6 * max(1.0, abs(pa[k])) for k in pa):
                    bad.append(("order_invariant", f"marginal parameters {pa} vs {pb}"))
            else:
                for p in a.conditional_parameters:
                    va = np.array(list(a.conditional_parameters[p].parameters.values()), dtype=float)
                    vb = np.array(list(b.conditional_parameters[p].parameters.values()), dtype=float)
                    xs = np.array([0.5, 1.5, 3.0, 5.0])
                    fa, fb = a.conditional_parameters[p](xs), b.conditional_parameters[p](xs)
                    if not np.allclose(fa, fb, rtol=1e-5, atol=1e-8):
                        bad.append(("order_invariant", f"dependence function of {p}: {va.tolist()} vs {vb.tolist()}"))
        for pred, detail in bad:
            ck.fail({"entry": "GlobalHierarchicalModel.fit", "predicate": pred, "families": True}, case, detail)


def _dep(func, pars):
    from virocon import DependenceFunction

    d = DependenceFunction(func)
    d.parameters = dict(zip(d.parameters.keys(), pars))
    return d


def main(ck):
    rng = np.random.default_rng(ck.seed)
    thorough = ck.tier == "thorough"
    ck.rule = ("(A) random data matrices (30..1000 rows; raw, rounded, heavy ties, sorted) x 2-D/3-D structures x random "
               "Width/Number/PointsPerInterval slicer options x fixed/dependent parameters x fit descriptions (None, mle, "
               "lsq, wlsq+weights, absent), first fit and fit of the permuted matrix, over recording doubles; (B) shipped "
               "families (Weibull / exponentiated Weibull WLSQ + conditional LogNormal), 300..3000 rows; distinct by SHA1")
    ck.assumptions = ["recording doubles use exactly permutation-invariant closed-form estimators (median, range)",
                      "np.argsort's result is passed to the PointsPerInterval model as the sorting permutation"]
    ck.partial = {"order invariance of iterative estimators": "MLE / least squares are permutation invariant only up to float "
                  "summation and optimiser noise; compared with rtol 1e-6 / 1e-5 at runtime"}
    for case in gen_cases(rng, 1500 if thorough else 150):
        process(ck, case)
    for _ in range(24 if thorough else 6):
        process_families(ck, int(rng.integers(0, 2**31)), int(rng.choice([300, 1000, 3000])) if not thorough else int(rng.choice([1000, 5000, 20000])))


def replay(ck, payload):
    case = payload["case"]
    if case.get("part") == "A":
        process(ck, case)
    elif case.get("part") == "B" and "sub_seed" in case:
        process_families(ck, case["sub_seed"], case["n"])
    for s, c, d in ck.failures:
        print("oracle:", s, d)
    for k in ck.known_seen:
        print("known finding:", k)
    for op, c, d in ck.divergences:
        print("correspondence:", op, d)
    return not ck.failures
