"""
C04 - AND/OR contour points have empirical exceedance alpha within allowed_error.

Correspondence: real `AndContour` / `OrContour` vs the Lean model (Model/AndOr.lean): thetas
(np.arange), unit vectors (cos/sin of theta/180*pi as TABLE leaves), the search loop state
(rel_dist, rel_step_size, current_pe, current_vector, nr_iterations), strict exceedance
counts, closure rows, OR range filter.  `model.marginal_icdf` (Monte-Carlo for a conditional
second variable) is captured by a recording subclass and `max_distance` is computed from the
captured values with the code's own numpy expression.  Coordinates are compared bit for bit,
the number of 'could not achieve the required precision' warnings with the model's number of
rays that ran out of iterations.

Oracle (on the implementation's own output, independent of the model): searched points lie on
their rays (angle theta, distance >= 0); the strict AND/OR exceedance fraction recomputed from the
sample is within allowed_error*alpha of alpha at every searched point, except for at most as many
points as precision warnings were emitted (one warning per ray; none => all precise); AND ends with (0,0); OR ends with (0,y_last),(0,0),(x_first,0); OR kept
points are inside the 1.1*max box, follow the thetas in order (a sublist: dropped, not altered),
and a theta may only be missing if a point of that ray outside the box can be precise.
"""
import math
import multiprocessing
import warnings

import numpy as np

import core
from core import f2b, b2f, fl
from c03c04_common import MODEL_NAMES, StubModel, build_model, cloud, model_sample

WARN_TEXT = "Could not achieve the required precision"
NONNEG_CLOUDS = ["ties", "pareto", "lattice", "zeros", "heavy", "mixture", "intcounts"]


# ---------------------------------------------------------------------------
# samples


def thetas_of(case):
    if case["kind"] == "and":
        return np.arange(0, 90, case["deg"])
    return np.arange(case["lo"], case["hi"], case["deg"])


def reachable_rel_dists(depth):
    """every rel_dist the search can evaluate within `depth` iterations (same float ops)"""
    out = []
    front = [(0.2, 0.1)]
    for _ in range(depth):
        nxt = []
        for rd, rs in front:
            out.append(rd)
            nxt.append((rd + rs, rs))
            h = 0.5 * rs
            nxt.append((rd - h, h))
        front = nxt
    return out


def make_sample(case):
    if "sample" in case:
        return np.array(case["sample"], dtype=float).reshape(-1, 2)
    if case["src"] == "model":
        return model_sample(case["model"], case["pseed"], case["n"], case["sseed"])
    if case["src"] == "cloud":
        return cloud(case["cloud"], case["n"], case["sseed"], nonneg=True)
    if case["src"] == "raytie2":
        return raytie2_sample(case)
    # "raytie": sample values placed exactly on the coordinates the search evaluates on one ray
    r = np.random.default_rng(70000 + case["sseed"])
    xm, ym = np.float64(case["marg"][0]), np.float64(case["marg"][1])
    maxd = np.sqrt(xm**2 + ym**2)
    th = thetas_of(case)
    theta = th[case["theta_idx"] % len(th)]
    c, s = np.cos(theta / 180 * np.pi), np.sin(theta / 180 * np.pi)
    rds = reachable_rel_dists(6)
    vx = np.array([c * (rd * maxd) for rd in rds])
    vy = np.array([s * (rd * maxd) for rd in rds])
    n = case["n"]
    k = r.integers(0, len(rds), n)
    x = np.where(r.uniform(size=n) < 0.6, vx[k], r.weibull(1.5, n) * float(xm) * 0.6)
    k2 = np.where(r.uniform(size=n) < 0.5, k, r.integers(0, len(rds), n))
    y = np.where(r.uniform(size=n) < 0.6, vy[k2], r.weibull(1.5, n) * float(ym) * 0.6)
    return np.ascontiguousarray(np.column_stack([x, y]), dtype=float)


def raytie2_sample(case):
    """one coordinate ('focus') takes only the <= 15 values that the search evaluates on one ray
    within its first 4 iterations (heavy ties exactly at the compared coordinates), the other
    coordinate is neutral (AND: always exceeded, OR: never exceeded), so that the exceedance
    along that ray is a coarse step function whose steps sit exactly on the evaluated points"""
    r = np.random.default_rng(90000 + case["sseed"])
    xm, ym = np.float64(case["marg"][0]), np.float64(case["marg"][1])
    maxd = np.sqrt(xm**2 + ym**2)
    th = thetas_of(case)
    theta = th[case["theta_idx"] % len(th)]
    c, s = np.cos(theta / 180 * np.pi), np.sin(theta / 180 * np.pi)
    u = c if case["focus"] == "x" else s
    lat = np.array([u * (rd * maxd) for rd in reachable_rel_dists(4)])
    w = r.dirichlet(np.full(len(lat), 3.0))
    n = case["n"]
    vals = r.choice(lat, size=n, p=w)
    big = 1e6 * float(maxd)
    other = np.full(n, big if case["kind"] == "and" else 0.0)
    pts = np.column_stack([vals, other]) if case["focus"] == "x" else np.column_stack([other, vals])
    if case["kind"] == "or":
        pts[0] = [big, big]  # keeps 1.1*max away from the searched points
    return np.ascontiguousarray(pts, dtype=float)


def make_model(case, sample):
    if case["src"] == "model":
        return build_model(case["model"], case["pseed"], recording=True)
    if case.get("marg") is not None:
        return StubModel(sample, marginals=case["marg"])
    return StubModel(sample)


# ---------------------------------------------------------------------------
# implementation


def _scalar(v):
    return float(np.asarray(v, dtype=float).reshape(-1)[0])


DEFAULTS = {"deg": 3, "err": 0.01, "lo": 10, "hi": 80}  # documented defaults of AndContour / OrContour


def run_impl(case):
    """arguments named in case["omit"] are not passed (the case then carries the documented default value, which
    the model and the oracle use)"""
    import traceback

    from virocon import AndContour, OrContour

    alpha = case["alpha"]
    omit = set(case.get("omit", ()))
    sample = make_sample(case) if case.get("supplied", True) else None
    model = make_model(case, sample)
    # unusual but legitimate option combination: an explicit n together with a supplied sample (n is only the
    # size of a sample the contour draws itself; it must not influence anything when a sample is supplied)
    kw = {"n": int(case["n_with_sample"])} if (sample is not None and case.get("n_with_sample")) else {}
    if "deg" not in omit:
        kw["deg_step"] = case["deg"]
    if "err" not in omit:
        kw["allowed_error"] = case["err"]
    if case["kind"] == "or":
        if "lo" not in omit:
            kw["lowest_theta"] = case["lo"]
        if "hi" not in omit:
            kw["highest_theta"] = case["hi"]
    passed = None if sample is None else sample.copy()
    out = {"supplied_sample": sample, "passed_sample": passed}
    try:
        with warnings.catch_warnings(record=True) as w:
            warnings.simplefilter("always")
            if not case.get("supplied", True):
                np.random.seed(case["sseed"] % (2**32))
            cls = AndContour if case["kind"] == "and" else OrContour
            c = cls(model, alpha, sample=passed, **kw)
        out["nwarn"] = sum(1 for m in w if issubclass(m.category, UserWarning) and WARN_TEXT in str(m.message))
        co = c.coordinates
        out["coords"] = np.array([[_scalar(co[i][0]), _scalar(co[i][1])] for i in range(len(co))], dtype=float).reshape(-1, 2)
        out["sample"] = np.array(c.sample, dtype=float)
        out["n_attr"] = getattr(c, "n", None)
    except Exception as e:  # noqa: BLE001
        out["err"] = type(e).__name__
        out["msg"] = str(e)[:200]
        fr = traceback.extract_tb(e.__traceback__)[-1]
        out["err_origin"] = f"{fr.filename.rsplit('/', 1)[-1]}:{fr.name}"
        out["sample"] = sample if sample is not None else (model.rec_draw[0][1] if model.rec_draw else None)
    out["drawn"] = [(n, s) for n, s in model.rec_draw]
    icdf = {d: v for (_, d, v) in model.rec_icdf}
    out["icdf_calls"] = [(p, d) for (p, d, _) in model.rec_icdf]
    if 0 in icdf and 1 in icdf:
        x_marginal, y_marginal = icdf[0], icdf[1]
        out["max_distance"] = float(np.sqrt(x_marginal**2 + y_marginal**2))
    return out


def model_lines(case, impl):
    th = thetas_of(case)
    lines = [["CLEAR"]]
    for t in th:
        a = t / 180 * np.pi
        lines.append(["TABLE", "cos", str(f2b(a)), str(f2b(np.cos(t / 180 * np.pi)))])
        lines.append(["TABLE", "sin", str(f2b(a)), str(f2b(np.sin(t / 180 * np.pi)))])
    s = impl["sample"]
    if case["kind"] == "and":
        t0, t1 = 0.0, 90.0
    else:
        t0, t1 = float(case["lo"]), float(case["hi"])
    lines.append(
        ["RUN", "c04" + case["kind"], str(f2b(np.pi)), str(f2b(case["alpha"])), str(f2b(case["err"])),
         str(f2b(impl["max_distance"])), str(f2b(t0)), str(f2b(t1)), str(f2b(float(case["deg"])))]
        + fl(s[:, 0]) + fl(s[:, 1])
    )
    return lines


def parse_model(ans):
    t = ans.split()
    if t[0] != "OK":
        return {"err": " ".join(t[1:])}
    nr = int(t[1])
    rays = []
    p = 2
    for _ in range(nr):
        rays.append({"x": int(t[p]), "y": int(t[p + 1]), "pe": b2f(int(t[p + 2])), "iters": int(t[p + 3]), "warned": t[p + 4] == "1"})
        p += 5
    nc = int(t[p])
    p += 1
    coords = [(int(t[p + 2 * i]), int(t[p + 2 * i + 1])) for i in range(nc)]
    return {"rays": rays, "coords": coords}


ERR_MAP = {"emptyKept": ("IndexError",), "unboundVector": ("UnboundLocalError", "NameError")}


def _same(bits, x):
    return bits == f2b(x) or (b2f(bits) == 0.0 and x == 0.0)


def compare(case, impl, model):
    if "err" in impl or "err" in model:
        ie, me = impl.get("err"), model.get("err")
        if ie is not None and me is not None and ie in ERR_MAP.get(me, ()):
            return None
        return f"error mismatch impl={ie} {impl.get('msg', '')} model={me}"
    co = impl["coords"]
    if len(co) != len(model["coords"]):
        return f"number of coordinates impl={len(co)} model={len(model['coords'])}"
    for i, (mx, my) in enumerate(model["coords"]):
        if not (_same(mx, co[i][0]) and _same(my, co[i][1])):
            return f"coordinate {i}: impl {co[i][0]!r},{co[i][1]!r} model {b2f(mx)!r},{b2f(my)!r}"
    mw = sum(1 for r in model["rays"] if r["warned"])
    if mw != impl["nwarn"]:
        return f"precision warnings impl={impl['nwarn']} model rays out of iterations={mw}"
    return None


# ---------------------------------------------------------------------------
# property oracle


def exceed(kind, x, y, vx, vy):
    if kind == "and":
        return float(np.logical_and(x > vx, y > vy).sum()) / len(x)
    return float(np.logical_or(x > vx, y > vy).sum()) / len(x)


def oracle(case, impl):
    bad = []
    if "err" in impl:
        # the only documented-by-behaviour exception: OrContour closes the polygon through `coords_y[-1]` /
        # `coords_x[0]`; with EVERY searched point filtered out that is an IndexError raised in OrContour._compute
        # itself (the model answers `emptyKept` for exactly these inputs - compared in `compare`).  An IndexError of
        # AndContour, or one raised deeper (numpy / model code), is not excused.
        excused = impl["err"] == "IndexError" and case["kind"] == "or" and impl.get("err_origin") == "contours.py:_compute"
        if not excused:
            bad.append(("no_exception", f"{impl['err']} raised in {impl.get('err_origin')}: {impl.get('msg')}"))
        return bad
    kind, alpha, err = case["kind"], case["alpha"], case["err"]
    co, sample = impl["coords"], impl["sample"]
    unjustified_missing = []
    # --- the sample the contour worked on is the supplied one, untouched / the one drawn with n = int(100/alpha)
    if impl["supplied_sample"] is not None:
        sup = impl["supplied_sample"]
        if sample.shape != sup.shape or not np.array_equal(sample, np.asarray(sup, dtype=float)):
            bad.append(("sample_stored", "contour.sample is not the supplied sample (values differ from what was handed over)"))
            return bad
        if not np.array_equal(np.asarray(impl["passed_sample"], dtype=float), np.asarray(sup, dtype=float)):
            bad.append(("sample_stored", "the array handed over as `sample` was modified in place"))
            return bad
        if impl["drawn"]:
            bad.append(("sample_stored", f"a sample was supplied but model.draw_sample was called with n={[d[0] for d in impl['drawn']]}"))
            return bad
    else:
        want_n = int(100 / alpha)
        dr = impl["drawn"]
        if impl.get("n_attr") != want_n or sample.shape != (want_n, 2):
            bad.append(("default_n", f"alpha={alpha}: n attribute {impl.get('n_attr')}, sample shape {sample.shape}, expected n={want_n}"))
            return bad
        if len(dr) != 1 or dr[0][0] != want_n or not np.array_equal(np.asarray(dr[0][1], dtype=float), sample):
            bad.append(("sample_stored", f"model.draw_sample calls {[d[0] for d in dr]} (expected one call with n={want_n}); stored sample is not the drawn one"))
            return bad
    x, y = sample.T
    th = [float(t) for t in thetas_of(case)]
    T = len(th)
    if sorted(impl["icdf_calls"]) != [(1 - alpha, 0), (1 - alpha, 1)]:
        bad.append(("marginal_icdf_calls", str(impl["icdf_calls"])))

    def on_ray(p, theta):
        a = theta / 180 * np.pi
        c, s = math.cos(a), math.sin(a)
        nrm = math.hypot(p[0], p[1])
        return abs(p[0] * s - p[1] * c) <= 1e-12 * max(nrm, 1e-300) and p[0] * c + p[1] * s >= 0

    def precise(p):
        pe = exceed(kind, x, y, p[0], p[1])
        return abs(pe - alpha) <= err * alpha * (1 + 1e-9), pe

    if kind == "and":
        if co.shape != (T + 1, 2):
            bad.append(("and_shape", f"{co.shape}, expected {(T + 1, 2)}"))
            return bad
        if not (co[-1][0] == 0 and co[-1][1] == 0):
            bad.append(("and_closure", f"last point {co[-1].tolist()}"))
        searched = [(co[i], th[i]) for i in range(T)]
    else:
        if co.shape[0] < 4 or co.shape[1] != 2:
            bad.append(("or_shape", str(co.shape)))
            return bad
        kept = co[:-3]
        tail = co[-3:]
        want = [[0.0, kept[-1][1]], [0.0, 0.0], [kept[0][0], 0.0]]
        if not np.array_equal(tail, np.array(want)):
            bad.append(("or_closure", f"tail {tail.tolist()} expected {want}"))
        xmax, ymax = 1.1 * max(x), 1.1 * max(y)
        unjustified_missing = []
        # kept points follow the thetas in order, each theta at most once
        searched = []
        ti = 0
        for p in kept:
            while ti < T and not on_ray(p, th[ti]):
                ti += 1
            if ti == T:
                bad.append(("or_filter_sublist", f"point {p.tolist()} is not on a remaining ray of the theta grid"))
                break
            searched.append((p, th[ti]))
            ti += 1
        for p, theta in searched:
            if not (p[0] < xmax and p[1] < ymax):
                bad.append(("or_filter_range", f"kept point {p.tolist()} (theta {theta}) not below 1.1*max = {(xmax, ymax)}"))
                break
        # a theta may be missing only if the point found on its ray lies outside the box.  For a ray without
        # precision warning that point is precise; if the exceedance just inside the box edge is already below
        # the precise band, no precise point exists outside the box (OR exceedance falls along the ray), so the
        # ray's point was inside and must not have been dropped.  Such a theta can then only be one of the
        # rays that warned (their end point is arbitrary): counted against the number of warnings below.
        if not bad:
            present = {theta for _, theta in searched}
            for theta in th:
                if theta in present:
                    continue
                a = theta / 180 * np.pi
                c, s = math.cos(a), math.sin(a)
                # distance at which the ray leaves the box [0,xmax) x [0,ymax)
                d_exit = min(xmax / c if c > 1e-300 else math.inf, ymax / s if s > 1e-300 else math.inf)
                d_in = d_exit * (1 - 1e-9)
                pe_in = exceed(kind, x, y, c * d_in, s * d_in)
                if pe_in < alpha - err * alpha * (1 + 1e-9):
                    unjustified_missing.append((theta, pe_in))
    for i, (p, theta) in enumerate(searched):
        if not on_ray(p, theta):
            bad.append(("point_on_ray", f"point {i} {p.tolist()} not on the ray of theta {theta}"))
            break
    # the warning is emitted once per ray that ran out of iterations (captured with
    # simplefilter("always")): without any warning every searched point must be precise, and
    # in general there cannot be more imprecise points than warnings
    imprecise = []
    for i, (p, theta) in enumerate(searched):
        ok, pe = precise(p)
        if not ok:
            imprecise.append((i, p, theta, pe))
    if len(imprecise) > impl["nwarn"]:
        i, p, theta, pe = imprecise[0]
        bad.append(("exceedance_within_allowed_error",
                    f"{impl['nwarn']} precision warning(s) but {len(imprecise)} imprecise point(s); point {i} {p.tolist()} (theta {theta}): "
                    f"{kind.upper()} exceedance {pe!r}, alpha {alpha}, |pe-alpha|/alpha = {abs(pe - alpha) / alpha:.4g} > {err}"))
    elif kind == "or" and unjustified_missing and len(imprecise) + len(unjustified_missing) > impl["nwarn"]:
        theta, pe_in = unjustified_missing[0]
        bad.append(("or_dropped_point_within_range",
                    f"{len(unjustified_missing)} theta(s) missing although every precise point of their rays is inside the 1.1*max box, "
                    f"{len(imprecise)} kept point(s) imprecise, but only {impl['nwarn']} precision warning(s); e.g. theta {theta} "
                    f"(pe just inside the box edge = {pe_in!r})"))
    impl["_or_missing_checked"] = (len(unjustified_missing), len(imprecise)) if kind == "or" else None
    return bad


# ---------------------------------------------------------------------------


def evaluate(cases):
    drv = core.Driver()
    lines, metas, out = [], [], []
    for case in cases:
        impl = run_impl(case)
        rec = {"case": case, "bad": oracle(case, impl), "impl_err": impl.get("err"), "nwarn": impl.get("nwarn", 0)}
        rec["or_missing"] = impl.get("_or_missing_checked")
        rec["err_origin"] = impl.get("err_origin")
        rec["has_model_input"] = "max_distance" in impl and impl.get("sample") is not None
        if rec["has_model_input"]:
            lines += model_lines(case, impl)
            s = impl["sample"]
            rec["n"] = int(len(s))
            rec["zeros"] = bool((s == 0).any())
            rec["ncoords"] = int(len(impl["coords"])) if "coords" in impl else 0
            rec["nrays"] = int(len(thetas_of(case)))
        metas.append((rec, impl))
    answers = drv.run(lines) if lines else []
    k = 0
    for rec, impl in metas:
        if rec["has_model_input"]:
            model = parse_model(answers[k])
            k += 1
            rec["cmp"] = compare(rec["case"], impl, model)
            if "err" not in model:
                rec["iters"] = [r["iters"] for r in model["rays"]]
                rec["model_warned"] = sum(1 for r in model["rays"] if r["warned"])
                rec["dropped"] = len(model["rays"]) - (len(model["coords"]) - 3) if rec["case"]["kind"] == "or" else 0
                # theorem search_precise_or_warned, evaluated on the model's own run
                a, e = rec["case"]["alpha"], rec["case"]["err"]
                rec["unwarned_imprecise"] = sum(
                    1 for r in model["rays"] if not r["warned"] and abs(r["pe"] - a) / a > e
                )
            else:
                rec["model_err"] = model["err"]
        else:
            rec["cmp"] = "no marginal_icdf values captured / no sample"
        out.append(rec)
    return out, drv.n_lines


def corpus_cases():
    base = {"gen": "corpus", "supplied": True}
    yield dict(base, kind="and", src="model", model="hs_tz_weibull", pseed=0, n=10000, sseed=1, alpha=0.01, deg=3, err=0.01)
    yield dict(base, kind="or", src="model", model="hs_tz_weibull", pseed=0, n=10000, sseed=1, alpha=0.01, deg=3, err=0.01, lo=10, hi=80)
    # too small a sample: every ray runs out of iterations (warning branch)
    yield dict(base, kind="and", src="model", model="hs_tz_weibull", pseed=0, n=200, sseed=2, alpha=0.001, deg=10, err=0.01)
    yield dict(base, kind="or", src="model", model="hs_tz_weibull", pseed=0, n=200, sseed=2, alpha=0.001, deg=10, err=0.01, lo=10, hi=80)
    # zeros in y and theta = 0: strict '>' against a coordinate that is exactly 0
    yield dict(base, kind="and", src="cloud", cloud="zeros", n=2000, sseed=3, alpha=0.1, deg=5, err=0.05)
    yield dict(base, kind="or", src="cloud", cloud="zeros", n=2000, sseed=3, alpha=0.1, deg=5, err=0.05, lo=0, hi=90)
    # sample values exactly on the coordinates the search evaluates
    yield dict(base, kind="and", src="raytie", marg=[3.0, 4.0], theta_idx=0, n=2000, sseed=4, alpha=0.2, deg=15, err=0.2)
    yield dict(base, kind="and", src="raytie", marg=[3.0, 4.0], theta_idx=2, n=2000, sseed=5, alpha=0.2, deg=15, err=0.2)
    yield dict(base, kind="or", src="raytie", marg=[3.0, 4.0], theta_idx=1, n=2000, sseed=6, alpha=0.2, deg=15, err=0.2, lo=0, hi=90)
    for kind, focus, ti in (("and", "x", 0), ("and", "y", 2), ("or", "x", 1), ("or", "y", 3)):
        c = dict(base, kind=kind, src="raytie2", focus=focus, marg=[3.0, 4.0], theta_idx=ti, n=3000, sseed=8 + ti,
                 alpha=0.2, deg=15, err=0.2)
        if kind == "or":
            c.update(lo=0, hi=90)
        yield c
    # the documented defaults, arguments omitted: deg_step=3, allowed_error=0.01, lowest_theta=10, highest_theta=80
    yield dict(base, kind="and", src="model", model="hs_u_weibull2", pseed=2, n=5000, sseed=21, alpha=0.02,
               deg=DEFAULTS["deg"], err=DEFAULTS["err"], omit=["deg", "err"])
    yield dict(base, kind="or", src="model", model="hs_u_weibull2", pseed=2, n=5000, sseed=21, alpha=0.02,
               deg=DEFAULTS["deg"], err=DEFAULTS["err"], lo=DEFAULTS["lo"], hi=DEFAULTS["hi"], omit=["deg", "err", "lo", "hi"])
    yield dict(base, kind="or", src="cloud", cloud="pareto", n=2000, sseed=22, alpha=0.05,
               deg=5, err=0.05, lo=DEFAULTS["lo"], hi=DEFAULTS["hi"], omit=["lo", "hi"])
    # allowed_error >= 1 is outside the quantifier: the loop body never runs, current_vector is unbound
    yield dict(base, kind="and", src="cloud", cloud="ties", n=200, sseed=7, alpha=0.1, deg=30, err=1.0, outside_quantifier=True)


def random_cases(rng, count, nmax, budget):
    for i in range(count):
        kind = "and" if i % 2 == 0 else "or"
        alpha = float(rng.choice([1e-3, 0.2, 0.01, 0.05, float(10 ** rng.uniform(-3, np.log10(0.2)))]))
        err = float(rng.choice([0.005, 0.2, 0.01, 0.05, 0.1, float(10 ** rng.uniform(np.log10(0.005), np.log10(0.2)))]))
        deg = rng.choice([1, 2, 3, 5, 7, 10, 15, 30, 2.5, 7.5, 1.5, int(rng.integers(1, 31))])
        deg = float(deg) if float(deg) != int(deg) else int(deg)
        n = int(rng.choice([200, 500, 1000, 2000, 5000, 10000, nmax]))
        case = {"gen": "random", "kind": kind, "alpha": alpha, "err": err, "deg": deg, "supplied": True,
                "n_with_sample": (int(rng.choice([137, 1000, 50000])) if rng.integers(0, 5) == 0 else None),
                "sseed": int(rng.integers(0, 2**31))}
        if kind == "or":
            case["lo"], case["hi"] = [(10, 80), (0, 90), (5, 85), (20, 70), (0, 80), (10, 90), (2.5, 87.5)][int(rng.integers(0, 7))]
        u = rng.uniform()
        if u < 0.5:
            case.update(src="model", model=str(rng.choice(MODEL_NAMES)), pseed=int(rng.integers(0, 6)))
        elif u < 0.8:
            case.update(src="cloud", cloud=str(rng.choice(NONNEG_CLOUDS)))
        elif u < 0.88:
            case.update(src="raytie2", focus=str(rng.choice(["x", "y"])),
                        marg=[float(rng.choice([3.0, 1.0, 2.5, 8.0])), float(rng.choice([4.0, 1.0, 6.0]))],
                        theta_idx=int(rng.integers(1, 90)))
            case["alpha"] = float(rng.choice([0.2, 0.1]))
            case["err"] = float(rng.choice([0.2, 0.1]))
        else:
            case.update(src="raytie", marg=[float(rng.choice([3.0, 1.0, 2.5, 8.0])), float(rng.choice([4.0, 1.0, 6.0]))],
                        theta_idx=int(rng.integers(0, 90)))
            case["alpha"] = float(rng.choice([0.2, 0.1, 0.05]))
            case["err"] = float(rng.choice([0.2, 0.1, 0.05]))
        if rng.uniform() < 0.15:
            # some of the optional arguments left at their documented defaults (not passed at all)
            names = ["deg", "err"] + (["lo", "hi"] if kind == "or" else [])
            omit = [nm for nm in names if rng.integers(0, 2)] or [names[int(rng.integers(0, len(names)))]]
            for nm in omit:
                case[nm] = DEFAULTS[nm]
            case["omit"] = omit
        # keep the work per contour bounded: rays * n * iterations
        rays = len(thetas_of(dict(case, n=n)))
        its = 100 if case["alpha"] * n * case["err"] < 1.5 else 20
        while rays * n * its > budget and n > 200:
            n = max(200, n // 2)
            its = 100 if case["alpha"] * n * case["err"] < 1.5 else 20
        case["n"] = n
        if u < 0.5 and rng.uniform() < 0.08 and int(100 / case["alpha"]) * rays * 20 <= budget:
            case["supplied"] = False
            del case["n"]
        yield case


def sig(case, pred):
    return {"entry": ("AndContour" if case["kind"] == "and" else "OrContour") + "._compute", "predicate": pred}


def register(ck, recs):
    for rec in recs:
        case = rec["case"]
        inq = not case.get("outside_quantifier")
        nontrivial = inq and rec["impl_err"] is None and rec.get("n", 0) >= 200 and rec.get("nrays", 0) >= 3
        ck.case(case, nontrivial=nontrivial)
        ck.count("kind=" + case["kind"])
        ck.count("gen=" + case["gen"])
        ck.count("src=" + case["src"] + ":" + str(case.get("cloud", case.get("model", ""))))
        ck.count("contours_with_warning" if rec["nwarn"] else "contours_without_warning")
        if rec.get("model_warned"):
            ck.count("rays_out_of_iterations", rec["model_warned"])
        if rec.get("iters"):
            ck.count("rays_searched", len(rec["iters"]))
            ck.count("loop_iterations", sum(rec["iters"]))
        if rec.get("dropped"):
            ck.count("or_points_dropped_by_range_filter", rec["dropped"])
        if rec.get("zeros"):
            ck.count("sample_contains_exact_zeros")
        if rec["impl_err"]:
            ck.count("impl_exception=" + rec["impl_err"] + "@" + str(rec.get("err_origin")))
        if not case.get("supplied", True):
            ck.count("sample_drawn_by_contour")
        for nm in case.get("omit", ()):
            ck.count("default_taken=" + {"deg": "deg_step", "err": "allowed_error", "lo": "lowest_theta", "hi": "highest_theta"}[nm])
        if rec.get("or_missing") is not None:
            ck.count("or_missing_thetas_unjustified_but_covered_by_warnings", rec["or_missing"][0])
            if rec["nwarn"]:
                ck.count("or_contours_with_warning_checked_for_dropped_points")
        if "unwarned_imprecise" in rec:
            ck.hyp_checked += 1
            if rec["unwarned_imprecise"]:
                ck.diverge("search_precise_or_warned", case, "model run: un-warned ray with |pe-alpha|/alpha > err")
        bad = rec["bad"] if inq else []
        if "deg" in case.get("omit", ()) and bad:
            # the property does not say what the default step is (signature: 3, docstrings: 5); the theta grid of
            # the oracle is the model's assumption here, so a disagreement is reported as correspondence
            ck.diverge("and_or_default_deg_step:" + case["kind"], case, "; ".join(f"{p}: {d}" for p, d in bad)[:600])
            bad = []
        for pred, detail in bad:
            ck.fail(sig(case, pred), case, detail)
        if rec["cmp"] is not None:
            if bad:
                ck.count("divergence_with_oracle_failure")
            else:
                ck.diverge("and_or_search:" + case["kind"], case, rec["cmp"])
        else:
            ck.count("bit_exact_match")


def _chunks(lst, k):
    return [c for c in (lst[i::k] for i in range(k)) if c]


def main(ck):
    rng = np.random.default_rng(ck.seed)
    thorough = ck.tier == "thorough"
    ck.rule = (
        "corpus (published Hs-Tz model n=1e4; too-small sample -> every ray warns; clouds with exact zeros at theta=0; "
        "'raytie'/'raytie2' clouds whose values sit exactly on the coordinates the search evaluates (heavy ties at the compared values); optional arguments omitted "
        "(defaults deg_step=3, allowed_error=0.01, lowest_theta=10, highest_theta=80); allowed_error=1 outside the quantifier), "
        "then random AND/OR contours alternating: alpha in [1e-3,0.2], allowed_error in [0.005,0.2], deg_step in [1,30] (integers "
        "and 1.5/2.5/7.5), OR lowest/highest_theta in 7 combinations, samples from 4 real 2-D virocon model structures with perturbed "
        "parameters (marginal_icdf captured), non-negative arbitrary clouds (ties, Pareto/Cauchy tails, lattices, zeros) and raytie/raytie2 clouds, "
        "n from 200 to " + ("200000" if thorough else "20000")
        + "; non-trivial = inside the quantifier, no exception, n >= 200, >= 3 rays; distinct by SHA1 of the case"
    )
    ck.assumptions = [
        "np.cos/np.sin of theta/180*pi cross to the model as TABLE leaves (same numpy scalar calls as the code)",
        "model.marginal_icdf values are captured by a recording subclass and max_distance = np.sqrt(x_m**2 + y_m**2) is computed from them by the harness",
        "theorems are over exact ordered fields; the Float run of the same model functions is compared bit for bit with the code",
    ]
    ck.partial = {
        "per-ray iteration counts": "not observable on the implementation without a hook; only the number of precision warnings is compared",
        "sample drawn by the contour follows the model": "C07's subject; here: exactly one draw_sample call with n = int(100/alpha), the stored sample is the drawn one; "
        "a supplied sample is stored and left unmodified (compared with an untouched copy)",
        "default deg_step": "the property does not state it (signature 3, docstrings 5): with deg_step omitted the oracle's theta grid is the model's assumption "
        "and a disagreement is reported as correspondence (and_or_default_deg_step)",
        "OR theta missing on a contour with warnings": "every missing theta whose ray has no precise point outside the 1.1*max box must be covered by a warning: "
        "#imprecise kept points + #such thetas <= #warnings",
        "the double 1.1 vs the rational 11/10 of or_contour_drops_beyond_1_1": "Float run (orContourF) compared bit for bit; oracle recomputes 1.1*max(x) in Python",
    }
    budget = 4e8 if thorough else 4e7
    cases = list(corpus_cases()) + list(random_cases(rng, 3000 if thorough else 170, 200000 if thorough else 20000, budget))
    if thorough:
        with multiprocessing.Pool(8) as pool:
            res = pool.map(evaluate, _chunks(cases, 96))
    else:
        res = [evaluate(ch) for ch in _chunks(cases, 8)]
    for recs, nl in res:
        ck.driver.n_lines += nl
        register(ck, recs)
    ck.extra["exhaustive"] = False


def replay(ck, payload):
    case = payload["case"]
    impl = run_impl(case)
    bad = oracle(case, impl) if not case.get("outside_quantifier") else []
    for pred, detail in bad:
        print("oracle:", pred, detail)
    if "coords" in impl:
        print("warnings:", impl["nwarn"], "coordinates (first 3):", impl["coords"][:3].tolist())
    else:
        print("exception:", impl.get("err"), impl.get("msg"))
    if ck.driver and "max_distance" in impl and impl.get("sample") is not None:
        ans = ck.driver.run(model_lines(case, impl))
        print("correspondence:", compare(case, impl, parse_model(ans[0])))
    return not bad
