"""
C12 - Maximum-likelihood fits do not lose likelihood and are scale-equivariant (PARTIAL).

Proven in Lean (Properties/C12.lean): the scale law of the likelihood, equivariance of the arg-max,
the closed-form Normal / LogNormal(floc=0) estimators (exactly equivariant, and the arg-max), the
LogNormalNormFit estimator being a moment estimator and not an arg-max.
Observed here, per run, on the real code (scipy's optimisers are not modelled):

Correspondence
  (A) the Lean log-likelihoods (Model/Likelihood.lean, run at Float, transcendental leaves as TABLEs
      keyed by the bit pattern of the argument the model computes) vs
      np.sum(np.log(dist.pdf(data))) of the real distribution objects, at the generating AND at the
      fitted parameters; |diff| <= 1e-9 * (1 + sum |log pdf_i|)   (numpy sums pairwise, the model folds).
  (B) the Lean closed-form estimators vs the real `fit` of NormalDistribution, LogNormalDistribution
      (scipy's analytic floc=0 branch) and LogNormalNormFitDistribution, relative 1e-12.
Oracle (C), every family, default and user start values, data and c*data:
      ll_fit_ge_ll_start, ll_fit_ge_ll_truth (tol = 1e-6 (1+|LL|)), parameters_finite_admissible,
      scale_equivariant (shapes rtol 1e-3, scales 1e-4; where the parameters differ by more: the two
      estimates' log-likelihoods on the same data may differ by at most tol + the MEASURED optimiser error of
      the two fits = what restarting the real fit from its own result still gains, capped at 0.5); for Normal /
      LogNormal also
      ll_fit_ge_ll_start with the start placed at the Lean model's (proven) arg-max.
"""
import copy
import math
import os
import warnings

import numpy as np

from core import f2b, b2f

L2PI = math.log(2.0 * math.pi)
TOL_REL = 1e-6
RT_SHAPE = 1e-3
RT_SCALE = 1e-4
DATA_SCALE = (0.05, 20.0)
# A difference between fit(x) and the rescaled fit(c*x) that is explained by the measured optimiser error is accepted
# only up to this many log-likelihood units (likelihood-ratio statistic 2*0.5 = 1: the two estimates are statistically
# indistinguishable); an optimiser that stops further below what a restart reaches is reported.
OPT_ERR_CAP = 0.5


# --------------------------------------------------------------------------- families

def _classes():
    from virocon import (ExponentiatedWeibullDistribution, GeneralizedGammaDistribution, LogNormalDistribution,
                         NormalDistribution, ScipyDistribution, VonMisesDistribution, WeibullDistribution)
    from virocon.distributions import LogNormalNormFitDistribution

    import scipy.stats as sts

    class GammaDistribution(ScipyDistribution):
        scipy_dist_name = "gamma"

    class GumbelDistribution(ScipyDistribution):  # the other documented declaration; a scipy law without shapes
        scipy_dist = sts.gumbel_r

    return {
        "Weibull": WeibullDistribution, "LogNormal": LogNormalDistribution, "Normal": NormalDistribution,
        "LogNormalNormFit": LogNormalNormFitDistribution, "ExpWeibull": ExponentiatedWeibullDistribution,
        "GenGamma": GeneralizedGammaDistribution, "VonMises": VonMisesDistribution, "ScipyGamma": GammaDistribution,
        "ScipyGumbel": GumbelDistribution,
    }


_CLS = None


def cls_of(name):
    global _CLS
    if _CLS is None:
        _CLS = _classes()
    return _CLS[name]


# parameter kinds: how a parameter transforms when the data are multiplied by c
#   shape: unchanged   scale: *c   loc: *c   invscale: /c   logscale: + log c
KINDS = {
    "Weibull": {"alpha": "scale", "beta": "shape", "gamma": "loc"},
    "LogNormal": {"mu": "logscale", "sigma": "shape"},
    "Normal": {"mu": "loc", "sigma": "scale"},
    "LogNormalNormFit": {"mu_norm": "scale", "sigma_norm": "scale"},
    "ExpWeibull": {"alpha": "scale", "beta": "shape", "delta": "shape"},
    "GenGamma": {"m": "shape", "c": "shape", "lambda_": "invscale"},
    "VonMises": {"kappa": "shape", "mu": "angle"},  # scale fixed at 1: not a scale family
    "ScipyGamma": {"a": "shape", "loc": "loc", "scale": "scale"},
    "ScipyGumbel": {"loc": "loc", "scale": "scale"},  # regular location-scale family without shape parameters
}
# families whose fit is a closed form (no optimiser involved)
CLOSED_FORM = {"Normal", "LogNormal", "LogNormalNormFit"}


def entry(name):
    if name == "ScipyGamma":
        return "ScipyDistribution._fit_mle[scipy_dist_name=gamma]"
    if name == "ScipyGumbel":
        return "ScipyDistribution._fit_mle[scipy_dist=gumbel_r]"
    return cls_of(name).__name__ + "._fit_mle"


def gap_class(gap):
    """magnitude class of a log-likelihood shortfall (part of the signature of optimiser-related failures)"""
    gap = abs(gap)
    if not math.isfinite(gap):
        return "infinite"
    return "<0.05" if gap < 0.05 else "<0.5" if gap < 0.5 else ">=0.5"


UNBOUNDED = ("generating Weibull shape < 1.3 (< 1.7 for samples of at most 100 points) with free location and fitted shape < 1: the likelihood is unbounded, "
             "no maximiser exists")
UNBOUNDED_TRUTH_BETA = 1.3
UNBOUNDED_TRUTH_BETA_SMALL_N = 1.7   # 100-point samples of shape 1.39 were seen to end in the spike (soak, seed 23)
CONCENTRATED = ("concentrated 3-parameter Weibull sample (scale 0.03..0.3, location 0.5..1.5 or its rescaling): the default "
                "start values are far from the data's scale")
NEGATIVE_C = "fitted c < 0: scipy.stats.gengamma is also a law for negative c, the search is unconstrained"


def unbounded_class(case, *fitted):
    """the known input class of the 3-parameter Weibull: keyed on the CASE (generating shape below 1.3, below 1.7 for samples
    of at most 100 points - where samples
    of 100..5000 points can have a likelihood spike at the smallest observation -, location free) and only then on the
    fitted shape; a fit that ends below shape 1 on data from a clearly regular member (shape >= 1.3) is NOT in the class"""
    return (case["family"] == "Weibull" and "gamma" not in case.get("fixed", ()) and case.get("data_family") is None
            and (case["truth"]["beta"] < UNBOUNDED_TRUTH_BETA
                 or (case["n"] <= 100 and case["truth"]["beta"] < UNBOUNDED_TRUTH_BETA_SMALL_N))
            and any(f["beta"] < 1.0 for f in fitted))


def draw_truth(name, rng):
    """regular members of the family whose data stay within metocean magnitudes"""
    u = rng.uniform
    if name == "Weibull":
        return {"alpha": 10 ** u(-0.3, 0.7), "beta": u(0.8, 3.5), "gamma": float(rng.choice([0.0, 0.5, 1.0, 2.0]))}
    if name == "LogNormal":
        return {"mu": u(-0.5, 1.8), "sigma": u(0.1, 0.8)}
    if name == "Normal":
        return {"mu": u(1, 12), "sigma": u(0.3, 2)}
    if name == "LogNormalNormFit":
        return {"mu_norm": u(1, 8), "sigma_norm": u(0.3, 3)}
    if name == "ExpWeibull":
        return {"alpha": 10 ** u(-0.3, 0.5), "beta": u(0.8, 2.5), "delta": u(0.7, 4)}
    if name == "GenGamma":
        return {"m": u(0.8, 3), "c": u(0.8, 2.5), "lambda_": u(0.3, 2)}
    if name == "VonMises":
        return {"kappa": u(0.3, 4), "mu": u(-2, 2)}
    if name == "ScipyGamma":
        # three-parameter gamma with FREE location handed to scipy's generic optimiser: regular only for clearly
        # bell-shaped members and samples that are not tiny (for a < 3 or n = 100 the fit can collapse to a < 1 with the
        # location at the smallest observation - the unbounded-likelihood regime, seen at seed 10 of the quick soak)
        return {"a": u(3.0, 6.0), "loc": float(rng.choice([0.0, 0.5])), "scale": u(0.5, 3)}
    if name == "ScipyGumbel":
        return {"loc": u(1, 10), "scale": u(0.3, 2)}
    raise KeyError(name)


def draw_user_start(name, truth, rng):
    """a user's guess: the generating values perturbed by up to ~40 %"""
    u = rng.uniform
    out = {}
    scale_ref = 1.0
    for p, kind in KINDS[name].items():
        v = truth[p]
        if kind in ("shape", "scale", "invscale"):
            out[p] = float(v * math.exp(u(-0.35, 0.35)))
            if kind == "scale":
                scale_ref = v
        elif kind == "logscale":
            out[p] = float(v + u(-0.35, 0.35))
        elif kind == "angle":
            out[p] = float(v + u(-0.5, 0.5))
    for p, kind in KINDS[name].items():
        if kind == "loc":
            if name == "Normal":
                out[p] = float(truth[p] + u(-1, 1) * truth["sigma"])
            elif name == "ScipyGumbel":  # support = the whole line: the guess may lie on either side
                out[p] = float(truth[p] + u(-1, 1) * truth["scale"])
            else:  # keep the start inside the support of the data: move the location to the left
                out[p] = float(truth[p] - u(0, 0.3) * scale_ref)
    return out


def draw_far_start(name, truth, rng):
    """a poor user guess: shapes / scales off by a factor of up to ~3.3 (locations moved further into the left of the data)"""
    u = rng.uniform
    out = {}
    scale_ref = 1.0
    for p, kind in KINDS[name].items():
        v = truth[p]
        if kind in ("shape", "scale", "invscale"):
            out[p] = float(v * math.exp(u(0.5, 1.2) * float(rng.choice([-1, 1]))))
            if kind == "scale":
                scale_ref = v
        elif kind == "logscale":
            out[p] = float(v + u(0.5, 1.2) * float(rng.choice([-1, 1])))
        elif kind == "angle":
            out[p] = float(v + u(0.8, 2.5) * float(rng.choice([-1, 1])))
    for p, kind in KINDS[name].items():
        if kind == "loc":
            if name == "Normal":
                out[p] = float(truth[p] + u(2, 5) * truth["sigma"] * float(rng.choice([-1, 1])))
            elif name == "ScipyGumbel":
                out[p] = float(truth[p] + u(2, 5) * truth["scale"] * float(rng.choice([-1, 1])))
            else:
                out[p] = float(truth[p] - u(0.3, 1.5) * scale_ref)
    return out


def scale_params(name, pars, c):
    out = {}
    for p, kind in KINDS[name].items():
        v = float(pars[p])
        if kind in ("scale", "loc"):
            out[p] = c * v
        elif kind == "invscale":
            out[p] = v / c
        elif kind == "logscale":
            out[p] = v + math.log(c)
        else:
            out[p] = v
    return out


def admissible(name, pars):
    vals = {k: float(v) for k, v in pars.items()}
    if not all(math.isfinite(v) for v in vals.values()):
        return False, "non-finite parameter"
    pos = {"Weibull": ["alpha", "beta"], "LogNormal": ["sigma"], "Normal": ["sigma"],
           "LogNormalNormFit": ["mu_norm", "sigma_norm"], "ExpWeibull": ["alpha", "beta", "delta"],
           "GenGamma": ["m", "c", "lambda_"], "VonMises": ["kappa"], "ScipyGamma": ["a", "scale"],
           "ScipyGumbel": ["scale"]}[name]
    for p in pos:
        if not vals[p] > 0:
            return False, f"{p} = {vals[p]!r} is not positive"
    return True, ""


def make(name, pars=None):
    return cls_of(name)(**pars) if pars is not None else cls_of(name)()


def loglik(dist, x):
    """the observable the property names: sum(log dist.pdf(data)); -inf where the density vanishes"""
    with np.errstate(all="ignore"), warnings.catch_warnings():
        warnings.simplefilter("ignore")
        try:
            v = float(np.sum(np.log(np.asarray(dist.pdf(x), dtype=float))))
        except ZeroDivisionError:  # LogNormalNormFitDistribution() (mu_norm = 0) has no density
            return -math.inf
    return -math.inf if math.isnan(v) else v


def sample(name, truth, n, seed):
    return np.asarray(make(name, truth).draw_sample(n, random_state=seed), dtype=float)


def tol_of(*lls):
    return TOL_REL * (1.0 + max(abs(v) for v in lls if math.isfinite(v)))


# --------------------------------------------------------------------------- (C) oracle on the real code

CALLS = ("fit(x)", "fit(x, 'mle')", "fit(x, method='MLE')", "fit(x, 'mle', 'quadratic')", "fit(x, method='Mle', weights=None)")


def as_container(x, container):
    """the data as handed to `fit`: float ndarray (default) or a Python list (array_like)"""
    return [float(v) for v in x] if container == "list" else x


def fit_once(name, start, x, call=0, container=None):
    """`call` selects how the (same) maximum-likelihood fit is requested: Distribution.fit dispatches on `method`
    case-insensitively and ignores `weights` for maximum likelihood"""
    d = make(name, start)
    x = as_container(x, container)
    with warnings.catch_warnings(), np.errstate(all="ignore"):
        warnings.simplefilter("ignore")
        if call == 1:
            d.fit(x, "mle")
        elif call == 2:
            d.fit(x, method="MLE")
        elif call == 3:
            d.fit(x, "mle", "quadratic")
        elif call == 4:
            d.fit(x, method="Mle", weights=None)
        else:
            d.fit(x)
    return d


def polish_gain(name, pars, data, max_restarts=30):
    """
    measured optimiser error of a fit: how much log-likelihood the SAME fit routine still gains when it is
    restarted from its own result until nothing improves (>= 0; ~0 for a converged fit)
    """
    ll0 = best = loglik(make(name, pars), data)
    cur = dict(pars)
    for _ in range(max_restarts):
        try:
            d = fit_once(name, cur, data)
        except Exception:  # noqa: BLE001
            break
        ll = loglik(d, data)
        if not (math.isfinite(ll) and ll > best + 1e-12 * (1.0 + abs(best))):
            break
        best = ll
        cur = {k: float(v) for k, v in d.parameters.items()}
    return max(0.0, best - ll0) if math.isfinite(ll0) else 0.0


def choose_c(med, rng):
    lo = max(DATA_SCALE[0] / med * 1.05, 0.2)
    hi = min(DATA_SCALE[1] / med / 1.05, 5.0)
    for _ in range(50):
        c = float(math.exp(rng.uniform(math.log(lo), math.log(hi))))
        if abs(math.log(c)) > 0.25:
            return c
    return hi if hi > 1.3 else lo


def gen_cases(rng, n_draws, ns, names=None):
    for name in (names or list(KINDS)):
        for _ in range(n_draws):
            truth = {k: float(v) for k, v in draw_truth(name, rng).items()}
            for n in ns:
                if name == "ScipyGamma":
                    n = max(int(n), 1000)
                seed = int(rng.integers(0, 2 ** 31))
                starts = ["default", "user"] if name not in ("LogNormalNormFit",) else ["default"]
                if name in ("Normal", "LogNormal"):
                    starts.append("argmax")
                for st in starts:
                    case = {"part": "C", "family": name, "truth": truth, "n": int(n), "seed": seed,
                            "start_kind": st, "aux_seed": int(rng.integers(0, 2 ** 31))}
                    yield case


def gen_variant_cases(rng, n_draws, ns):
    """own-family data as before, but (a) the fit requested through the other spellings of the dispatch
    (`method='mle'` positional / 'MLE' / 'Mle', non-None weights with maximum likelihood), (b) the data handed over as a
    Python list, (c) a far-away user start (only the clauses about the start, finiteness and admissibility get a verdict
    there: whether Nelder-Mead then still reaches the generating parameters' likelihood is observed and counted)"""
    for name in KINDS:
        for k in range(n_draws):
            truth = {kk: float(v) for kk, v in draw_truth(name, rng).items()}
            case = {"part": "C", "family": name, "truth": truth, "n": int(rng.choice(ns)), "seed": int(rng.integers(0, 2 ** 31)),
                    "start_kind": "default" if name == "LogNormalNormFit" else str(rng.choice(["default", "user"])),
                    "aux_seed": int(rng.integers(0, 2 ** 31)), "call": 1 + k % 4}
            if k % 2:
                case["container"] = "list"
            yield case
            if name != "LogNormalNormFit":
                yield {"part": "C", "family": name, "truth": truth, "n": int(rng.choice(ns)), "seed": int(rng.integers(0, 2 ** 31)),
                       "start_kind": "user_far", "aux_seed": int(rng.integers(0, 2 ** 31))}


FOREIGN = {  # family fitted -> families the data may come from instead (same kind of support)
    "Weibull": ["LogNormal", "GenGamma", "ExpWeibull"], "LogNormal": ["Weibull", "GenGamma", "ExpWeibull"],
    "LogNormalNormFit": ["Weibull", "GenGamma"], "ExpWeibull": ["LogNormal", "GenGamma", "Weibull"],
    "GenGamma": ["LogNormal", "Weibull", "ExpWeibull"], "ScipyGamma": ["LogNormal", "Weibull"],
    "Normal": ["ScipyGumbel", "LogNormal", "Weibull"], "ScipyGumbel": ["Normal", "LogNormal", "Weibull"],
    "VonMises": ["Normal"],
}


def gen_foreign_cases(rng, n_draws, ns):
    """the clause "not lower than under the starting parameters" does not need data from the family: samples of ANOTHER
    family, rounded samples (ties) and whole-number samples handed over as an integer-dtype ndarray; verdict on
    fit_completes, ll_fit_ge_ll_start, parameters_finite_admissible only"""
    for name in KINDS:
        for k in range(n_draws):
            src = str(rng.choice(FOREIGN[name])) if k % 3 != 2 else name
            truth = {kk: float(v) for kk, v in draw_truth(src, rng).items()}
            if src == "Weibull":
                truth["gamma"] = 0.0
            case = {"part": "C", "family": name, "truth": truth, "data_family": src, "n": int(rng.choice(ns)),
                    "seed": int(rng.integers(0, 2 ** 31)), "start_kind": "default" if (k % 2 or name == "LogNormalNormFit") else "user",
                    "aux_seed": int(rng.integers(0, 2 ** 31)),
                    "data_form": ["float", "rounded", "whole"][k % 3] if name != "VonMises" else "float"}
            if case["start_kind"] == "user":
                case["user_truth"] = {kk: float(v) for kk, v in draw_truth(name, rng).items()}
            yield case


def draw_concentrated_truth(name, rng):
    """regular members whose samples are concentrated (densities above 1, POSITIVE log-likelihood, i.e. a negative value
    of the function the optimiser minimises) while the data stay within [0.05, 20]"""
    u = rng.uniform
    if name == "Weibull":
        return {"alpha": 10 ** u(-1.1, -0.5), "beta": u(1.2, 2.5), "gamma": float(rng.choice([0.5, 1.0, 1.5]))}
    if name == "LogNormal":
        return {"mu": u(0.0, 1.5), "sigma": u(0.02, 0.08)}
    if name == "Normal":
        return {"mu": u(1, 12), "sigma": u(0.02, 0.1)}
    if name == "ExpWeibull":
        return {"alpha": 10 ** u(-1.0, -0.6), "beta": u(1.0, 2.5), "delta": u(1.0, 4)}
    # (the generalised gamma is left out: for lambda_ around 10 its likelihood has a flat ridge along which fit(x) and fit(c*x)
    # stop up to ~0.5 log-likelihood units apart - optimiser noise at the level of the tolerance cap, seed 73 of a multi-seed run)
    # shipped families only: the ScipyDistribution test subclasses hand the whole fit to scipy's generic optimiser, whose
    # behaviour on concentrated three-parameter gamma data (fitted shape < 1 with free location) is scipy's, not virocon's
    return None


def gen_concentrated_cases(rng, n_draws, ns):
    for name in KINDS:
        for _ in range(n_draws):
            truth = draw_concentrated_truth(name, rng)
            if truth is None:
                break
            truth = {k: float(v) for k, v in truth.items()}
            yield {"part": "C", "family": name, "truth": truth, "n": int(rng.choice(ns)), "seed": int(rng.integers(0, 2 ** 31)),
                   "start_kind": "default", "regime": "concentrated", "aux_seed": int(rng.integers(0, 2 ** 31))}


def gen_fixed_cases(rng, n_draws, ns):
    """maximum-likelihood fits with a non-empty proper subset of the parameters fixed (at the generating values): the
    remaining parameters are estimated by maximum likelihood, so the likelihood must not fall below that of the start
    values nor - the generating parameters being admissible for the constrained problem - below the generating ones"""
    for name in KINDS:
        pars = list(KINDS[name])
        for _ in range(n_draws):
            truth = {k: float(v) for k, v in draw_truth(name, rng).items()}
            k = int(rng.integers(1, len(pars)))
            fixed = sorted(str(p) for p in rng.choice(pars, size=k, replace=False))
            if name == "Weibull" and truth["beta"] < 1.3 and "gamma" not in fixed:
                # free location with a shape near 1: the likelihood is unbounded (known input class, see known findings)
                fixed = sorted(set(fixed[: max(0, len(pars) - 2)]) | {"gamma"})
            # a parameter fixed at exactly 0 (falsy in Python) where the family admits it
            zero_ok = {"LogNormal": "mu", "Normal": "mu", "Weibull": "gamma", "ScipyGamma": "loc"}.get(name)
            if zero_ok in fixed and rng.integers(0, 3) == 0:
                truth[zero_ok] = 0.0
            n = int(rng.choice(ns))
            yield {"part": "C", "family": name, "truth": truth, "n": n, "seed": int(rng.integers(0, 2 ** 31)),
                   "start_kind": "fixed", "fixed": fixed, "aux_seed": int(rng.integers(0, 2 ** 31))}


POSITIVE_SUPPORT = {"Weibull", "LogNormal", "LogNormalNormFit", "ExpWeibull", "GenGamma", "ScipyGamma"}


def case_data(case):
    """the sample of a case: drawn from the family itself, or (`data_family`) from another family; `data_form`
    "rounded" = one decimal (ties), "whole" = whole numbers, handed to `fit` as an integer-dtype ndarray"""
    name = case["family"]
    src = case.get("data_family") or name
    x = sample(src, case["truth"], case["n"], case["seed"])
    if name == "VonMises" and src != name:
        x = (x + np.pi) % (2 * np.pi) - np.pi
    form = case.get("data_form") or "float"
    if form == "rounded":
        x = np.round(x, 1)
        if name in POSITIVE_SUPPORT:
            x = np.maximum(x, 0.1)
    elif form == "whole":
        x = np.ceil(x) if name in POSITIVE_SUPPORT else np.round(x)
        if name in POSITIVE_SUPPORT:
            x = np.maximum(x, 1.0)
    return x


def eval_case(case, argmax_start=None):
    """
    runs the real code for one case; returns dict(skip=...) or dict(bad=[(predicate, detail)], fits..., lls...)
    `argmax_start`: {(which): params} from the Lean model for start_kind == "argmax"
    """
    name = case["family"]
    truth = case["truth"]
    rng = np.random.default_rng(case["aux_seed"])
    x = case_data(case)
    own = case.get("data_family") in (None, name) and (case.get("data_form") or "float") == "float"
    # clauses with a verdict: everything for samples of the family itself from default / user / fixed starts; only the
    # clauses that do not need the generating parameters for other data and for far-away user starts
    full = own and case["start_kind"] != "user_far"
    med = float(np.median(np.abs(x)))
    out = {"bad": [], "median": med, "fits": {}, "ll": {}}
    if not (DATA_SCALE[0] <= med <= DATA_SCALE[1]):
        out["skip"] = "data scale outside [0.05, 20]"
        return out
    scalable = name != "VonMises" and full
    c = choose_c(med, rng) if scalable else 1.0
    out["c"] = c
    if case["start_kind"] == "default":
        start = None
    elif case["start_kind"] == "user":
        start = draw_user_start(name, case.get("user_truth") or truth, rng)
    elif case["start_kind"] == "user_far":
        start = draw_far_start(name, truth, rng)
    elif case["start_kind"] == "fixed":
        start = {"f_" + p: truth[p] for p in case["fixed"]}
    else:
        start = None if argmax_start is None else argmax_start.get("x")
    out["start"] = start
    if not own and start is not None and not math.isfinite(loglik(make(name, start), x)):
        out["skip"] = "user start inadmissible for these data"
        return out
    datasets = [("x", x, truth if own else None, start)]
    container = "int" if case.get("data_form") == "whole" else case.get("container")
    if scalable:
        if case["start_kind"] == "argmax":
            start_c = None if argmax_start is None else argmax_start.get("cx")
        elif case["start_kind"] == "fixed":
            tc = scale_params(name, truth, c)
            start_c = {"f_" + p: tc[p] for p in case["fixed"]}
        else:
            start_c = None if start is None else scale_params(name, start, c)
        datasets.append(("cx", c * x, scale_params(name, truth, c), start_c))
    fitted = {}
    for tag, data, tr, st in datasets:
        if case["start_kind"] == "argmax" and st is None:
            continue
        try:
            d0 = make(name, st)
            ll_start = loglik(d0, data)
            d = fit_once(name, st, data.astype(np.int64) if container == "int" else data, case.get("call", 0),
                         container)
        except Exception as e:  # noqa: BLE001
            how = CALLS[case.get("call", 0)] + (f", data as {container}" if container else "")
            out["bad"].append(("fit_completes", f"{tag}: {how}: {type(e).__name__}: {e}", {}))
            continue
        pars = {k: float(v) for k, v in d.parameters.items()}
        fitted[tag] = pars
        out["fits"][tag] = pars
        ok, why = admissible(name, pars)
        if not ok:
            extra = {}
            if name == "GenGamma" and not full and all(math.isfinite(v) for v in pars.values()) \
                    and pars["c"] < 0 and pars["m"] > 0 and pars["lambda_"] > 0:
                # keyed on the case: far-away user start, or data that are not a float sample of the family itself
                extra = {"input_class": NEGATIVE_C, "start": "far-away user start or data of another family"}
            out["bad"].append(("parameters_finite_admissible", f"{tag}: start {st}, fitted {pars}: {why}", extra))
            continue
        if name == "LogNormalNormFit":
            # what CAN be demanded of this family's fit (documented: "fitting via the moments of the data"): the free
            # parameters are the sample mean and the ddof-1 standard deviation, a fixed one keeps its value
            doc = {"mu_norm": float(np.mean(data)), "sigma_norm": float(np.std(data, ddof=1))}
            for p_ in ("mu_norm", "sigma_norm"):
                want = st["f_" + p_] if (st and "f_" + p_ in st) else doc[p_]
                if not rel_close(pars[p_], want, 1e-12):
                    out["bad"].append(("moment_estimator", f"{tag}: {p_} = {pars[p_]!r}, documented estimate {want!r} "
                                                            f"(fixed: {sorted(st) if st else []})", {}))
        ll_fit = loglik(d, data)
        ll_truth = loglik(make(name, tr), data) if tr is not None else -math.inf
        out["ll"][tag] = {"start": ll_start, "fit": ll_fit, "truth": ll_truth}
        if not math.isfinite(ll_fit):
            out["bad"].append(("parameters_finite_admissible",
                               f"{tag}: fitted {pars} give log-likelihood {ll_fit} (density vanishes on the data)", {}))
            continue
        tol = tol_of(ll_fit, ll_truth)
        unb = {"input_class": UNBOUNDED} if unbounded_class(case, pars) else None
        if not ll_fit >= ll_start - tol:
            out["bad"].append(("ll_fit_ge_ll_start",
                               f"{tag}: LL(fit)={ll_fit!r} < LL(start)={ll_start!r} - {tol:.3g}; start={st}, fit={pars}",
                               unb or {"ll_gap": gap_class(ll_start - ll_fit)}))
        if not full and own and not ll_fit >= ll_truth - tol:
            out["observed_below_truth"] = True  # far-away user start: counted, no verdict
        if full and case["start_kind"] != "argmax" and not ll_fit >= ll_truth - tol:
            out["bad"].append(("ll_fit_ge_ll_truth",
                               f"{tag}: LL(fit)={ll_fit!r} < LL(truth)={ll_truth!r} - {tol:.3g} "
                               f"(loses {ll_truth - ll_fit:.4g}); truth={tr}, fit={pars}, "
                               f"data median {float(np.median(data)):.3g} min {float(data.min()):.3g}",
                               unb or {"ll_gap": gap_class(ll_truth - ll_fit)}))
    if scalable and "x" in fitted and "cx" in fitted and case["start_kind"] != "argmax":
        back = scale_params(name, fitted["cx"], 1.0 / c)
        dev = {}
        for p, kind in KINDS[name].items():
            a, b = fitted["x"][p], back[p]
            if kind == "shape":
                dev[p] = (abs(b - a) / abs(a), RT_SHAPE)
            elif kind in ("scale", "invscale"):
                dev[p] = (abs(b - a) / abs(a), RT_SCALE)
            elif kind == "loc":
                dev[p] = (abs(b - a) / max(abs(a), med), RT_SCALE)
            elif kind == "logscale":
                dev[p] = (abs(b - a) / max(abs(a), 1.0), RT_SCALE)
        out["equiv_dev"] = {p: e for p, (e, _) in dev.items()}
        if any(e > lim for e, lim in dev.values()):
            # The parameters differ by more than the nominal tolerance.  By the scale law (Lean: ll_scale_law)
            #   LL(x; fit(x)) - LL(x; fit(c*x) scaled back) = err(c*x) - err(x),
            # err(.) = how far the optimiser stopped below the maximum on its own data.  "Within optimiser tolerance"
            # is therefore checked against the MEASURED optimiser error of the two fits (restarting the real fit from
            # its own result until the likelihood stops improving), not against a guessed constant.
            ll_a = out["ll"]["x"]["fit"] if "x" in out["ll"] else -math.inf
            ll_b = loglik(make(name, back), x)
            tol = tol_of(ll_a) if math.isfinite(ll_a) else 0.0
            gap = ll_a - ll_b
            out["equiv_ll_gap"] = gap
            unb = unbounded_class(case, fitted["x"], fitted["cx"])
            err_x = err_cx = 0.0
            if not abs(gap) <= tol and not unb and name not in CLOSED_FORM:
                err_x = polish_gain(name, fitted["x"], x)
                err_cx = polish_gain(name, fitted["cx"], c * x)
                out["optimiser_error"] = {"x": err_x, "cx": err_cx}
            if not abs(gap) <= tol + min(err_x + err_cx, OPT_ERR_CAP):
                worst = ", ".join(f"{p}: {e:.3g} (limit {lim:g})" for p, (e, lim) in dev.items() if e > lim)
                out["bad"].append(("scale_equivariant",
                                   f"c={c!r}: fit(x)={fitted['x']}, fit(c*x) scaled back={back}; relative deviation {worst}; "
                                   f"log-likelihoods on x differ by {gap:.4g} (> {tol:.3g} + measured optimiser error "
                                   f"{err_x:.3g} + {err_cx:.3g}, capped at {OPT_ERR_CAP})",
                                   {"input_class": UNBOUNDED} if unb else {"ll_gap": gap_class(gap)}))
            else:
                out["equiv_tier"] = "likelihood" if abs(gap) <= tol else "measured-optimiser-error"
        else:
            out["equiv_tier"] = "parameters"
    return out


def _pool_eval(case):
    os.environ.setdefault("OMP_NUM_THREADS", "1")
    try:
        return eval_case(case)
    except Exception as e:  # noqa: BLE001
        return {"bad": [], "error": f"{type(e).__name__}: {e}", "fits": {}, "ll": {}}


# --------------------------------------------------------------------------- model side: tables and run lines

def _foldr_sum(vals):
    acc = 0.0
    for v in reversed(vals):
        acc = float(v) + acc
    return acc


def _t(name, *args):
    *keys, val = args
    return "TABLE " + name + " " + " ".join(str(f2b(k)) for k in keys) + " " + str(f2b(val))


def _tab_vec(name, keys, vals):
    return [f"TABLE {name} {f2b(k)} {f2b(v)}" for k, v in zip(keys.tolist(), vals.tolist())]


def ll_lines(name, pars, x):
    """TABLE lines + RUN line asking the Lean model for sum(log pdf) of family `name` at `pars`"""
    from scipy import special as sc

    x = np.asarray(x, dtype=float)
    lines = []
    data = [str(len(x))] + [str(f2b(v)) for v in x.tolist()]
    f = lambda v: str(f2b(v))  # noqa: E731
    with np.errstate(all="ignore"):
        if name == "Weibull":
            a, b, g = (np.float64(pars[k]) for k in ("alpha", "beta", "gamma"))
            z = (x - g) / a
            lines += [_t("log", b, np.log(b)), _t("log", a, np.log(a))]
            lines += _tab_vec("log", z, np.log(z))
            lines += [f"TABLE pow {f2b(zz)} {f2b(b)} {f2b(p)}" for zz, p in zip(z.tolist(), np.power(z, b).tolist())]
            run = ["RUN", "ll", "weibull", f(a), f(b), f(g)]
        elif name == "ExpWeibull":
            a, b, d = (np.float64(pars[k]) for k in ("alpha", "beta", "delta"))
            z = x / a
            p = np.power(z, b)
            e = -np.expm1(-p)
            lines += [_t("log", d, np.log(d)), _t("log", b, np.log(b)), _t("log", a, np.log(a))]
            lines += _tab_vec("log", z, np.log(z))
            lines += [f"TABLE pow {f2b(zz)} {f2b(b)} {f2b(pp)}" for zz, pp in zip(z.tolist(), p.tolist())]
            lines += _tab_vec("expm1", -p, -e)
            lines += _tab_vec("log", e, np.log(e))
            run = ["RUN", "ll", "expweibull", f(a), f(b), f(d)]
        elif name == "Normal":
            mu, sg = np.float64(pars["mu"]), np.float64(pars["sigma"])
            lines += [_t("log", sg, np.log(sg))]
            run = ["RUN", "ll", "normal", f(L2PI), f(mu), f(sg)]
        elif name in ("LogNormal", "LogNormalNormFit"):
            if name == "LogNormalNormFit":
                d0 = make(name, pars)
                mu, sg = np.float64(d0.mu), np.float64(d0.sigma)
            else:
                mu, sg = np.float64(pars["mu"]), np.float64(pars["sigma"])
            lines += [_t("log", sg, np.log(sg))]
            lines += _tab_vec("log", x, np.log(x))
            run = ["RUN", "ll", "lognormal", f(L2PI), f(mu), f(sg)]
        elif name == "GenGamma":
            m, c, lam = (np.float64(pars[k]) for k in ("m", "c", "lambda_"))
            z = lam * x
            lines += [_t("log", lam, np.log(lam)), _t("log", c, np.log(c)), _t("lgamma", m, sc.gammaln(m))]
            lines += _tab_vec("log", z, np.log(z))
            lines += [f"TABLE pow {f2b(zz)} {f2b(c)} {f2b(pp)}" for zz, pp in zip(z.tolist(), np.power(z, c).tolist())]
            run = ["RUN", "ll", "gengamma", f(m), f(c), f(lam)]
        elif name == "VonMises":
            k, mu = np.float64(pars["kappa"]), np.float64(pars["mu"])
            z = x - mu
            lines += [_t("logi0", k, np.log(sc.i0e(k)) + k)]
            lines += _tab_vec("cos", z, np.cos(z))
            run = ["RUN", "ll", "vonmises", f(L2PI), f(k), f(mu)]
        elif name == "ScipyGamma":
            a, l, s = (np.float64(pars[k]) for k in ("a", "loc", "scale"))
            z = (x - l) / s
            lines += [_t("lgamma", a, sc.gammaln(a)), _t("log", s, np.log(s))]
            lines += _tab_vec("log", z, np.log(z))
            run = ["RUN", "ll", "gamma", f(a), f(l), f(s)]
        elif name == "ScipyGumbel":
            l, s = (np.float64(pars[k]) for k in ("loc", "scale"))
            z = (x - l) / s
            lines += [_t("log", s, np.log(s))]
            lines += _tab_vec("exp", -z, np.exp(-z))
            run = ["RUN", "ll", "gumbel", f(l), f(s)]
        else:
            raise KeyError(name)
    return ["CLEAR"] + lines + [" ".join(run + data)]


def fit_lines(name, x):
    """closed-form estimators of the Lean model: TABLE leaves at the arguments the model computes"""
    x = np.asarray(x, dtype=float)
    xl = x.tolist()
    n = float(len(xl))
    data = [str(len(xl))] + [str(f2b(v)) for v in xl]
    lines = ["CLEAR"]
    with np.errstate(all="ignore"):
        if name == "Normal":
            run = ["RUN", "fit", "normal"]
        elif name == "LogNormal":
            lnd = np.log(x)
            lines += _tab_vec("log", x, lnd)
            m = _foldr_sum(lnd.tolist()) / n
            e = float(np.exp(np.float64(m)))
            lines += [_t("exp", m, e), _t("log", e, float(np.log(np.float64(e))))]
            run = ["RUN", "fit", "lognormal"]
        elif name == "LogNormalNormFit":
            m = _foldr_sum(xl) / n
            s = math.sqrt(_foldr_sum([(v - m) * (v - m) for v in xl]) / (n - 1.0))
            q = 1.0 + s * s / (m * m)
            a = m / math.sqrt(q)
            lines += [_t("log", a, float(np.log(np.float64(a)))), _t("log", q, float(np.log(np.float64(q))))]
            run = ["RUN", "fit", "normfit"]
        else:
            raise KeyError(name)
    return lines + [" ".join(run + data)]


def fit_lines_fixed(name, which, val, x):
    """closed forms with one parameter fixed (Model/Likelihood.lean normalFitFixedLoc / …Scale, lognormalFitFixedMu /
    …Sigma): TABLE leaves at the arguments the model computes, evaluated with the calls the code path uses"""
    x = np.asarray(x, dtype=float)
    xl = x.tolist()
    n = float(len(xl))
    data = [str(len(xl))] + [str(f2b(v)) for v in xl]
    lines = ["CLEAR"]
    with np.errstate(all="ignore"):
        if name == "Normal":
            run = ["RUN", "fit", "normal_floc", str(f2b(val))] if which == "mu" else ["RUN", "fit", "normal_fscale"]
        else:
            lnd = np.log(x)
            lines += _tab_vec("log", x, lnd)
            if which == "mu":
                e = math.exp(val)  # virocon: fscale = math.exp(self.f_mu); scipy then takes np.log(scale)
                lines += [_t("exp", val, e), _t("log", e, float(np.log(np.float64(e))))]
                run = ["RUN", "fit", "lognormal_fmu", str(f2b(val))]
            else:
                m = _foldr_sum(lnd.tolist()) / n
                e = float(np.exp(np.float64(m)))
                lines += [_t("exp", m, e), _t("log", e, float(np.log(np.float64(e))))]
                run = ["RUN", "fit", "lognormal_fsigma"]
    return lines + [" ".join(run + data)]


def correspond_fixed_closed_forms(ck, rng, reps, ns):
    """(B') Normal / LogNormal with ONE parameter fixed (scipy's floc / fscale / f0 branches): real fit vs the Lean closed
    form of the free parameter (theorems normal_fixed_loc_is_argmax & co. are about these models)"""
    jobs, keep = [], []
    for name in ("Normal", "LogNormal"):
        for which in ("mu", "sigma"):
            for _ in range(reps):
                truth = {k: float(v) for k, v in draw_truth(name, rng).items()}
                n = int(rng.choice(ns))
                seed = int(rng.integers(0, 2 ** 31))
                x = sample(name, truth, n, seed)
                val = float(truth[which] * (1.0 if rng.integers(0, 2) else math.exp(rng.uniform(-0.3, 0.3))))
                if which == "mu" and rng.integers(0, 4) == 0:
                    val = 0.0
                case = {"part": "B", "family": name, "truth": truth, "n": n, "seed": seed, "fixed": which, "value": val,
                        "data_head": x[:5].tolist()}
                try:
                    d = fit_once(name, {"f_" + which: val}, x)
                except Exception as e:  # noqa: BLE001
                    ck.case(case, nontrivial=True, sample=False)
                    ck.fail({"entry": entry(name), "predicate": "fit_completes"}, case, f"f_{which}={val!r}: {type(e).__name__}: {e}")
                    continue
                jobs.append(fit_lines_fixed(name, which, val, x))
                keep.append((case, name, which, val, d, x))
    answers = run_model(ck, jobs)
    for (case, name, which, val, d, x), a in zip(keep, answers):
        ck.case(case, nontrivial=True, sample=False)
        ck.count("B_fixed=" + name + ":f_" + which)
        free = "sigma" if which == "mu" else "mu"
        if a[0] != "OK":
            ck.diverge("closed-form-fit-fixed-" + name, case, "model: " + " ".join(a))
            continue
        mv = b2f(a[1])
        impl = float(getattr(d, free))
        kept = float(getattr(d, which))
        worst = abs(impl - mv) / max(abs(impl), abs(mv), 1.0 if free == "mu" else 1e-300)
        ck.extra["max_rel_closed_form_diff"] = max(ck.extra.get("max_rel_closed_form_diff", 0.0), worst)
        if kept != val:
            ck.fail({"entry": entry(name), "predicate": "parameters_finite_admissible"}, case,
                    f"f_{which}={val!r} but {which}={kept!r} after the fit")
        elif worst > 1e-12:
            detail = f"f_{which}={val!r}: fit gives {free}={impl!r}, Lean closed form {mv!r} (relative {worst:.3g})"
            alt = make(name, {which: val, free: mv})
            ll_i, ll_m = loglik(d, x), loglik(alt, x)
            if ll_i < ll_m - tol_of(ll_i, ll_m):
                ck.fail({"entry": entry(name), "predicate": "ll_fit_ge_ll_start"}, case,
                        detail + f"; LL(fit)={ll_i!r} < LL(start at the constrained closed-form maximiser)={ll_m!r}")
            else:
                ck.diverge("closed-form-fit-fixed-" + name, case, detail)


def run_model(ck, jobs):
    """jobs: list of line lists, each ending in exactly one RUN line; returns the answers (token lists)"""
    flat = [l for job in jobs for l in job]
    if not flat:
        return []
    out = ck.driver.run(flat)
    if len(out) != len(jobs):
        raise RuntimeError(f"driver answered {len(out)} lines for {len(jobs)} RUN lines")
    return [o.split() for o in out]


def rel_close(a, b, rtol):
    return abs(a - b) <= rtol * max(abs(a), abs(b), 1e-300)


# --------------------------------------------------------------------------- processing

def closed_form_argmax(ck, case):
    """start values at the Lean model's closed-form maximiser (Normal / LogNormal), for x and c*x"""
    name = case["family"]
    x = sample(name, case["truth"], case["n"], case["seed"])
    med = float(np.median(np.abs(x)))
    if not (DATA_SCALE[0] <= med <= DATA_SCALE[1]):
        return None
    c = choose_c(med, np.random.default_rng(case["aux_seed"]))
    ans = run_model(ck, [fit_lines(name, x), fit_lines(name, c * x)])
    res = {}
    for tag, a in zip(("x", "cx"), ans):
        if a[0] == "OK":
            p1, p2 = b2f(a[1]), b2f(a[2])
            res[tag] = {"mu": p1, "sigma": p2}
    return res


def register(ck, case, res):
    name = case["family"]
    nontrivial = "skip" not in res and bool(res.get("fits"))
    ck.case(case, nontrivial=nontrivial, sample=(ck.evaluations % 23 == 0))
    ck.count("C_family=" + name)
    ck.count("C_start=" + case["start_kind"])
    if case.get("regime"):
        ck.count("C_regime=" + case["regime"])
    ck.count("C_call=" + CALLS[case.get("call", 0)])
    ck.count("C_data=" + (case.get("data_family") and case["data_family"] != name and "other-family" or "own-family") + ":"
             + (case.get("data_form") or "float") + ":" + ("int64 ndarray" if case.get("data_form") == "whole" else
                                                          case.get("container") or "float ndarray"))
    if case["start_kind"] == "fixed":
        ck.count("C_fixed_family=" + name)
    if res.get("observed_below_truth"):
        ck.count("C_observed_no_verdict:far_start_below_truth")
    if res.get("skip") == "user start inadmissible for these data":
        ck.count("C_skipped_inadmissible_user_start")
        return
    ck.count("C_n=" + str(case["n"]))
    if "error" in res:
        raise RuntimeError("harness error in case " + repr(case) + ": " + res["error"])
    if "skip" in res:
        ck.count("C_skipped_data_scale")
        return
    if "equiv_tier" in res:
        ck.count("C_equivariance_tier=" + res["equiv_tier"])
    if "optimiser_error" in res:
        d = ck.extra.setdefault("max_measured_optimiser_error", {})
        d[name] = max(d.get(name, 0.0), res["optimiser_error"]["x"], res["optimiser_error"]["cx"])
    conc = case.get("regime") == "concentrated" and name == "Weibull"
    if conc:
        ck.extra["weibull_concentrated_cases"] = ck.extra.get("weibull_concentrated_cases", 0) + 1
        if res["bad"]:
            ck.extra.setdefault("_weibull_concentrated_failures", []).append((case, res["bad"][0][1]))
    for pred, detail, extra in res["bad"]:
        sig = {"entry": entry(name), "predicate": pred}
        if name not in CLOSED_FORM and name != "VonMises":
            # iterative fits: the signature also names the start values and the magnitude class / input class
            sig["start"] = case["start_kind"] if case["start_kind"] in ("user", "fixed", "user_far") else "default"
            sig.update(extra)
            if conc:
                # known input class (see known_findings/C12.txt): rare divergence of the default-start fit on concentrated
                # samples; the class is keyed on the INPUT, and a run in which it fails more than rarely is reported by the
                # rate guard in main()
                sig.pop("ll_gap", None)
                sig["input_class"] = CONCENTRATED
        ck.fail(sig, case, detail)
        ck.count("C_oracle_failure=" + name + ":" + pred)


def correspond_ll(ck, items):
    """items: (case, family, params, data, label).  Lean LL vs np.sum(np.log(pdf))."""
    jobs, keep = [], []
    for case, name, pars, x, label in items:
        d = make(name, pars)
        with np.errstate(all="ignore"):
            lp = np.log(np.asarray(d.pdf(x), dtype=float))
        if not np.all(np.isfinite(lp)):
            ck.count("A_skipped_nonfinite")
            continue
        jobs.append(ll_lines(name, pars, x))
        keep.append((case, name, pars, label, float(np.sum(lp)), float(np.sum(np.abs(lp))), math.fsum(lp.tolist())))
    answers = run_model(ck, jobs)
    for (case, name, pars, label, impl, mag, exact), a in zip(keep, answers):
        ck.count("A_ll_family=" + name)
        ck.hyp_checked += 1
        c2 = dict(case, part="A", at=label, params={k: float(v) for k, v in pars.items()})
        if a[0] != "OK":
            ck.diverge("loglik-" + name, c2, "model: " + " ".join(a))
            continue
        mv = b2f(a[1])
        lim = 1e-9 * (1.0 + mag)
        if abs(mv - impl) > lim or abs(mv - exact) > lim:
            ck.diverge("loglik-" + name, c2,
                       f"sum(log pdf): implementation {impl!r} (fsum {exact!r}), Lean closed form {mv!r}, "
                       f"|diff| {abs(mv - impl):.3g} > {lim:.3g}")
        else:
            ck.extra["max_rel_ll_diff"] = max(ck.extra.get("max_rel_ll_diff", 0.0), abs(mv - impl) / (1.0 + mag))


def correspond_closed_forms(ck, rng, reps, ns):
    """(B) closed-form estimators: real fit vs Lean model"""
    jobs, keep = [], []
    for name in ("Normal", "LogNormal", "LogNormalNormFit"):
        for _ in range(reps):
            truth = {k: float(v) for k, v in draw_truth(name, rng).items()}
            n = int(rng.choice(ns))
            seed = int(rng.integers(0, 2 ** 31))
            x = sample(name, truth, n, seed)
            mult = float(math.exp(rng.uniform(-1.5, 1.5))) if rng.integers(0, 3) == 0 else 1.0
            x = x * mult
            case = {"part": "B", "family": name, "truth": truth, "n": n, "seed": seed, "mult": mult,
                    "data_head": x[:5].tolist()}
            try:
                d = fit_once(name, None, x)
            except Exception as e:  # noqa: BLE001
                ck.case(case, nontrivial=True, sample=False)
                ck.fail({"entry": entry(name), "predicate": "fit_completes"}, case, f"{type(e).__name__}: {e}")
                continue
            jobs.append(fit_lines(name, x))
            keep.append((case, name, d, x))
    answers = run_model(ck, jobs)
    for (case, name, d, x), a in zip(keep, answers):
        ck.case(case, nontrivial=True, sample=False)
        ck.count("B_family=" + name)
        if a[0] != "OK":
            ck.diverge("closed-form-fit-" + name, case, "model: " + " ".join(a))
            continue
        mv = [b2f(t) for t in a[1:]]
        if name == "LogNormalNormFit":
            impl = [float(d.mu_norm), float(d.sigma_norm), float(d.mu), float(d.sigma)]
        else:
            impl = [float(d.mu), float(d.sigma)]
        worst = max(abs(i - m) / max(abs(i), abs(m), 1.0 if k in (0, 2) else 1e-300)
                    for k, (i, m) in enumerate(zip(impl, mv)))
        ck.extra["max_rel_closed_form_diff"] = max(ck.extra.get("max_rel_closed_form_diff", 0.0), worst)
        if worst > 1e-12:
            # which side is right?  oracle: the real fit must not lose likelihood against the model's values
            detail = f"fit {impl} vs Lean closed form {mv} (relative {worst:.3g})"
            if name in ("Normal", "LogNormal"):
                alt = make(name, {"mu": mv[0], "sigma": mv[1]})
                ll_i, ll_m = loglik(d, x), loglik(alt, x)
                if ll_i < ll_m - tol_of(ll_i, ll_m):
                    ck.fail({"entry": entry(name), "predicate": "ll_fit_ge_ll_start"}, case,
                            detail + f"; LL(fit)={ll_i!r} < LL(start at the closed-form maximiser)={ll_m!r}")
                    continue
            ck.diverge("closed-form-fit-" + name, case, detail)


def run_corpus(ck):
    """minimised witnesses of past failures run first (regression guard for the repaired ones)"""
    import glob
    import json

    cdir = os.path.join(os.path.dirname(os.path.dirname(os.path.abspath(__file__))), "corpus", "C12")
    for path in sorted(glob.glob(os.path.join(cdir, "*.json"))):
        case = json.load(open(path))["case"]
        am = closed_form_argmax(ck, case) if case["start_kind"] == "argmax" else None
        res = eval_case(case, argmax_start=am)
        ck.count("corpus_cases")
        register(ck, case, res)


def main(ck):
    rng = np.random.default_rng(ck.seed)
    thorough = ck.tier == "thorough"
    ck.rule = ("(C) 9 families (7 shipped + gamma / shape-less Gumbel ScipyDistribution subclasses) x parameter draws from the regular region x n x {default, user(, arg-max)} start values, "
               "each fitted on the sample and on c*sample (median |data| and c*median within [0.05, 20]); non-trivial = "
               "the fit ran and produced parameters; plus: a non-empty proper subset of parameters fixed at the generating "
               "values (all 9 families, scale equivariance included); concentrated samples; the same fits requested as "
               "fit(x, 'mle') / method='MLE' / 'Mle' / with non-None weights, data as a Python list; far-away user starts "
               "(factor 1.6..3.3) and samples of OTHER families / rounded (ties) / whole numbers as int64 ndarray, where only "
               "fit_completes, ll_fit_ge_ll_start and parameters_finite_admissible get a verdict; (A) Lean log-likelihood vs "
               "sum(log pdf) at generating and fitted "
               "parameters; (B) closed-form estimators vs the real fit, also with one parameter fixed (floc / fscale / f0 "
               "branches of norm.fit and lognorm.fit); distinct by SHA1 of the case")
    ck.assumptions = [
        "data scale = median |data|; samples whose median leaves [0.05, 20] are skipped (counted)",
        "user start values = generating values perturbed by up to ~40 % (locations moved into the support); far-away "
        "user starts (factor 1.6..3.3): whether the search still reaches the generating parameters' likelihood is counted, "
        "no verdict; data of another family with a user start that has no density on them: skipped (counted)",
        "scale_equivariant accepts parameter agreement (1e-3 shapes / 1e-4 scales); otherwise the log-likelihood gap "
        "between fit(x) and the rescaled fit(c*x) on x must be within 1e-6 (1+|LL|) + the measured optimiser error of the "
        "two fits (gain of restarting the real fit from its own result, accepted up to 0.5 log-likelihood units): by "
        "ll_scale_law that gap IS err(c*x) - err(x)",
        "von Mises has its scale fixed at 1 (fscale=1): no scale equivariance is claimed or checked",
        "the Lean log-likelihoods are evaluated at Float with numpy/scipy values of log, exp, expm1, pow, gammaln, i0e, cos as TABLE leaves",
    ]
    ck.partial = {
        "ll_fit_ge_ll_start / ll_fit_ge_ll_truth for Weibull, ExpWeibull, GenGamma, ScipyDistribution": "observed: scipy's Nelder-Mead (rv_continuous.fit) is not modelled",
        "scale equivariance of the iterative fits": "observed; the theorems say what the exact maximiser satisfies",
        "von Mises": "scipy's analytic fit (circular mean, Bessel-ratio root) observed against start and truth",
        "finite and admissible parameters of the iterative fits": "observed",
        "LogNormalNormFit": "its fit is the documented moment estimator (Lean: normfit_is_moment_estimator), not a maximum of "
                            "the likelihood: ll_fit_ge_ll_truth is a known finding, ll_fit_ge_ll_start is vacuous from the "
                            "default start (mu_norm = 0 has no density); what is checked live is moment_estimator (mean, "
                            "ddof-1 std, fixed values kept) and correspondence (B) with the Lean closed form",
        "families": "9 families (7 shipped, gamma and Gumbel ScipyDistribution subclasses). A 4-parameter beta subclass "
                    "(bounded support with free end points) is NOT covered: the fixed default start (loc 0, scale 1) has no "
                    "density for data beyond [0, 1], and inside [0, 1] the likelihood is unbounded at the end points",
        "known-finding class of the 3-parameter Weibull": "keyed on the case (generating shape < 1.3, location free) and "
                                                          "then on the fitted shape < 1; not on the fitted output alone",
    }
    run_corpus(ck)
    n_draws = 150 if thorough else 16
    ns = [100, 1000, 5000] if thorough else [100, 1000]
    cases = list(gen_cases(rng, n_draws, ns))
    cases += list(gen_fixed_cases(np.random.default_rng([ck.seed, 12]), 40 if thorough else 6, ns))
    cases += list(gen_concentrated_cases(np.random.default_rng([ck.seed, 13]), 30 if thorough else 5, ns))
    cases += list(gen_variant_cases(np.random.default_rng([ck.seed, 14]), 24 if thorough else 4, ns))
    cases += list(gen_foreign_cases(np.random.default_rng([ck.seed, 15]), 24 if thorough else 3, ns))
    plain = [c for c in cases if c["start_kind"] != "argmax"]
    special = [c for c in cases if c["start_kind"] == "argmax"]
    if thorough:
        import multiprocessing as mp

        with mp.get_context("fork").Pool(8) as pool:
            results = pool.map(_pool_eval, plain, chunksize=4)
    else:
        results = [eval_case(c) for c in plain]
    ll_items = []
    for k, (case, res) in enumerate(zip(plain, results)):
        register(ck, case, res)
        if "skip" in res or "x" not in res.get("fits", {}):
            continue
        # (A) likelihood correspondence at the generating and the fitted parameters
        if case["n"] <= 1000 and (not thorough or k % 3 == 0) and case.get("data_family") in (None, case["family"]) \
                and (case.get("data_form") or "float") == "float":
            x = sample(case["family"], case["truth"], case["n"], case["seed"])
            ll_items.append((case, case["family"], case["truth"], x, "truth"))
            if admissible(case["family"], res["fits"]["x"])[0]:  # (else reported by the oracle; log c etc. undefined)
                ll_items.append((case, case["family"], res["fits"]["x"], x, "fit"))
    for case in special:
        am = closed_form_argmax(ck, case)
        res = eval_case(case, argmax_start=am) if am else {"skip": "data scale", "bad": [], "fits": {}}
        register(ck, case, res)
    # rate guard of the known "concentrated Weibull sample" class: the unchanged code fails on about 1.3 % of such cases
    # (2 of 150 measured); more than max(2, 8 %) failing cases in one run (probability < 3e-4 under that rate) is not that
    # finding but a regression
    fails = ck.extra.pop("_weibull_concentrated_failures", [])
    n_conc = ck.extra.get("weibull_concentrated_cases", 0)
    ck.extra["weibull_concentrated_failures"] = len(fails)
    if len(fails) > max(2, math.ceil(0.08 * n_conc)):
        ck.fail({"entry": entry("Weibull"), "predicate": "concentrated_sample_failure_rate"}, fails[0][0],
                f"{len(fails)} of {n_conc} fits of concentrated 3-parameter Weibull samples violate a clause (first: {fails[0][1][:300]})")
    for i in range(0, len(ll_items), 40):
        correspond_ll(ck, ll_items[i:i + 40])
    # small samples through the same models (n = 1, 2, 7)
    small = []
    for name in KINDS:
        for n in (1, 2, 7):
            truth = {k: float(v) for k, v in draw_truth(name, rng).items()}
            seed = int(rng.integers(0, 2 ** 31))
            case = {"part": "A", "family": name, "truth": truth, "n": n, "seed": seed}
            ck.case(case, nontrivial=True, sample=False)
            small.append((case, name, truth, sample(name, truth, n, seed), "truth"))
    correspond_ll(ck, small)
    correspond_closed_forms(ck, rng, 60 if thorough else 12, [2, 3, 10, 100, 1000] + ([5000] if thorough else []))
    correspond_fixed_closed_forms(ck, np.random.default_rng([ck.seed, 16]), 30 if thorough else 6,
                                  [2, 3, 10, 100, 1000] + ([5000] if thorough else []))


def replay(ck, payload):
    case = payload["case"]
    if case.get("part") == "C":
        am = closed_form_argmax(ck, case) if case["start_kind"] == "argmax" else None
        res = eval_case(case, argmax_start=am)
        for pred, detail, _ in res["bad"]:
            print("oracle:", pred, detail)
        print("fits:", res.get("fits"), "log-likelihoods:", res.get("ll"))
        return not res["bad"]
    if case.get("part") == "B" and "fixed" in case:
        name, which, val = case["family"], case["fixed"], case["value"]
        x = sample(name, case["truth"], case["n"], case["seed"])
        d = fit_once(name, {"f_" + which: val}, x)
        ans = run_model(ck, [fit_lines_fixed(name, which, val, x)])[0]
        free = "sigma" if which == "mu" else "mu"
        print("implementation:", {free: float(getattr(d, free)), which: float(getattr(d, which))}, "Lean closed form:",
              b2f(ans[1]) if ans[0] == "OK" else ans)
        return ans[0] == "OK" and float(getattr(d, which)) == val and (
            rel_close(float(getattr(d, free)), b2f(ans[1]), 1e-12) or abs(float(getattr(d, free)) - b2f(ans[1])) <= 1e-12)
    if case.get("part") == "B":
        name = case["family"]
        x = sample(name, case["truth"], case["n"], case["seed"]) * case.get("mult", 1.0)
        d = fit_once(name, None, x)
        ans = run_model(ck, [fit_lines(name, x)])[0]
        mv = [b2f(t) for t in ans[1:]] if ans[0] == "OK" else ans
        impl = ([float(d.mu_norm), float(d.sigma_norm)] if name == "LogNormalNormFit" else []) + [float(d.mu), float(d.sigma)]
        print("implementation:", impl, "Lean closed form:", mv)
        return ans[0] == "OK" and all(rel_close(i, m, 1e-12) or abs(i - m) <= 1e-12 for i, m in zip(impl, mv))
    if case.get("part") == "A":
        x = sample(case["family"], case["truth"], case["n"], case["seed"])
        correspond_ll(ck, [(case, case["family"], case.get("params", case["truth"]), x, case.get("at", "truth"))])
    for op, c, d in ck.divergences:
        print("correspondence:", op, d)
    return not ck.divergences and not ck.failures
