"""
Shared by c03.py and c04.py: real 2-D virocon models, arbitrary point clouds, recording model.
Every sample is a deterministic function of the (JSON) case, so a replay file only needs the case.
"""
import numpy as np

MODEL_NAMES = ["hs_tz_weibull", "hs_tz_expweib", "hs_u_weibull2", "indep_wbl_logn"]
CLOUD_KINDS = ["ties", "heavy", "pareto", "lattice", "dupes", "mixture", "zeros", "corr_normal", "intcounts"]


def _power3(a, b, c):
    def f(x, a=a, b=b, c=c):
        return a + b * x**c
    return f


def _exp3(a, b, c):
    def f(x, a=a, b=b, c=c):
        return a + b * np.exp(c * x)
    return f


def _lnsquare2(a, b):
    def f(x, a=a, b=b):
        return np.log(a + b * np.sqrt(x / 9.81))
    return f


def _asymdecrease3(a, b, c):
    def f(x, a=a, b=b, c=c):
        return a + b / (1 + c * x)
    return f


def build_model(name, pseed=0, recording=False):
    """real virocon GlobalHierarchicalModel; `pseed` perturbs the published parameters"""
    import virocon
    from virocon import (
        DependenceFunction,
        ExponentiatedWeibullDistribution,
        LogNormalDistribution,
        WeibullDistribution,
    )

    r = np.random.default_rng(1000 + pseed)
    j = (lambda v, s=0.15: float(v * (1 + s * r.uniform(-1, 1)))) if pseed else (lambda v, s=0.0: float(v))
    b3 = [(0, None), (0, None), (None, None)]
    if name == "hs_tz_weibull":  # Vanem & Bitner-Gregersen (2012), DNVGL structure
        d0 = {"distribution": WeibullDistribution(alpha=j(2.776), beta=j(1.471), gamma=j(0.8888))}
        d1 = {
            "distribution": LogNormalDistribution(),
            "conditional_on": 0,
            "parameters": {
                "mu": DependenceFunction(_power3(j(0.1), j(1.489), j(0.1901)), b3),
                "sigma": DependenceFunction(_exp3(j(0.04), j(0.1748), j(-0.2243)), b3),
            },
        }
    elif name == "hs_tz_expweib":  # OMAE2020 Hs-Tz structure
        d0 = {"distribution": ExponentiatedWeibullDistribution(alpha=j(0.207), beta=j(0.684), delta=j(7.79))}
        d1 = {
            "distribution": LogNormalDistribution(),
            "conditional_on": 0,
            "parameters": {
                "mu": DependenceFunction(_lnsquare2(j(3.62), j(5.77))),
                "sigma": DependenceFunction(_asymdecrease3(0.0, j(0.324), j(0.404))),
            },
        }
    elif name == "hs_u_weibull2":  # DNVGL Hs-U structure: Weibull, conditional Weibull
        d0 = {"distribution": WeibullDistribution(alpha=j(2.0), beta=j(1.4), gamma=j(0.4))}
        d1 = {
            "distribution": WeibullDistribution(),
            "conditional_on": 0,
            "parameters": {
                "alpha": DependenceFunction(_power3(j(1.8), j(2.9), j(0.9)), b3),
                "beta": DependenceFunction(_power3(j(2.0), j(0.135), j(1.0)), b3),
                "gamma": DependenceFunction(_power3(0.0, 0.0, 1.0), b3),
            },
        }
    elif name == "indep_wbl_logn":
        d0 = {"distribution": WeibullDistribution(alpha=j(1.5), beta=j(0.9), gamma=0.0)}
        d1 = {"distribution": LogNormalDistribution(mu=j(0.8), sigma=j(0.6))}
    else:
        raise ValueError(name)
    if not recording:
        return virocon.GlobalHierarchicalModel([d0, d1])

    Base = virocon.GlobalHierarchicalModel

    class GlobalHierarchicalModel(Base):  # keeps type(model).__name__
        """records what the contour classes ask of the model"""

        def __init__(self, *a, **k):
            super().__init__(*a, **k)
            self.rec_icdf = []
            self.rec_draw = []

        def marginal_icdf(self, p, dim, precision_factor=1):
            self._in_icdf = True
            try:
                v = super().marginal_icdf(p, dim, precision_factor)
            finally:
                self._in_icdf = False
            self.rec_icdf.append((float(p), int(dim), v))
            return v

        def draw_sample(self, n, *, random_state=None):
            s = super().draw_sample(n, random_state=random_state)
            if not getattr(self, "_in_icdf", False):  # marginal_icdf draws its own Monte-Carlo sample
                self.rec_draw.append((int(n), s))
            return s

    return GlobalHierarchicalModel([d0, d1])


class StubModel:
    """minimal 2-D 'model' for arbitrary point clouds: the contour classes only use n_dim,
    draw_sample and marginal_icdf."""

    n_dim = 2

    def __init__(self, sample=None, marginals=None):
        self._sample = sample
        self._marginals = marginals
        self.rec_icdf = []
        self.rec_draw = []

    def marginal_icdf(self, p, dim, precision_factor=1):
        if self._marginals is not None:
            v = np.float64(self._marginals[dim])
        else:
            v = np.quantile(self._sample[:, dim], p)
        self.rec_icdf.append((float(p), int(dim), v))
        return v

    def draw_sample(self, n, *, random_state=None):
        r = np.random.default_rng(random_state if random_state is not None else 12345)
        s = np.column_stack([r.weibull(1.5, n) * 2.0, r.lognormal(0.5, 0.5, n)])
        self.rec_draw.append((int(n), s))
        return s


def cloud(kind, n, sseed, nonneg=False):
    """arbitrary 2-D point clouds: ties, heavy tails, duplicates, zeros"""
    r = np.random.default_rng(50000 + sseed)
    scale = float(10 ** r.uniform(-2, 3))
    if kind == "ties":
        s = np.round(r.lognormal(0.5, 0.7, (n, 2)) * [1.0, 3.0], 1)
    elif kind == "heavy":
        s = r.standard_cauchy((n, 2)) * scale
        s[:, 1] += 0.5 * s[:, 0]
    elif kind == "pareto":
        s = np.column_stack([r.pareto(1.2, n), r.pareto(0.8, n) * scale])
    elif kind == "lattice":
        s = r.integers(0, 7, (n, 2)).astype(float) * float(r.choice([0.5, 1.0, 0.1]))
    elif kind == "dupes":
        k = int(r.integers(3, 12))
        base = r.normal(0, 1, (k, 2)) * scale
        s = base[r.integers(0, k, n)]
    elif kind == "mixture":
        s = r.normal(0, 1, (n, 2))
        m = r.uniform(size=n) < 0.03
        s[m] = s[m] * 1e4 + 1e3
    elif kind == "zeros":
        s = r.weibull(1.2, (n, 2)) * [2.0, 5.0]
        s[r.uniform(size=n) < 0.25, 1] = 0.0
        s[r.uniform(size=n) < 0.1, 0] = 0.0
    elif kind == "intcounts":
        # whole-number measurements handed over as an integer-dtype array (counts, centimetres, ...)
        s = np.column_stack([r.poisson(float(r.uniform(5, 400)), n), r.poisson(float(r.uniform(3, 60)), n)]).astype(np.int64)
        return np.ascontiguousarray(s)
    elif kind == "corr_normal":
        a = r.normal(0, 1, (n, 2))
        rho = float(r.uniform(-0.95, 0.95))
        s = np.column_stack([a[:, 0], rho * a[:, 0] + np.sqrt(1 - rho * rho) * a[:, 1]]) * scale + float(r.normal(0, 3))
    else:
        raise ValueError(kind)
    if nonneg:
        s = np.abs(s)
    return np.ascontiguousarray(s, dtype=float)


def model_sample(name, pseed, n, sseed):
    m = build_model(name, pseed)
    return np.ascontiguousarray(m.draw_sample(n, random_state=int(sseed)), dtype=float)
