"""
C13 - Exponentiated-Weibull least squares = weighted quantile regression, any weights.

Correspondence (model: lean/VirVerif/Model/EwLsq.lean)
  (A) direct calls of the staticmethods `_estimate_alpha_beta` / `_wlsq_error` with random
      (delta, x, p, w): the model runs at Float with np.log10 / np.log / np.power as TABLE
      leaves (phase 1: a_hat, b_hat, beta_hat; phase 2, with the power leaves at the model's own
      a_hat / beta_hat: alpha_hat and the x-space error) and at Rat (exact regression on the same
      leaf values).  numpy's pairwise np.sum differs from the model's fold, so real values are
      compared with rtol 1e-9 * condition number (computed from the exact moments).
  (B) whole `fit(x, 'lsq'|'wlsq', weights)`: the (x, p, w) that reach the estimator are
      recorded (wrapper installed inside the harness process) and compared with the model's
      `prepare` (p, x bit for bit, w to 2e-12), and (alpha, beta) with the model's `fitFixed`
      at the delta in force.
Oracle (on the implementation's own output of `fit`, independent arithmetic):
  minimiser      (alpha, beta) = exact weighted regression (integer arithmetic on the doubles of
                 x*, p*, general weights, normal equations with W = sum w) at the delta in force,
                 plotting positions (i-0.5)/n by rank among ALL observations, zero triples removed
  scale          weights * c (any c > 0) gives the same fit
  order          jointly shuffled data (+ array weights) gives the same fit
  free delta     (observed only) returned delta is a local minimiser of the reference x-space error
"""
import math
import warnings
from fractions import Fraction

import numpy as np

from core import f2b, b2f, fl

KW = ("linear", "quadratic", "cubic")
RTOL = 1e-9


def EW():
    from virocon.distributions import ExponentiatedWeibullDistribution

    return ExponentiatedWeibullDistribution


# --------------------------------------------------------------------------- exact reference


def _ints(vals):
    """doubles -> integers on a common power-of-two scale: (ints, k) with v = int / 2**k"""
    rs = [float(v).as_integer_ratio() for v in vals]
    k = max((d.bit_length() - 1 for _, d in rs), default=0)
    return [n << (k - (d.bit_length() - 1)) for n, d in rs], k


def exact_wls(ps, xs, ws):
    """
    Exact weighted least squares of xs on ps with weights ws (general weights, not assumed
    normalised): returns dict(a, b, cond) as Fractions / float, or None when degenerate.
    """
    P, kp = _ints(ps)
    X, kx = _ints(xs)
    Wt, kw = _ints(ws)
    W = sum(Wt)
    Sp = sum(w * p for w, p in zip(Wt, P))
    Sx = sum(w * x for w, x in zip(Wt, X))
    Spp = sum(w * p * p for w, p in zip(Wt, P))
    Spx = sum(w * p * x for w, p, x in zip(Wt, P, X))
    # den = W*Spp - Sp^2 (scale 2^(2kw+2kp)), num = W*Spx - Sp*Sx (scale 2^(2kw+kp+kx))
    den = W * Spp - Sp * Sp
    num = W * Spx - Sp * Sx
    if W == 0 or den == 0 or num == 0:
        return None
    b = Fraction(num, den) * Fraction(2 ** kp, 2 ** kx)
    a = (Fraction(Sx, 2 ** (kw + kx)) - b * Fraction(Sp, 2 ** (kw + kp))) / Fraction(W, 2 ** kw)
    c_den = float(Fraction(abs(W * Spp) + Sp * Sp, abs(den)))
    c_num = float(Fraction(abs(W * Spx) + abs(Sp * Sx), abs(num)))
    pbar = Fraction(Sp, W) / 2 ** kp
    xbar = Fraction(Sx, W) / 2 ** kx
    return {"a": a, "b": b, "cond": max(1.0, c_den, c_num),
            "amag": float(abs(xbar) + abs(b * pbar))}


def tolerances(ref, n):
    """(rtol for b and beta, atol for a) from the conditioning of the two differences"""
    rb = RTOL * ref["cond"] * max(1.0, n / 1000.0)
    return rb, rb * max(ref["amag"], 1e-300) + 1e-15


def star_of(delta, x, p):
    """the transform of the property text, evaluated here (numpy leaves)"""
    with np.errstate(all="ignore"):
        q = -np.log(1 - p ** (1 / delta))
        return np.log10(q), np.log10(x), q


def ref_prepare(data, weights):
    """reference (x sorted, p by rank among all n, w) as float arrays; array weights travel with
    their observation (ties ordered by weight - any order of equal pairs gives the same multiset)"""
    data = np.asarray(data, dtype=float)
    n = len(data)
    if weights is None or isinstance(weights, str):
        x = np.array(sorted(float(v) for v in data))
        if weights is None:
            w = np.ones(n)
        else:
            w = x ** (1 + KW.index(weights.lower()))
    else:
        pairs = sorted(zip((float(v) for v in data), (float(v) for v in weights)))
        x = np.array([a for a, _ in pairs])
        w = np.array([b for _, b in pairs])
    p = np.array([(2 * i + 1) / (2.0 * n) for i in range(n)])
    return x, p, w


def ref_fit(data, weights, delta):
    """reference minimiser: dict(alpha, beta, a, b, cond...) or None"""
    x, p, w = ref_prepare(data, weights)
    nz = x != 0
    ps, xs, _ = star_of(delta, x[nz], p[nz])
    if not (np.all(np.isfinite(ps)) and np.all(np.isfinite(xs))):
        return None
    r = exact_wls(ps, xs, w[nz])
    if r is None:
        return None
    r["alpha"] = 10.0 ** float(r["a"])
    r["beta"] = 1.0 / float(r["b"])
    r["n"] = int(nz.sum())
    return r


def ref_error(data, weights, delta):
    """reference x-space weighted quantile error at delta (float arithmetic, own formula)"""
    x, p, w = ref_prepare(data, weights)
    w = w / math.fsum(w)
    nz = x != 0
    x, p, w = x[nz], p[nz], w[nz]
    ps, xs, q = star_of(delta, x, p)
    if not (np.all(np.isfinite(ps)) and np.all(np.isfinite(xs))):
        return float("nan")
    W = math.fsum(w)
    pb = math.fsum(w * ps) / W
    xb = math.fsum(w * xs) / W
    b = math.fsum(w * (ps - pb) * (xs - xb)) / math.fsum(w * (ps - pb) ** 2)
    a = xb - b * pb
    xhat = 10.0 ** (a + b * ps)
    return math.fsum(w * (x - xhat) ** 2)


# --------------------------------------------------------------------------- driver lines


def leaf_tables(delta, x, p):
    """TABLE lines for the leaves of `_estimate_alpha_beta` on the non-zero triples, evaluated
    with the same numpy calls on the same arrays"""
    nz = np.nonzero(x)
    xn, pn = x[nz], p[nz]
    inv = 1 / delta
    with np.errstate(all="ignore"):
        lx = np.log10(xn)
        pw = pn ** inv
        lg = np.log(1 - pw)
        l10 = np.log10(-lg)
    lines = []
    invb = f2b(inv)
    for i in range(len(xn)):
        lines.append(f"TABLE log10 {f2b(xn[i])} {f2b(lx[i])}")
        lines.append(f"TABLE power {f2b(pn[i])} {invb} {f2b(pw[i])}")
        lines.append(f"TABLE log {f2b(1 - pw[i])} {f2b(lg[i])}")
        lines.append(f"TABLE log10 {f2b(-lg[i])} {f2b(l10[i])}")
    return lines, l10, lx, -lg


def spec_tokens(weights):
    if weights is None:
        return "none", []
    if isinstance(weights, str):
        return weights.lower(), []
    return "array", fl(weights)


def parse_ok(ans, n):
    t = ans.split()
    if t[0] != "OK":
        return {"err": " ".join(t[1:])}
    return {"vals": t[1:]}


def frac(tok):
    a, b = tok.split("/")
    return Fraction(int(a), int(b))


def close(u, v, rtol, atol=0.0):
    return abs(u - v) <= atol + rtol * max(abs(u), abs(v))


# --------------------------------------------------------------------------- (A) direct calls


def gen_direct(rng, count, nmax):
    for _ in range(count):
        n = int(round(10 ** rng.uniform(math.log10(3), math.log10(nmax))))
        x = np.sort(rng.weibull(float(rng.uniform(0.8, 3)), n) * float(10 ** rng.uniform(-1.5, 1.5)))
        mode = int(rng.integers(0, 4))
        if mode == 1:
            x = np.round(x, 1)
        if mode == 2 and n > 4:
            x[: int(rng.integers(1, max(2, n // 10)))] = 0.0
        if mode == 3:
            # arbitrary p (the theorems do not need plotting positions), unsorted x
            p = np.sort(rng.uniform(0.001, 0.999, n))
            x = rng.permutation(x)
        else:
            p = (np.arange(1, n + 1) - 0.5) / n
        w = rng.uniform(0.05, 2.0, n) * float(10 ** rng.uniform(-6, 6))
        if rng.integers(0, 3) == 0:
            w = w / np.sum(w)
        delta = float(rng.choice([1.0, float(rng.uniform(0.3, 3.0))]))
        yield {"part": "A", "delta": delta, "x": [float(v) for v in x], "p": [float(v) for v in p],
               "w": [float(v) for v in w]}


def direct_corpus():
    # 3 points, w = 1 (theorem wls_not_minimiser_if_unnormalised in log coordinates)
    yield {"part": "A", "delta": 1.0, "x": [1.0, 10.0, 1000.0], "p": [1 / 6, 0.5, 5 / 6], "w": [1.0, 1.0, 1.0]}
    yield {"part": "A", "delta": 2.0, "x": [0.0, 0.5, 0.0, 2.0, 3.5], "p": [0.1, 0.3, 0.5, 0.7, 0.9],
           "w": [5.0, 1.0, 7.0, 2.0, 3.0]}
    # single retained point: divisor = 0
    yield {"part": "A", "delta": 1.0, "x": [0.0, 2.0], "p": [0.25, 0.75], "w": [1.0, 1.0]}


def run_direct_impl(case):
    cls = EW()
    x, p, w = (np.array(case[k], dtype=float) for k in ("x", "p", "w"))
    out = {}
    with np.errstate(all="ignore"), warnings.catch_warnings():
        warnings.simplefilter("ignore")
        try:
            al, be = cls._estimate_alpha_beta(case["delta"], x, p, w)
            out["alpha"], out["beta"] = float(al), float(be)
        except Exception as e:  # noqa: BLE001
            out["err"] = type(e).__name__
        try:
            out["error"] = float(cls._wlsq_error(case["delta"], x, p, w))
        except Exception as e:  # noqa: BLE001
            out["error_err"] = type(e).__name__
    if "alpha" in out and not (math.isfinite(out["alpha"]) and math.isfinite(out["beta"])):
        out["err"] = "nonfinite"
    return out


def process_direct(ck, cases):
    if not cases:
        return
    lines, metas = [], []
    for case in cases:
        x, p, w = (np.array(case[k], dtype=float) for k in ("x", "p", "w"))
        tabs, ps, xs, q = leaf_tables(case["delta"], x, p)
        nz = np.nonzero(x)
        args = fl(p) + fl(x) + fl(w)
        lines += tabs
        lines.append(" ".join(["RUN", "c13est", str(f2b(case["delta"]))] + args))
        lines.append(" ".join(["RUN", "c13wlsq"] + fl(ps) + fl(xs) + fl(w[nz])))
        lines.append("CLEAR")
        metas.append((tabs, args, ps, xs, q, w[nz], x[nz]))
    ans = ck.driver.run(lines)
    # phase 2: power leaves at the model's own a_hat / beta_hat
    lines2, have2 = [], []
    for i, case in enumerate(cases):
        m1 = parse_ok(ans[2 * i], 3)
        if "err" in m1:
            have2.append(False)
            continue
        a_m, b_m, beta_m = (b2f(v) for v in m1["vals"][:3])
        tabs, args, ps, xs, q, wn, xn = metas[i]
        with np.errstate(all="ignore"):
            al_m = 10 ** np.float64(a_m)
            ib = 1 / np.float64(beta_m)
            pw = q ** ib
        lines2 += tabs
        lines2.append(f"TABLE power {f2b(10.0)} {f2b(a_m)} {f2b(al_m)}")
        ibb = f2b(ib)
        lines2 += [f"TABLE power {f2b(q[j])} {ibb} {f2b(pw[j])}" for j in range(len(q))]
        lines2.append(" ".join(["RUN", "c13err", str(f2b(case["delta"]))] + args))
        lines2.append("CLEAR")
        have2.append(True)
    ans2 = ck.driver.run(lines2) if lines2 else []
    k2 = 0
    for i, case in enumerate(cases):
        tabs, args, ps, xs, q, wn, xn = metas[i]
        impl = run_direct_impl(case)
        mF = parse_ok(ans[2 * i], 3)
        mQ = parse_ok(ans[2 * i + 1], 7)
        m2 = None
        if have2[i]:
            m2 = parse_ok(ans2[k2], 5)
            k2 += 1
        n = len(xn)
        ref = exact_wls(ps, xs, wn) if n and np.all(np.isfinite(ps)) and np.all(np.isfinite(xs)) else None
        nontrivial = ref is not None and n >= 3
        ck.case(case, nontrivial=nontrivial)
        ck.count("direct")
        ck.count("direct_zeros" if n < len(case["x"]) else "direct_nozeros")
        d = None
        if "err" in mF or "err" in mQ or "err" in impl:
            ck.count("direct_error_branch")
            # exact zero tests on rounded sums are not comparable; all three must refuse, or the
            # exact model refuses (degenerate) and the float sides are then unconstrained
            if "err" in mQ:
                pass
            elif "err" in impl or "err" in mF:
                d = f"error mismatch impl={impl.get('err')} modelF={mF.get('err')} modelQ={mQ.get('err')}"
        else:
            a_f, b_f, beta_f = (b2f(v) for v in mF["vals"][:3])
            a_q, b_q, beta_q = (frac(v) for v in mQ["vals"][:3])
            # Lean's exact model vs the harness' independent exact regression
            if ref is not None and not (a_q == ref["a"] and b_q == ref["b"] and beta_q == 1 / ref["b"]):
                d = "exact model (Rat) differs from the harness' exact weighted regression"
            if ref is not None and d is None:
                rb, ta = tolerances(ref, n)
                ck.hyp_checked += 1
                al_q = 10.0 ** float(a_q)
                checks = [
                    ("beta impl vs exact model", impl["beta"], float(beta_q), rb, 0.0),
                    ("beta Float model vs exact model", beta_f, float(beta_q), rb, 0.0),
                    ("a Float model vs exact model", a_f, float(a_q), 0.0, ta),
                    ("alpha impl vs 10^a exact model", impl["alpha"], al_q, math.log(10) * ta + 1e-13, 0.0),
                ]
                for name, u, v, rt, at in checks:
                    if not close(u, v, rt, at):
                        d = f"{name}: {u!r} vs {v!r} (rtol {rt:.3g} atol {at:.3g}, cond {ref['cond']:.3g})"
                        break
                if d is None and m2 is not None and "err" not in m2 and "error" in impl:
                    a2, b2_, al2, be2, err2 = (b2f(v) for v in m2["vals"][:5])
                    ra = math.log(10) * ta + 1e-13
                    if not close(al2, impl["alpha"], 2 * ra):
                        d = f"alpha Float model {al2!r} vs impl {impl['alpha']!r}"
                    else:
                        xhat = impl["alpha"] * q ** (1 / impl["beta"])
                        wfull = np.array(case["w"], dtype=float)[np.nonzero(np.array(case["x"]))]
                        sens = float(np.sum(wfull * 2 * np.abs(xn - xhat) * np.abs(xhat)
                                            * (2 * ra + 2 * rb * np.abs(np.log(q)) / abs(impl["beta"]))))
                        tol = sens + 1e-11 * abs(impl["error"]) + 1e-300
                        if not abs(err2 - impl["error"]) <= tol:
                            d = f"_wlsq_error impl {impl['error']!r} vs model {err2!r} (tol {tol:.3g})"
                        ck.count("direct_error_compared")
                elif d is None and m2 is not None and "err" in m2:
                    d = "phase 2 (x-space error) model refused: " + m2["err"]
        if d is not None:
            ck.diverge("estimate_alpha_beta", case, d)


# --------------------------------------------------------------------------- (B) whole fits


class Capture:
    """records the (delta, x, p, w) reaching `_estimate_alpha_beta` (harness process only)"""

    def __enter__(self):
        cls = EW()
        self.cls = cls
        self.orig = cls.__dict__["_estimate_alpha_beta"]
        f = self.orig.__func__ if isinstance(self.orig, staticmethod) else self.orig
        self.calls = []

        def rec(delta, x, p, w, *a, **k):
            self.calls.append((delta, np.array(x, dtype=float), np.array(p, dtype=float), np.array(w, dtype=float)))
            return f(delta, x, p, w, *a, **k)

        cls._estimate_alpha_beta = staticmethod(rec)
        return self

    def __exit__(self, *a):
        self.cls._estimate_alpha_beta = self.orig


def as_given(data, weights, container):
    """data / array weights as the user hands them over: ndarray (default; whole-number samples as an integer array),
    Python list or tuple (array_like)"""
    arr = np.array(data, dtype=float)
    if len(arr) and np.all(arr == np.round(arr)) and np.max(np.abs(arr)) < 2 ** 50:
        arr = arr.astype(np.int64)  # whole-number samples are handed over as an integer array
    w = weights
    if container in ("list", "tuple"):
        conv = list if container == "list" else tuple
        arr = conv(arr.tolist())
        if isinstance(weights, list):
            w = conv(float(v) for v in weights)
    elif isinstance(weights, list):
        w = np.array(weights, dtype=float)
    return arr, w


def run_fit(data, weights, delta, delta0, method, container=None, before=None):
    """returns dict(alpha, beta, delta, args=(x, p, w)) or dict(err=...).
    `before`: (data, weights) the SAME object is fitted to first (object re-use: the free-delta branch starts its
    search at the object's current delta)"""
    cls = EW()
    with Capture() as cap, np.errstate(all="ignore"), warnings.catch_warnings():
        warnings.simplefilter("ignore")
        try:
            dist = cls(f_delta=delta) if delta is not None else cls(delta=delta0)
            if before is not None:
                a0, w0 = as_given(before[0], before[1], container)
                dist.fit(a0, method=method, weights=w0)
                cap.calls.clear()
            arr, w = as_given(data, weights, container)
            dist.fit(arr, method=method, weights=w)
        except Exception as e:  # noqa: BLE001
            return {"err": type(e).__name__, "msg": str(e)[:200]}
    out = {"alpha": float(dist.alpha), "beta": float(dist.beta), "delta": float(dist.delta)}
    if cap.calls:
        out["args"] = cap.calls[-1]
        out["n_calls"] = len(cap.calls)
    if not all(math.isfinite(out[k]) for k in ("alpha", "beta", "delta")):
        out["err"] = "nonfinite"
    return out


def random_sample(rng, n):
    fam = int(rng.integers(0, 4))
    scale = float(10 ** rng.uniform(-1.0, 1.3))
    if fam == 0:
        x = rng.weibull(float(rng.uniform(0.9, 3)), n) * scale
    elif fam == 1:
        x = rng.lognormal(0.0, float(rng.uniform(0.2, 0.8)), n) * scale
    elif fam == 2:
        import scipy.stats as sts

        x = sts.exponweib.rvs(float(rng.uniform(0.5, 2.5)), float(rng.uniform(1, 3)), scale=scale, size=n,
                              random_state=rng)
    else:
        x = rng.gamma(float(rng.uniform(1, 4)), scale, n)
    x = np.asarray(x, dtype=float)
    x = x[np.isfinite(x)]
    return np.maximum(x, 1e-12 * scale)


def gen_fits(rng, count, nmax):
    specs = [None, "linear", "quadratic", "cubic", "array", "array", "array1"]
    for k in range(count):
        n = int(round(10 ** rng.uniform(math.log10(30), math.log10(nmax))))
        x = random_sample(rng, n)
        flavour = int(rng.integers(0, 4))
        if flavour in (1, 3):
            x = np.maximum(np.round(x, int(rng.choice([1, 2]))), 0.0)  # ties (and rounding to 0)
        if flavour in (2, 3):
            x[rng.choice(len(x), size=int(rng.integers(1, max(2, len(x) // 20))), replace=False)] = 0.0
        if k % 9 == 4:
            # whole numbers (counts, whole seconds; millimetres / raw sensor counts for the large magnitudes, where
            # x**2 and x**3 leave the int64 range): handed over as an integer-dtype array
            target = [20.0, 20.0, 3.0e6, 5.0e9][(k // 9) % 4]
            x = np.round(x * (target / max(np.median(x), 1e-9)))
        if np.count_nonzero(x) < 10 or len(np.unique(x[x != 0])) < 5:
            x = random_sample(rng, n)
        sp = specs[k % len(specs)]
        if sp == "array":
            w = rng.uniform(0.1, 2.0, len(x))
            if rng.integers(0, 2):
                w = w * (x + 0.1 * np.mean(x))
            if k % 14 == 5:
                # boundary of "positive": some observations get weight exactly 0
                w[rng.choice(len(x), size=max(1, len(x) // 8), replace=False)] = 0.0
            weights = [float(v) for v in w]
        elif sp == "array1":
            weights = [1.0] * len(x)
        else:
            weights = sp if (sp is None or rng.integers(0, 2)) else sp.upper()
        free = (k % 3 == 2)
        yield {"part": "B", "data": [float(v) for v in x], "weights": weights,
               "delta": None if free else float(rng.choice([1.0, float(rng.uniform(0.4, 2.5))])),
               "delta0": float(rng.choice([1.0, 0.8, 1.4])) if free else None,
               "scale": float(rng.choice([2.0 ** int(rng.integers(-20, 20)), float(10 ** rng.uniform(-6, 6))])),
               "perm_seed": int(rng.integers(0, 2 ** 31)),
               "method": str(rng.choice(["lsq", "wlsq", "lsq", "wlsq", "LSQ", "WLSQ", "Wlsq"])),
               "container": [None, None, "list", "tuple"][int(rng.integers(0, 4))]}


def fit_corpus():
    import scipy.stats as sts

    # DESIGN section 4 #5: fit(x, 'lsq') with weights None on EW(2, 1.5, 1) data
    x = sts.exponweib.rvs(1.0, 1.5, scale=2, size=200, random_state=1)
    base = {"part": "B", "data": [float(v) for v in x], "delta": 1.0, "delta0": None, "scale": 7.0,
            "perm_seed": 5, "method": "lsq"}
    yield dict(base, weights=None)
    yield dict(base, weights=[1.0] * 200)
    # #5b: array weights given for the unsorted data
    w = np.random.default_rng(0).uniform(0.5, 2, 200)
    yield dict(base, weights=[float(v) for v in w / w.sum()])
    yield dict(base, weights=[float(v) for v in w], delta=None, delta0=1.0)
    # zeros with weights None: the retained weights no longer sum to the number of points
    xz = np.append(x[:60], [0.0] * 20)
    yield dict(base, data=[float(v) for v in xz], weights=None, delta=1.3)
    yield dict(base, data=[float(v) for v in xz], weights="linear", delta=1.3)
    # ties with different weights
    xt = np.round(x[:80], 1)
    yield dict(base, data=[float(v) for v in xt], weights=[float(v) for v in w[:80]], delta=0.8)
    # wrong length of the weights
    yield dict(base, data=[float(v) for v in x[:40]], weights=[1.0] * 39)


def wkind(weights):
    if weights is None:
        return "none"
    if isinstance(weights, str):
        return "keyword:" + weights.lower()
    return "array"


def sig(case, predicate, **extra):
    d = {"entry": "ExponentiatedWeibullDistribution.fit(method=lsq|wlsq)", "weights": wkind(case["weights"]).split(":")[0],
         "delta": "free" if case["delta"] is None else "fixed", "predicate": predicate}
    d.update(extra)
    return d


def fit_lines(case, delta):
    data = np.array(case["data"], dtype=float)
    kind, wt = spec_tokens(case["weights"])
    xs = np.sort(data)
    n = len(xs)
    p = (np.arange(1, n + 1) - 0.5) / n
    lines = []
    if kind == "cubic":
        c3 = xs ** 3
        t3 = f2b(3.0)
        lines += [f"TABLE power {f2b(xs[i])} {t3} {f2b(c3[i])}" for i in range(n)]
    prep = " ".join(["RUN", "c13prep", kind] + fl(data) + wt)
    if delta is None:
        return lines + [prep, "CLEAR"], 1
    tabs, _, _, _ = leaf_tables(delta, xs, p)
    fit = " ".join(["RUN", "c13fit", kind, str(f2b(delta))] + fl(data) + wt)
    return lines + tabs + [prep, fit, "CLEAR"], 2


def oracle_fit(case, base, scaled, shuffled, refit=None, regular=True):
    """property predicates on the implementation's outputs; list of (predicate, detail)"""
    bad = []
    if "err" in base:
        w = case["weights"]
        valid = not isinstance(w, list) or (len(w) == len(case["data"]) and min(w) > 0)
        d0 = case["delta"] if case["delta"] is not None else case["delta0"]
        if valid and ref_fit(case["data"], w, d0) is not None:
            bad.append(("fit_succeeds", f"fit failed on a valid sample: {base['err']} {base.get('msg', '')}"))
        return bad
    delta = base["delta"]
    ref = ref_fit(case["data"], case["weights"], delta)
    if ref is None:
        return bad
    rb, ta = tolerances(ref, ref["n"])
    ra = math.log(10) * ta + 1e-13
    if case["delta"] is not None and delta != case["delta"]:
        bad.append(("delta_in_force", f"f_delta={case['delta']!r} but fitted delta={delta!r}"))
    if not (close(base["beta"], ref["beta"], rb) and close(base["alpha"], ref["alpha"], ra)):
        bad.append(("minimiser", f"fit gives alpha={base['alpha']!r} beta={base['beta']!r}; weighted least squares at "
                    f"delta={delta!r} is alpha={ref['alpha']!r} beta={ref['beta']!r} (cond {ref['cond']:.3g})"))
    free = case["delta"] is None
    for name, other in (("scale", scaled), ("order", shuffled), ("refit", refit)):
        if other is None or (name == "refit" and free and not regular):
            continue
        if "err" in other:
            bad.append((name + "_invariance", f"variant failed: {other['err']} {other.get('msg', '')}"))
            continue
        if free:
            # fmin (xtol = ftol = 1e-4) sees the same function up to rounding
            ok = close(other["delta"], delta, 2e-3) and close(other["beta"], base["beta"], 2e-2) \
                and close(other["alpha"], base["alpha"], 2e-2)
        else:
            ok = close(other["beta"], base["beta"], 2 * rb) and close(other["alpha"], base["alpha"], 2 * ra)
        if not ok:
            what = (f"weights*{case['scale']!r}" if name == "scale" else "jointly shuffled data and weights" if name == "order"
                    else "a second fit of the same object to the same data")
            bad.append((name + "_invariance", f"{what}: alpha,beta,delta = {other['alpha']!r},{other['beta']!r},"
                        f"{other['delta']!r} vs {base['alpha']!r},{base['beta']!r},{base['delta']!r}"))
    return bad


FREE_DELTA_RTOL = 2e-5
NO_MINIMISER = ("reference x-space error has no interior minimiser for delta in [0.05, 1000]: still falling at an end of the "
                "range in which it is finite")


def delta_profile_class(case):
    """a property of the INPUT (data + weights) only: the reference error on a logarithmic grid of delta in [0.05, 1000]
    (refined next to the point where it stops being finite: for small delta p**(1/delta) underflows).  If the smallest
    value sits at an end of the finite range there is no local minimiser for the search to return (upper end: heavy-tailed
    / log-normal-like samples, delta runs away; lower end: very concentrated samples, the error falls until the transform
    breaks down)."""
    grid = [0.05 * (1000 / 0.05) ** (i / 14.0) for i in range(15)]
    errs = [ref_error(case["data"], case["weights"], d) for d in grid]
    fin = [k for k, e in enumerate(errs) if math.isfinite(e)]
    if len(fin) < 3:
        return "no_interior_minimiser"
    pts = [(errs[k], grid[k]) for k in fin]
    if fin[0] > 0:
        lo, hi = grid[fin[0] - 1], grid[fin[0]]
        for t in range(1, 12):
            d = lo * (hi / lo) ** (t / 12.0)
            e = ref_error(case["data"], case["weights"], d)
            if math.isfinite(e):
                pts.append((e, d))
    best = min(pts)[1]
    ds = sorted(d for _, d in pts)
    return "no_interior_minimiser" if best in (ds[0], ds[-1]) else "regular"


def free_delta_gap(case, delta):
    """how much lower the reference x-space error gets within a factor 1.3 of the returned delta (bounded Brent search of
    scipy.optimize.minimize_scalar on the harness' own error function), relative to the error at the returned delta;
    ~1e-7 for a converged fmin (xtol = ftol = 1e-4), large when the search was truncated"""
    from scipy.optimize import minimize_scalar

    e0 = ref_error(case["data"], case["weights"], delta)
    if not math.isfinite(e0) or not e0 > 0:
        return None

    def f(t):
        v = ref_error(case["data"], case["weights"], float(t))
        return v if math.isfinite(v) else 1e300

    r = minimize_scalar(f, bounds=(delta / 1.3, delta * 1.3), method="bounded", options={"xatol": 1e-7 * delta})
    return max(0.0, (e0 - min(float(r.fun), e0)) / e0), float(r.x)


def observe_free_delta(case, base):
    """runtime-only clause: local minimality of the returned delta for the reference error"""
    d = base["delta"]
    e0 = ref_error(case["data"], case["weights"], d)
    if not math.isfinite(e0):
        return None
    worst = 0.0
    for h in (0.01, 0.03):
        for s in (-1, 1):
            e = ref_error(case["data"], case["weights"], d * (1 + s * h))
            if math.isfinite(e):
                worst = max(worst, (e0 - e) / max(e0, 1e-300))
    return worst


def refit_variant(case):
    """object re-use with history: OTHER data (half of the sample, scaled by 1.5) the same object is fitted to first"""
    data = np.array(case["data"], dtype=float)
    rng = np.random.default_rng(case["perm_seed"] + 1)
    idx = rng.permutation(len(data))[: max(10, len(data) // 2)]
    w = case["weights"]
    first = [float(v) for v in data[idx] * 1.5]
    return first, ([float(v) for v in np.array(w)[idx]] if isinstance(w, list) and len(w) == len(data) else
                   (w if not isinstance(w, list) else None))


def variants(case):
    w = case["weights"]
    rng = np.random.default_rng(case["perm_seed"])
    perm = rng.permutation(len(case["data"]))
    data = np.array(case["data"], dtype=float)
    scaled = None
    if isinstance(w, list) and len(w) == len(data):
        scaled = (case["data"], [float(v) for v in np.array(w) * case["scale"]])
    if isinstance(w, list):
        shuffled = ([float(v) for v in data[perm]], [float(v) for v in np.array(w)[perm]]) if len(w) == len(data) else None
    else:
        shuffled = ([float(v) for v in data[perm]], w)
    return scaled, shuffled


def process_fits(ck, cases):
    if not cases:
        return
    impls, lines, nl = [], [], []
    for case in cases:
        cont = case.get("container")
        base = run_fit(case["data"], case["weights"], case["delta"], case["delta0"], case["method"], cont)
        sc, sh = variants(case)
        scaled = run_fit(sc[0], sc[1], case["delta"], case["delta0"], case["method"], cont) if sc else None
        shuffled = run_fit(sh[0], sh[1], case["delta"], case["delta0"], case["method"], cont) if sh else None
        refit = hist = None
        if "err" not in base:
            # the same object fitted twice to the same data: same result (free delta: within optimiser tolerance, the
            # second search starts at the first result)
            refit = run_fit(case["data"], case["weights"], case["delta"], case["delta0"], case["method"], cont,
                            before=(case["data"], case["weights"]))
            # ... and fitted to OTHER data first: with a free delta the search starts where the other data left the
            # object; the property does not say what then has to come out: counted, no verdict (fixed delta: verdict)
            hist = run_fit(case["data"], case["weights"], case["delta"], case["delta0"], case["method"], cont,
                           before=refit_variant(case))
            if case["delta"] is None:
                same = "err" not in hist and close(hist["delta"], base["delta"], 2e-3) and close(hist["beta"], base["beta"], 2e-2)
                ck.count("observed_no_verdict:free_delta_refit_after_other_data:"
                         + ("nonfinite" if "err" in hist else "same_result" if same else "other_result"))
                hist = None
        impls.append((base, scaled, shuffled, refit, hist))
        dl = None if "err" in base and "delta" not in base else base.get("delta")
        if case["delta"] is not None:
            dl = case["delta"]
        ls, k = fit_lines(case, dl)
        lines += ls
        nl.append(k)
    ans = ck.driver.run(lines)
    pos = 0
    for case, (base, scaled, shuffled, refit, hist), k in zip(cases, impls, nl):
        a_prep = ans[pos]
        a_fit = ans[pos + 1] if k == 2 else None
        pos += k
        data = np.array(case["data"], dtype=float)
        nzc = int(np.count_nonzero(data))
        nontrivial = "err" not in base and nzc >= 10
        ck.case(case, nontrivial=nontrivial)
        ck.count("fit")
        ck.count("weights=" + wkind(case["weights"]))
        ck.count("delta=" + ("free" if case["delta"] is None else "fixed"))
        if nzc < len(data):
            ck.count("fit_with_zeros")
        if len(np.unique(data)) < len(data):
            ck.count("fit_with_ties")
        ck.count("method=" + case["method"])
        ck.count("container=" + (case.get("container") or "ndarray"))
        if isinstance(case["weights"], list) and case["weights"] and min(case["weights"]) == 0:
            ck.count("array_weights_with_zeros")
        if len(data) and float(np.max(np.abs(data))) > 2.0e6 and np.all(data == np.round(data)):
            ck.count("integer_dtype_above_2e6")
        if refit is not None:
            ck.count("refit_same_object")
        profile = delta_profile_class(case) if case["delta"] is None and "err" not in base else "regular"
        bad = [(pred, detail, {}) for pred, detail in oracle_fit(case, base, scaled, shuffled, refit, profile == "regular")]
        if hist is not None:  # fixed delta: the closed form has no memory
            bad += [(pred, "the object was fitted to OTHER data in between: " + detail, {})
                    for pred, detail in oracle_fit(case, base, None, None, hist)
                    if pred == "refit_invariance"]
        if case["delta"] is None and "err" not in base:
            ck.count("free_delta_profile=" + profile)
            # a free delta is a local minimiser of the weighted quantile error in x-space: the harness' own error function,
            # minimised by a bounded scalar search around the returned delta, must not get lower than at the returned delta
            for label, fit in (("fit", base), ("refit of the same object", refit)):
                if fit is None or "err" in fit:
                    continue
                g = free_delta_gap(case, fit["delta"])
                if g is None:
                    continue
                ck.extra["free_delta_worst_gap_" + profile] = max(ck.extra.get("free_delta_worst_gap_" + profile, 0.0), g[0])
                if g[0] > FREE_DELTA_RTOL:
                    bad.append(("free_delta_local_min",
                                f"{label}: returned delta={fit['delta']!r}; the reference x-space error is lower by {g[0]:.3g} "
                                f"(relative) at delta={g[1]!r}, within a factor 1.3",
                                {"input_class": NO_MINIMISER} if profile != "regular" else {}))
            worst = observe_free_delta(case, base)
            if worst is not None:
                ck.extra["free_delta_observed"] = ck.extra.get("free_delta_observed", 0) + 1
                ck.extra["free_delta_worst_relative_decrease"] = max(
                    ck.extra.get("free_delta_worst_relative_decrease", 0.0), worst)
                if worst > 1e-3 and not any(b[0] == "free_delta_local_min" for b in bad):
                    bad.append(("free_delta_local_min", f"reference error decreases by {worst:.3g} (relative) within "
                                f"3% of the returned delta={base['delta']!r}", {}))
        for pred, detail, extra in bad:
            ck.fail(sig(case, pred, **extra), case, detail)
        # ---- correspondence
        d = None
        mp = parse_ok(a_prep, 0)
        if "err" in base and "args" not in base and base["err"] != "nonfinite":
            if "err" not in mp:
                d = f"impl raised {base['err']} ({base.get('msg')}) but the model prepared the data"
            else:
                ck.count("fit_error_branch")
        elif "err" in mp:
            d = f"model refused ({mp['err']}) but impl ran"
        elif "args" in base:
            t = mp["vals"]
            n = int(t[0])
            mp_p = [int(v) for v in t[1:1 + n]]
            mp_x = [int(v) for v in t[2 + n:2 + 2 * n]]
            mp_w = [b2f(v) for v in t[3 + 2 * n:3 + 3 * n]]
            _, ix, ip, iw = base["args"]
            if len(ix) != n:
                d = f"estimator received {len(ix)} observations, model {n}"
            elif [f2b(v) for v in ip] != mp_p:
                j = next(i for i in range(n) if f2b(ip[i]) != mp_p[i])
                d = f"plotting position {j}: impl {ip[j]!r} model {b2f(mp_p[j])!r}"
            elif [f2b(v) for v in ix] != mp_x:
                j = next(i for i in range(n) if f2b(ix[i]) != mp_x[i])
                d = f"sorted value {j}: impl {ix[j]!r} model {b2f(mp_x[j])!r}"
            else:
                for j in range(n):
                    if not close(iw[j], mp_w[j], 2e-12, 1e-300):
                        d = f"weight {j} (x={ix[j]!r}): impl {iw[j]!r} model {mp_w[j]!r}"
                        break
            if d is None and a_fit is not None:
                mf = parse_ok(a_fit, 4)
                ref = ref_fit(case["data"], case["weights"], base["delta"])
                if "err" in mf:
                    if "err" not in base and ref is not None:
                        d = f"model refused ({mf['err']}) but impl returned alpha={base['alpha']!r} beta={base['beta']!r}"
                elif "err" not in base and ref is not None:
                    a_f, b_f, beta_f = (b2f(v) for v in mf["vals"][:3])
                    rb, ta = tolerances(ref, ref["n"])
                    with np.errstate(all="ignore"):
                        al_f = float(10 ** np.float64(a_f))
                    if int(mf["vals"][3]) != nzc:
                        d = f"model kept {mf['vals'][3]} observations, data has {nzc} non-zero"
                    elif not close(beta_f, base["beta"], 2 * rb):
                        d = f"beta impl {base['beta']!r} model {beta_f!r} (rtol {2 * rb:.3g})"
                    elif not close(al_f, base["alpha"], 2 * (math.log(10) * ta + 1e-13)):
                        d = f"alpha impl {base['alpha']!r} model {al_f!r}"
                    ck.count("fit_model_compared")
        if d is not None:
            if bad:
                ck.count("divergence_with_oracle_failure")
            else:
                ck.diverge("fit_lsq", case, d)
    # free-delta cases: second driver round at the delta the optimiser returned is part of
    # fit_lines (delta taken from the implementation's result)


# --------------------------------------------------------------------------- positions


def process_positions(ck, ns):
    ans = ck.driver.run([f"RUN c13pos {n}" for n in ns])
    for n, a in zip(ns, ans):
        t = a.split()
        got = [int(v) for v in t[2:]]
        want = [f2b(v) for v in (np.arange(1, n + 1) - 0.5) / n]
        case = {"part": "P", "n": n}
        ck.case(case, nontrivial=n >= 2, sample=False)
        ck.count("positions")
        if got != want:
            ck.diverge("positions", case, "model positions differ from (np.arange(1, n+1) - 0.5) / n")


# --------------------------------------------------------------------------- main


def main(ck):
    rng = np.random.default_rng(ck.seed)
    thorough = ck.tier == "thorough"
    nmax = 5000
    n_direct = 3000 if thorough else 300
    n_fit = 900 if thorough else 63
    ck.rule = (
        "corpus witnesses (DESIGN section 4 #5/#5b), then (A) random direct calls of _estimate_alpha_beta/_wlsq_error "
        f"(n 3..{nmax} log-uniform; Weibull values, ties, zeros, arbitrary p, weights over 12 decades) and (B) whole fits "
        f"(n 30..{nmax if thorough else 2000}; Weibull/lognormal/exponentiated-Weibull/gamma samples with ties and zeros; weights "
        "None / 3 keywords (any letter case) / positive arrays, some with entries exactly 0; data and array weights as "
        "ndarray / list / tuple; whole-number samples as int64 arrays with medians 20, 3e6, 5e9; method lsq / wlsq / LSQ / "
        "WLSQ / Wlsq; delta fixed and free; each with a scaled and a jointly shuffled variant, a second fit of the same "
        "object to the same data and a fit after the object was fitted to other data). "
        "Non-trivial: >= 3 retained points and a non-degenerate regression (A), >= 10 non-zero observations and a "
        "successful fit (B); distinct by SHA1 of the case"
    )
    ck.assumptions = [
        "np.log10 / np.log / np.power values enter the model as TABLE leaves evaluated with the same numpy call",
        "np.sum is pairwise: real values compared with rtol 1e-9 * condition number of the two moment differences, "
        "and the exact model (Rat) must equal the harness' integer-arithmetic regression exactly",
        "the arguments reaching _estimate_alpha_beta are recorded by a wrapper installed inside the harness process",
    ]
    ck.partial = {
        "free_delta_local_minimiser": "scipy.optimize.fmin's result is only observed: the harness' reference x-space error, "
                                      "minimised by a bounded scalar search within a factor 1.3 of the returned delta, must "
                                      "not get lower than at the returned delta by more than 2e-5 relative (and not by "
                                      "more than 1e-3 at +-1% / +-3%); samples whose error has no interior minimiser in "
                                      "delta are a known finding keyed on the input",
        "object re-use": "second fit of the same object to the same data = same result (observed); free delta after the "
                         "object was fitted to OTHER data: history-dependent by construction (search starts at the "
                         "object's delta), counted without verdict",
    }
    process_direct(ck, list(direct_corpus()))
    process_fits(ck, list(fit_corpus()))
    process_positions(ck, [1, 2, 3, 7, 30, 31, 100, 999, 1000, 4999, 5000] + [int(v) for v in rng.integers(2, 5000, 10)])
    direct = list(gen_direct(rng, n_direct, nmax))
    for i in range(0, len(direct), 50):
        process_direct(ck, direct[i:i + 50])
    fits = list(gen_fits(rng, n_fit, nmax if thorough else 2000))
    for i in range(0, len(fits), 20):
        process_fits(ck, fits[i:i + 20])
    ck.extra["exhaustive"] = False


def replay(ck, payload):
    case = payload["case"]
    if case.get("part") == "B":
        cont = case.get("container")
        base = run_fit(case["data"], case["weights"], case["delta"], case["delta0"], case["method"], cont)
        sc, sh = variants(case)
        scaled = run_fit(sc[0], sc[1], case["delta"], case["delta0"], case["method"], cont) if sc else None
        shuffled = run_fit(sh[0], sh[1], case["delta"], case["delta0"], case["method"], cont) if sh else None
        refit = None
        if "err" not in base:
            refit = run_fit(case["data"], case["weights"], case["delta"], case["delta0"], case["method"], cont,
                            before=(case["data"], case["weights"]))
            hist = run_fit(case["data"], case["weights"], case["delta"], case["delta0"], case["method"], cont,
                           before=refit_variant(case))
            print("same object fitted to other data first:", {k: v for k, v in hist.items() if k != "args"})
        print("fit:", {k: v for k, v in base.items() if k != "args"})
        profile = delta_profile_class(case) if case["delta"] is None and "err" not in base else "regular"
        bad = oracle_fit(case, base, scaled, shuffled, refit, profile == "regular")
        if case["delta"] is None and "err" not in base:
            for label, fit in (("fit", base), ("refit", refit)):
                g = free_delta_gap(case, fit["delta"]) if fit and "err" not in fit else None
                print(f"free delta ({label}): returned {fit and fit.get('delta')!r}; (relative decrease, argmin) of the reference "
                      f"error within a factor 1.3: {g}; profile class {profile}")
                if g is not None and g[0] > FREE_DELTA_RTOL:
                    bad.append(("free_delta_local_min", f"{label}: decrease {g[0]:.3g}"))
        for pred, detail in bad:
            print("oracle:", pred, detail)
        return not bad
    if case.get("part") == "A":
        impl = run_direct_impl(case)
        x, p, w = (np.array(case[k], dtype=float) for k in ("x", "p", "w"))
        nz = np.nonzero(x)
        ps, xs, _ = star_of(case["delta"], x[nz], p[nz])
        ref = exact_wls(ps, xs, w[nz])
        print("impl:", impl)
        if ref is None:
            return True
        print("exact:", 10.0 ** float(ref["a"]), 1 / float(ref["b"]))
        rb, ta = tolerances(ref, len(xs))
        return "err" not in impl and close(impl["beta"], 1 / float(ref["b"]), rb)
    return True
