"""
C02 - Highest-density contour encloses the highest-density region of content 1-alpha.

Correspondence
  (A) HighestDensityContour.cumsum_biggest_until called directly on random arrays (1-D..3-D,
      ties, zeros, totals just below/above the limit): mask, last value, warning vs Lean model.
  (B,C) whole HighestDensityContour on real hierarchical models (rational doubles: leaves
      computed natively by the model; shipped families: leaf cdf TABLE'd from constructed
      instances): grid axes, region actually selected inside _compute (observed through a
      recording subclass), fm, warning.
Oracle on the implementation's own output: the five selection facts, fm, the warning rule and
the cell probabilities as CDF differences recomputed independently.
"""
import math
import warnings

import numpy as np

from core import f2b, b2f, fl
import doubles
import models


def hdc_class():
    from virocon import HighestDensityContour

    class RecordingHDC(HighestDensityContour):
        """records what the selection routine receives and returns inside _compute"""

        rec = None
        grid = None

        def _check_grid(self):
            super()._check_grid()
            # realised limits / deltas (the defaults are only known after this call)
            RecordingHDC.grid = (self.limits, self.deltas)

        @staticmethod
        def cumsum_biggest_until(array, limit):
            RecordingHDC.rec = {"probs": np.array(array, dtype=float), "limit": float(limit)}
            try:
                with warnings.catch_warnings():
                    warnings.simplefilter("error", RuntimeWarning)
                    out = HighestDensityContour.cumsum_biggest_until(array, limit)
                RecordingHDC.rec["warned"] = False
            except RuntimeWarning:
                RecordingHDC.rec["warned"] = True
                with warnings.catch_warnings():
                    warnings.simplefilter("ignore")
                    out = HighestDensityContour.cumsum_biggest_until(array, limit)
                RecordingHDC.rec["mask"] = np.array(out[0]) != 0
                RecordingHDC.rec["last"] = float(out[1])
                warnings.warn("The limit could not be reached.", RuntimeWarning, stacklevel=1)
                return out
            RecordingHDC.rec["mask"] = np.array(out[0]) != 0
            RecordingHDC.rec["last"] = float(out[1])
            return out

    RecordingHDC.__name__ = "HighestDensityContour"
    return HighestDensityContour, RecordingHDC


# --------------------------------------------------------------------------- (A)

def gen_arrays(rng, n):
    for _ in range(n):
        nd = int(rng.integers(1, 4))
        shape = tuple(int(rng.integers(1, [400, 40, 14][nd - 1])) for _ in range(nd))
        mode = rng.integers(0, 5)
        size = int(np.prod(shape))
        if mode == 0:
            a = rng.exponential(1.0, size)
        elif mode == 1:
            a = rng.integers(0, 6, size).astype(float)  # many ties and zeros
        elif mode == 2:
            a = np.round(rng.exponential(1.0, size), 1)
        elif mode == 3:
            a = rng.exponential(1.0, size) * (rng.uniform(size=size) < 0.3)
        else:
            a = 10.0 ** rng.uniform(-300, 0, size)  # tiny values, wide range
        tot = a.sum()
        if tot > 0 and mode != 4:
            a = a / tot
        if size and rng.integers(0, 40) == 0:
            a[int(rng.integers(0, size))] = np.nan  # documented refusal: ValueError("array contains nan.")
            yield {"part": "A", "shape": list(shape), "values": [float(v) for v in a.ravel()],
                   "limit": float(rng.uniform(0.1, 0.99)), "has_nan": True}
            continue
        a = a.reshape(shape)
        r = rng.integers(0, 6)
        total = float(np.cumsum(np.sort(a.ravel())[::-1])[-1]) if size else 0.0
        if r == 0:
            limit = total  # exactly reachable
        elif r == 1:
            limit = float(np.nextafter(total, np.inf))  # just above: warning
        elif r == 2:
            limit = total * float(rng.uniform(1.0, 1.5)) + 1e-9
        elif r == 3:
            limit = float(a.max()) * float(rng.uniform(0.3, 0.999))  # empty selection
        else:
            limit = total * float(rng.uniform(0.05, 0.999))
        yield {"part": "A", "shape": list(shape), "values": [float(v) for v in a.ravel()], "limit": limit}


def impl_select(case):
    HDC, _ = hdc_class()
    a = np.array(case["values"], dtype=float).reshape(case["shape"])
    warned = False
    try:
        with warnings.catch_warnings(record=True) as w:
            warnings.simplefilter("always")
            mask, last = HDC.cumsum_biggest_until(a, case["limit"])
            warned = any(issubclass(x.category, RuntimeWarning) for x in w)
    except IndexError:
        return {"err": "emptySelection"}
    except ValueError as e:
        return {"err": "nanInput" if "nan" in str(e) else "ValueError"}
    except Exception as e:  # noqa: BLE001
        return {"err": type(e).__name__}
    return {"mask": "".join("1" if v else "0" for v in (np.array(mask).ravel() != 0)),
            "last": float(last), "warn": warned, "mask_shape_ok": np.array(mask).shape == a.shape}


def parse_select(ans):
    t = ans.split()
    if t[0] != "OK":
        return {"err": t[1]}
    return {"mask": t[1], "last": b2f(t[2]), "warn": t[3] == "1"}


def selection_oracle(probs, limit, mask, last, warned, tag=""):
    """the selection facts on the implementation's output (probs, mask flattened)"""
    bad = []
    probs = np.asarray(probs, dtype=float).ravel()
    mask = np.asarray(mask, dtype=bool).ravel()
    sel, exc = probs[mask], probs[~mask]
    tot_sel = math.fsum(sel)
    eps = 8 * np.finfo(float).eps * max(1.0, len(probs)) * max(abs(limit), tot_sel, 1e-300)
    if tot_sel > limit + eps:
        bad.append((tag + "content_at_most_limit", f"content {tot_sel!r} > limit {limit!r}"))
    if len(sel) and len(exc) and sel.min() < exc.max():
        bad.append((tag + "enclosed_at_least_as_dense_as_excluded", f"min enclosed {sel.min()!r} < max excluded {exc.max()!r}"))
    if len(exc) and not (tot_sel + exc.max() > limit - eps):
        bad.append((tag + "shortfall_less_than_densest_excluded", f"content {tot_sel!r} + {exc.max()!r} <= limit {limit!r}"))
    if len(sel) and last != sel.min():
        bad.append((tag + "last_is_least_dense_enclosed", f"last {last!r} min enclosed {sel.min()!r}"))
    total = math.fsum(probs)
    if warned and total >= limit + eps:
        bad.append((tag + "warning_only_if_unreachable", f"total {total!r} >= limit {limit!r} but warned"))
    if (not warned) and total < limit - eps:
        bad.append((tag + "warning_if_unreachable", f"total {total!r} < limit {limit!r}, no warning"))
    return bad


def same_up_to_ties(vals, mask_a, mask_b):
    """two selections are equivalent if they select the same multiset of values (they can then differ
    only in which of several equal cells at the cut is taken - the property does not distinguish them)"""
    v = np.asarray(vals, dtype=float).ravel()
    a = np.array([c == "1" for c in mask_a])
    b = np.array([c == "1" for c in mask_b])
    return len(a) == len(b) == len(v) and np.array_equal(np.sort(v[a]), np.sort(v[b]))


def process_arrays(ck, cases):
    lines = [" ".join(["RUN", "select", str(f2b(c["limit"]))] + fl(c["values"])) for c in cases]
    answers = ck.driver.run(lines)
    for case, ans in zip(cases, answers):
        impl, mod = impl_select(case), parse_select(ans)
        vals = np.array(case["values"])
        ck.case(case, nontrivial=len(vals) >= 3 and len(set(case["values"])) >= 2, sample=ck.evaluations < 2)
        ck.count("part=A")
        if case.get("has_nan"):
            ck.count("A_array_with_nan")
            if impl.get("err") != "nanInput":
                ck.fail({"entry": "HighestDensityContour.cumsum_biggest_until", "predicate": "nan_array_refused"}, case,
                        f"array contains nan but the call returned {impl}")
        if "err" in impl or "err" in mod:
            ck.count("A_error=" + str(impl.get("err")))
            if impl.get("err") != mod.get("err"):
                ck.diverge("cumsum_biggest_until", case, f"impl={impl} model={mod}")
            continue
        if len(set(case["values"])) < len(case["values"]):
            ck.count("A_has_ties")
        if impl["warn"]:
            ck.count("A_warned")
        bad = selection_oracle(vals, case["limit"], [ch == "1" for ch in impl["mask"]], impl["last"], impl["warn"])
        if not impl["mask_shape_ok"]:
            bad.append(("mask_shape", "mask shape differs from array shape"))
        for pred, detail in bad:
            ck.fail({"entry": "HighestDensityContour.cumsum_biggest_until", "predicate": pred}, case, detail)
        if impl["mask"] != mod["mask"] and same_up_to_ties(vals, impl["mask"], mod["mask"]):
            ck.count("A_tie_order_differs_only")
            mod["mask"] = impl["mask"]
        if (impl["mask"], f2b(impl["last"]), impl["warn"]) != (mod["mask"], f2b(mod["last"]), mod["warn"]) and not bad:
            ck.diverge("cumsum_biggest_until", case,
                       f"impl last={impl['last']!r} warn={impl['warn']} model last={mod['last']!r} warn={mod['warn']} "
                       f"masks equal={impl['mask'] == mod['mask']}")


# --------------------------------------------------------------------------- (B, C)

def gen_hdc_cases(rng, n, thorough):
    for _ in range(n):
        n_dim = 2 if rng.integers(0, 3) else 3
        table = rng.integers(0, 3) == 0
        alpha = float(10 ** rng.uniform(-6, math.log10(0.3)))
        real_line = None
        if table:
            m = models.random_fam_model(rng, n_dim=n_dim)
            leaves = [i for i in range(n_dim) if i not in m.cond]
            if leaves and rng.integers(0, 5) < 2:
                # a shipped family with support on the whole real line (Normal) and noticeable mass at / below 0 in a
                # dimension nothing is conditioned on: the grid may then start below 0 or cut through the mass at 0
                real_line = int(rng.choice(leaves))
                mu0 = float(rng.uniform(-0.5, 1.5))
                d = m.dims[real_line]
                d["family"] = "Normal"
                d["params"] = {"mu": ("fixed", mu0) if d["cond"] is None or rng.integers(0, 2) else
                               ("dep", "linear2", [mu0, float(rng.uniform(0.01, 0.1))]),
                               "sigma": ("fixed", float(rng.uniform(0.5, 1.5)))}
                if d["cond"] is not None and d["params"]["mu"][0] == "fixed":
                    d["params"]["sigma"] = ("dep", "asym3", [float(v) for v in models.random_dep_pars(rng, "asym3", 1.0)])
        else:
            m = doubles.random_model(rng, n_dim=n_dim)
        cells = int(rng.integers(10, (80 if not thorough else 400) if n_dim == 2 else (20 if not thorough else 60)))
        if table:
            cells = min(cells, (60 if not thorough else 150) if n_dim == 2 else (14 if not thorough else 24))
        # limits from a seeded sample of the model so that a good share of the grids can hold 1-alpha
        n_s = int(min(4e5, max(2e4, 40 * n_dim / alpha)))
        with np.errstate(all="ignore"):
            smp = m.build().draw_sample(n_s, random_state=int(rng.integers(0, 2**31)))
        limits, deltas = [], []
        for i in range(n_dim):
            col = smp[:, i][np.isfinite(smp[:, i])]
            q = float(np.quantile(col, 1 - min(0.5, alpha / (4 * n_dim)))) if len(col) else 10.0
            hi = max(q * float(rng.uniform(0.7, 1.6)), 0.5)
            lo = float(rng.choice([0.0, 0.0, 0.1]))
            if i == real_line and rng.integers(0, 3):
                ql = float(np.quantile(col, min(0.5, alpha / (4 * n_dim))))
                lo = min(ql * float(rng.uniform(0.7, 1.6)), -0.5)
            limits.append((lo, hi))
            deltas.append((hi - lo) / (cells * float(rng.uniform(0.8, 1.25))))
        form = int(rng.integers(0, 3))
        if form == 0:
            # scalar delta for all dimensions: the coarsest of the per-dimension steps, so that no axis gets
            # more than `cells` cells (ranges of heavy-tailed doubles differ by orders of magnitude)
            dmax = float(max(deltas))
            if min((hi - lo) / dmax for lo, hi in limits) >= 4:
                deltas = dmax
        case = {"part": "C", "mode": "table" if table else "doubles", "alpha": alpha, "model": m.describe(),
                "limits": limits, "deltas": deltas, "real_line_dim": real_line}
        # container forms the signature accepts: list of lists, (n,2) ndarray, (max, min) pairs; deltas as tuple / ndarray
        if rng.integers(0, 3) == 0:
            case["limits_form"] = str(rng.choice(["list", "ndarray", "reversed"]))
        if isinstance(deltas, list) and rng.integers(0, 3) == 0:
            case["deltas_form"] = str(rng.choice(["tuple", "ndarray"]))
        yield case


def gen_int_grid_cases(rng, n):
    """limits and deltas given as Python ints (whole-number grids): np.arange then yields integer cell centres"""
    for _ in range(n):
        n_dim = 2 if rng.integers(0, 3) else 3
        m = doubles.random_model(rng, n_dim=n_dim)
        hi = [int(rng.integers(12, 60 if n_dim == 2 else 24)) for _ in range(n_dim)]
        d = [int(rng.choice([1, 1, 2])) for _ in range(n_dim)]
        yield {"part": "C", "mode": "doubles", "alpha": float(10 ** rng.uniform(-1.3, -0.5)), "model": m.describe(),
               "limits": [(0, h) for h in hi], "deltas": d if rng.integers(0, 2) else int(d[0]), "gen": "int-grid",
               "int_grid": True}


def _grid_guess(rng, m, n_dim, alpha, cells):
    """explicit limits / deltas of about `cells` cells per axis from a seeded sample of the model"""
    n_s = int(min(4e5, max(2e4, 40 * n_dim / alpha)))
    with np.errstate(all="ignore"):
        smp = m.build().draw_sample(n_s, random_state=int(rng.integers(0, 2**31)))
    limits, deltas = [], []
    for i in range(n_dim):
        col = smp[:, i][np.isfinite(smp[:, i])]
        q = float(np.quantile(col, 1 - min(0.5, alpha / (4 * n_dim)))) if len(col) else 10.0
        hi = max(q * float(rng.uniform(0.9, 1.4)), 0.5)
        limits.append((0.0, hi))
        deltas.append(hi / (cells * float(rng.uniform(0.8, 1.25))))
    return limits, deltas


def gen_default_cases(rng, n):
    """the public defaults: limits=None (Monte-Carlo marginal_icdf upper limits) and / or deltas=None (0.25 % of
    the range, 401 cells per axis).  The object built through the default path is the one that is judged (its
    realised grid is read back and handed to the model); an exception on this path is a violation, not a skip.
    2-D: both defaults, or one of them with the other explicit; 3-D: default limits with explicit (coarse) deltas
    (default deltas in 3-D would mean 401^3 cells)."""
    for k in range(n):
        n_dim = 3 if k % 3 == 2 else 2
        table = rng.integers(0, 3) == 0
        m = models.random_fam_model(rng, n_dim=n_dim) if table else doubles.random_model(rng, n_dim=n_dim)
        which = "limits" if n_dim == 3 else ["both", "limits", "deltas"][(k // 3 + k) % 3]
        alpha = float(10 ** rng.uniform(-1.6, -0.6)) if which != "limits" else float(10 ** rng.uniform(-4, -0.6))
        cells = int(rng.integers(10, 60)) if n_dim == 2 else int(rng.integers(8, 16))
        limits, deltas = _grid_guess(rng, m, n_dim, alpha, cells)
        if which in ("both", "limits"):
            limits = None
        if which in ("both", "deltas"):
            deltas = None
        elif rng.integers(0, 2):
            deltas = float(max(deltas))
        yield {"part": "C", "mode": "table" if table else "doubles", "alpha": alpha, "model": m.describe(),
               "gen": "default-" + which, "default": which, "limits": limits, "deltas": deltas}


def gen_nan_cases(rng, n):
    """a dependence function that leaves the admissible range on part of the grid (sigma < 0 for large values of
    the conditioning variable): the contour refuses with 'Encountered nan' - and so must the independent
    recomputation (this is the only accepted reason for that refusal)"""
    for _ in range(n):
        s0 = float(rng.uniform(0.3, 0.8))
        dims = [{"family": "Weibull", "cond": None, "params": {"alpha": ("fixed", float(rng.uniform(1.5, 3.0))),
                                                                 "beta": ("fixed", float(rng.uniform(1.2, 2.5))),
                                                                 "gamma": ("fixed", 0.0)}},
                {"family": "LogNormal", "cond": 0, "params": {"mu": ("fixed", float(rng.uniform(0.5, 1.5))),
                                                               "sigma": ("dep", "linear2", [s0, -s0 / float(rng.uniform(2.0, 5.0))])}}]
        m = models.FamModel(dims)
        yield {"part": "C", "mode": "table", "alpha": float(10 ** rng.uniform(-3, -1)), "model": m.describe(), "gen": "nan-parameters",
               "limits": [(0.0, 12.0), (0.0, 20.0)], "deltas": [float(rng.uniform(0.3, 0.6)), float(rng.uniform(0.5, 1.0))]}


def desc_of(case):
    if case["mode"] == "doubles":
        return doubles.model_from_desc(case["model"]), None
    f = models.fam_model_from_desc(case["model"])
    return f, f


def _as_form(limits, deltas, case):
    """the objects handed to the constructor: the same numbers in the container forms the signature accepts"""
    lf, df = case.get("limits_form", "tuple"), case.get("deltas_form", "list")
    if limits is not None:
        if lf == "tuple":
            limits = [tuple(l) for l in limits]
        elif lf == "list":
            limits = [list(l) for l in limits]
        elif lf == "ndarray":
            limits = np.array(limits, dtype=float)
        elif lf == "reversed":  # (max, min): the code takes min()/max() of each pair
            limits = [(l[1], l[0]) for l in limits]
    if deltas is not None and isinstance(deltas, list):
        if df == "tuple":
            deltas = tuple(deltas)
        elif df == "ndarray":
            deltas = np.array(deltas, dtype=float)
    return limits, deltas


def run_hdc_impl(case, model):
    """`limits` / `deltas` of the case may be None (public default); the realised grid is read back from the
    object (recorded in _check_grid, so it is known even when _compute raises)"""
    _, RHDC = hdc_class()
    RHDC.rec = None
    RHDC.grid = None
    warned = False
    limits, deltas = _as_form(case["limits"], case["deltas"], case)
    kw = {}
    if limits is not None:
        kw["limits"] = limits
    if deltas is not None:
        kw["deltas"] = deltas
    out = {}
    try:
        with warnings.catch_warnings(record=True) as w:
            warnings.simplefilter("always")
            with np.errstate(all="ignore"):
                c = RHDC(model, case["alpha"], **kw)
            warned = any(issubclass(x.category, RuntimeWarning) and "1-alpha" in str(x.message) for x in w)
    except IndexError as e:
        rec = RHDC.rec
        if rec is not None and "mask" not in rec:
            # raised inside cumsum_biggest_until (`summed_flat_inds[-1]` of an empty selection)
            out = {"err": "emptySelection", "rec": rec}
        else:
            out = {"err": "IndexError-elsewhere", "msg": str(e), "rec": rec}
    except ValueError as e:
        if RHDC.rec is not None and "mask" in RHDC.rec:
            # the selection ran; the error comes from the later boundary extraction / point sorting (C15's
            # subject, e.g. fewer boundary cells than neighbours): compare the selection, skip fm
            out = {"err": "ValueError-after-selection", "msg": str(e), "rec": RHDC.rec}
        else:
            out = {"err": "ValueError", "msg": str(e), "rec": RHDC.rec}
    except Exception as e:  # noqa: BLE001
        out = {"err": type(e).__name__ + "-unexpected", "msg": str(e)[:300], "rec": RHDC.rec}
    else:
        out = {"axes": [np.array(a, dtype=float) for a in c.cell_center_coordinates], "fm": float(c.fm),
               "warn": warned, "rec": RHDC.rec, "contour": c}
    g = RHDC.grid
    if g is not None:
        try:
            le = [(float(min(l)), float(max(l))) for l in g[0]]
            if len(le) == model.n_dim and np.all(np.isfinite(le)):
                out["limits_eff"] = le
        except Exception:  # noqa: BLE001
            pass
        try:
            de = [float(d) for d in np.atleast_1d(np.asarray(g[1], dtype=float))]
            if len(de) == model.n_dim and np.all(np.isfinite(de)) and min(de) > 0:
                out["deltas_eff"] = de
        except Exception:  # noqa: BLE001
            pass
    return out


def hdc_lines(case, desc, fam, axes_for_tables):
    n_dim = desc.n_dim
    deltas = case["deltas"] if isinstance(case["deltas"], list) else [case["deltas"]] * n_dim
    lines = ["CLEAR"]
    if fam is not None:
        # TABLE F: constructed template instance at each conditioning cell centre
        for i in range(n_dim):
            ax = axes_for_tables[i]
            dx = ax[1] - ax[0]
            lo, hi = ax - 0.5 * dx, ax + 0.5 * dx
            ci = fam.cond[i]
            gs = [None] if ci is None else [float(g) for g in axes_for_tables[ci]]
            for g in gs:
                leaf = fam.leaf(i, g)
                with np.errstate(all="ignore"):
                    Fl, Fh = np.asarray(leaf.cdf(lo), dtype=float), np.asarray(leaf.cdf(hi), dtype=float)
                for a, v in zip(lo, Fl):
                    lines.append(models.table_line("F", i, a, g, v))
                for a, v in zip(hi, Fh):
                    lines.append(models.table_line("F", i, a, g, v))
    toks = desc.tokens()
    args = []
    for (lo, hi), d in zip(case["limits"], deltas):
        args += [str(f2b(lo)), str(f2b(hi)), str(f2b(d))]
    lines.append(" ".join(["RUN", "hdc"] + toks + [str(f2b(case["alpha"]))] + args))
    return lines


def parse_hdc(ans, n_dim):
    t = ans.split()
    if t[0] == "ERR":
        return {"err": t[1]}
    p = 1
    axes = []
    for _ in range(n_dim):
        k = int(t[p])
        axes.append(np.array([b2f(v) for v in t[p + 1:p + 1 + k]]))
        p += 1 + k
    return {"axes": axes, "mask": t[p], "fm": b2f(t[p + 1]), "warn": t[p + 2] == "1"}


def independent_cell_probs(case, desc, fam, axes):
    """cell probabilities as the documented CDF differences F(x + dx/2) - F(x - dx/2) over the ACTUAL grid
    cells (dx = spacing of the grid the contour reports), recomputed without the contour code: no division by
    dx and no multiplication by the nominal deltas, so an inconsistency between the two is visible.
    Returns (probs, bound): `bound` is an honest bound of the rounding error of that product of differences
    (each difference of two cdf values in [0,1] carries an absolute error of a few ulps of the cdf values,
    which is a LARGE relative error for a tail cell)."""
    n_dim = desc.n_dim
    shape = [len(a) for a in axes]
    out = np.ones(shape)
    out_hi = np.ones(shape)
    eps = np.finfo(float).eps
    for i in range(n_dim):
        ax = axes[i]
        dx = ax[1] - ax[0]
        ci = desc.cond[i]

        def diff(g):
            if fam is not None:
                d = fam.leaf(i, None if g is None else float(g))
                hi, lo = np.asarray(d.cdf(ax + 0.5 * dx), dtype=float), np.asarray(d.cdf(ax - 0.5 * dx), dtype=float)
            else:
                s_, l_ = (desc.s[i].pars[0], desc.l[i].pars[0]) if g is None else (desc.s[i].value(g), desc.l[i].value(g))
                F = lambda x: np.where(x - l_ > 0, (x - l_) / ((x - l_) + s_), 0.0)  # noqa: E731
                hi, lo = F(ax + 0.5 * dx), F(ax - 0.5 * dx)
            v = hi - lo
            return v, np.abs(v) + 8 * eps * (np.abs(hi) + np.abs(lo))

        if ci is None:
            v, vh = diff(None)
            sh = [1] * n_dim
            sh[i] = len(ax)
            out = out * v.reshape(sh)
            out_hi = out_hi * vh.reshape(sh)
        else:
            M = np.empty((len(axes[ci]), len(ax)))
            Mh = np.empty_like(M)
            for k, g in enumerate(axes[ci]):
                M[k], Mh[k] = diff(g)
            # place (cond, dist) on axes (ci, i) explicitly (einsum-free, independent of reshape tricks)
            MM, MMh = (M, Mh) if ci < i else (M.T, Mh.T)
            a, b = min(ci, i), max(ci, i)
            sh = [1] * n_dim
            sh[a], sh[b] = MM.shape
            out = out * MM.reshape(sh)
            out_hi = out_hi * MMh.reshape(sh)
    return out, out_hi - np.abs(out)


def border_cells(axes):
    """cell centres of the outer layer of the grid (what remains of an all-ones region after the erosion)"""
    shape = [len(a) for a in axes]
    idx = np.indices(shape).reshape(len(shape), -1).T
    on = np.zeros(len(idx), dtype=bool)
    for k, n in enumerate(shape):
        on |= (idx[:, k] == 0) | (idx[:, k] == n - 1)
    return {tuple(float(axes[k][i[k]]) for k in range(len(shape))) for i in idx[on]}


def effective_case(case, impl):
    """the case with the realised grid filled in where the public default was used"""
    e = dict(case)
    if e.get("limits") is None:
        e["limits"] = impl.get("limits_eff")
    if e.get("deltas") is None:
        e["deltas"] = impl.get("deltas_eff")
    return e


def fail_hdc(ck, case, pred, detail):
    ck.fail({"entry": "HighestDensityContour", "predicate": pred}, case, detail)


def process_hdc(ck, case):
    desc, fam = desc_of(case)
    model = desc.build()
    impl = run_hdc_impl(case, model)
    n_dim = desc.n_dim
    ck.case(case, nontrivial=desc.n_dependent() >= 1)
    ck.count("part=C")
    ck.count("C_mode=" + case["mode"])
    if case.get("gen"):
        ck.count("C_gen=" + case["gen"])
    if case.get("default"):
        ck.count(f"C_default_{case['default']}_n_dim={n_dim}")
    if case.get("limits_form", "tuple") != "tuple":
        ck.count("C_limits_form=" + case["limits_form"])
    if case.get("deltas_form", "list") != "list" and isinstance(case["deltas"], list):
        ck.count("C_deltas_form=" + case["deltas_form"])
    if case.get("real_line_dim") is not None and case["limits"] is not None:
        ck.count("C_real_line_family" + ("_negative_lower_limit" if case["limits"][case["real_line_dim"]][0] < 0 else "_limit_at_0"))
    ck.count(f"C_n_dim={n_dim}")
    ck.count("C_deltas=" + ("default" if case["deltas"] is None else "scalar" if not isinstance(case["deltas"], list) else "list"))
    ecase = effective_case(case, impl)
    if ecase["limits"] is None or ecase["deltas"] is None:
        # the default grid could not even be set up on a well-formed model
        fail_hdc(ck, case, "default_grid_computes", "no usable default limits/deltas (finite, one per dimension, deltas > 0) were set up: "
                 f"{impl.get('err', 'no exception')} {impl.get('msg', '')}")
        return
    # grid axes for the TABLE lines: numpy's own arange (the model recomputes them and is compared)
    deltas = ecase["deltas"] if isinstance(ecase["deltas"], list) else [ecase["deltas"]] * n_dim
    axes_ref = [np.arange(min(l), max(l) + d, d) for l, d in zip(ecase["limits"], deltas)]
    ans = ck.driver.run(hdc_lines(ecase, desc, fam, axes_ref))
    mod = parse_hdc(ans[-1], n_dim)
    if "err" in impl:
        ck.count("C_impl_error=" + impl["err"])
        if impl["err"] == "IndexError-elsewhere" or impl["err"].endswith("-unexpected"):
            fail_hdc(ck, case, "contour_computes", f"{impl['err']}: {impl.get('msg', '')}")
            return
        if impl["err"] == "ValueError" and "nan" in impl.get("msg", ""):
            # nan in the cell averaged pdf: the code refuses. Legitimate only if the independently recomputed
            # CDF differences contain NaN as well (inadmissible parameters somewhere on the grid)
            with np.errstate(all="ignore"), warnings.catch_warnings():
                warnings.simplefilter("ignore")
                indep, _ = independent_cell_probs(ecase, desc, fam, axes_ref) if all(len(a) >= 2 for a in axes_ref) else (np.array([np.nan]), None)
            if not np.isnan(indep).any():
                fail_hdc(ck, case, "nan_refusal_without_nan",
                         "the contour refuses with 'Encountered nan' but all independently recomputed cell probabilities are numbers")
            else:
                ck.count("C_nan_refusal_confirmed_by_independent_probs")
                if not str(mod.get("err", "")).startswith("nan"):
                    ck.diverge("hdc-pipeline:" + case["mode"], case, f"impl refuses (nan), model {mod.get('err', 'returns a region')}")
            return
        if impl["err"] == "ValueError-after-selection":
            rec = impl["rec"]
            bad = [] if rec["warned"] else selection_oracle(rec["probs"], rec["limit"], rec["mask"], rec["last"], rec["warned"])
            for pred, detail in bad:
                fail_hdc(ck, case, pred, detail)
            if not bad and "err" not in mod and not rec["warned"]:
                imask = "".join("1" if v else "0" for v in rec["mask"].ravel())
                if imask != mod["mask"] and not same_up_to_ties(rec["probs"], imask, mod["mask"]):
                    ck.diverge("hdc-pipeline:" + case["mode"], case, "selected region differs (contour later failed in boundary extraction)")
            return
        if impl["err"] == "ValueError":
            # not the NaN refusal, not after the selection: the grid of a well-formed case was rejected
            fail_hdc(ck, case, "contour_computes", f"ValueError: {impl.get('msg', '')}")
            return
        if mod.get("err") != impl["err"]:
            ck.diverge("hdc-pipeline", case, f"impl error {impl['err']} {impl.get('msg', '')} model {str(mod)[:300]}")
        return
    rec = impl["rec"]
    bad = []
    # oracle: selection facts on what _compute selected, fm, warning, cell probabilities
    probs = rec["probs"]
    fallback_diff = None
    if impl["warn"]:
        ck.count("C_warned")
        if impl["fm"] != 0:
            bad.append(("fallback_fm_zero", f"fm={impl['fm']!r} after warning"))
        if math.fsum(probs.ravel()) >= rec["limit"] * (1 + 1e-12):
            bad.append(("warning_only_if_unreachable", f"grid content {math.fsum(probs.ravel())!r} >= {rec['limit']!r}"))
        # model (fallback_all_cells / hdr_region_spec): the region is the WHOLE grid; what the contour
        # reports is then the outer layer of the grid
        co = impl["contour"].coordinates
        try:
            got = {tuple(float(v) for v in row) for row in np.asarray(co, dtype=float).reshape(-1, n_dim)} if not isinstance(co, list) else None
        except Exception:  # noqa: BLE001
            got = None
        want = border_cells(impl["axes"])
        if got is None:
            fallback_diff = "after the warning the contour consists of several parts, the whole grid has one boundary"
        elif got != want:
            fallback_diff = (f"after the warning the contour is not the outer layer of the whole grid: {len(got)} points, "
                             f"expected {len(want)}; {len(got - want)} not on the border, {len(want - got)} border cells missing")
        else:
            ck.count("C_warned_region_is_whole_grid")
    else:
        bad += selection_oracle(probs, rec["limit"], rec["mask"], rec["last"], rec["warned"], tag="")
        fm_want = rec["last"]
        for d in deltas:
            fm_want /= d
        if impl["fm"] != fm_want:
            bad.append(("fm_is_least_dense_enclosed_density", f"fm={impl['fm']!r} expected {fm_want!r}"))
        if rec["warned"]:
            bad.append(("silent_smaller_region", "selection routine warned but the contour did not"))
    if abs(rec["limit"] - (1 - case["alpha"])) > 1e-15:
        bad.append(("limit_is_one_minus_alpha", f"limit {rec['limit']!r} alpha {case['alpha']!r}"))
    if all(len(a) >= 2 for a in impl["axes"]):
        with np.errstate(all="ignore"):
            indep, bound = independent_cell_probs(ecase, desc, fam, impl["axes"])
        if indep.shape != probs.shape:
            bad.append(("cell_prob_shape", f"{probs.shape} vs {indep.shape}"))
        else:
            # tolerance relative to EACH cell (a tail cell that decides the cut at small alpha is 1e-10 of the
            # largest one) plus the rounding bound of the differences of cdf values
            err = np.abs(indep - probs)
            tol = 1e-11 * np.abs(indep) + 4 * bound + 1e-300
            if not np.all(err <= tol):
                d = np.unravel_index(np.nanargmax(np.where(err <= tol, -1.0, err / np.maximum(tol, 1e-300))), err.shape)
                bad.append(("cell_prob_is_cdf_difference", f"cell {d}: contour {probs[d]!r} independent {indep[d]!r} (tolerance {tol[d]!r})"))
        if np.nanmin(probs) < -1e-15:
            ck.count("C_negative_cell_prob")
    ck.hyp_checked += int(probs.size)
    for pred, detail in bad:
        fail_hdc(ck, case, pred, detail)
    # correspondence
    if "err" in mod:
        d = f"model error {mod['err']} but implementation returned fm={impl['fm']!r}"
    else:
        d = None
        for i in range(n_dim):
            if not (len(impl["axes"][i]) == len(mod["axes"][i]) and
                    np.array_equal(impl["axes"][i].view(np.uint64), mod["axes"][i].view(np.uint64))):
                d = f"grid axis {i} differs"
        if d is None and impl["warn"] != mod["warn"]:
            d = f"warning impl={impl['warn']} model={mod['warn']}"
        if d is None and impl["warn"] and fallback_diff is not None:
            d = fallback_diff
        if d is None and not impl["warn"]:
            imask = "".join("1" if v else "0" for v in rec["mask"].ravel())
            if imask != mod["mask"] and same_up_to_ties(rec["probs"], imask, mod["mask"]):
                ck.count("C_tie_order_differs_only")
                imask = mod["mask"]
            if imask != mod["mask"]:
                k = next(i for i in range(len(imask)) if imask[i] != mod["mask"][i])
                d = f"selected region differs at flat cell {k} (impl {imask.count('1')} cells, model {mod['mask'].count('1')})"
                if case["mode"] == "table" and abs(impl["fm"] - mod["fm"]) <= 1e-9 * max(abs(mod["fm"]), 1e-300):
                    # leaves evaluated scalar-vs-vector may differ in the last bit: the two regions may then differ,
                    # but only in cells whose probability equals the cut value up to that noise
                    pf = rec["probs"].ravel()
                    diff = np.array([a != b for a, b in zip(imask, mod["mask"])])
                    if np.all(np.abs(pf[diff] - rec["last"]) <= 1e-7 * abs(rec["last"])):
                        ck.count("C_table_inexact_ok")
                        d = None
            elif f2b(impl["fm"]) != f2b(mod["fm"]):
                d = f"fm impl={impl['fm']!r} model={mod['fm']!r}"
                if case["mode"] == "table" and abs(impl["fm"] - mod["fm"]) <= 1e-9 * max(abs(mod["fm"]), 1e-300):
                    ck.count("C_table_inexact_ok")
                    d = None
    if d is not None and not bad:
        ck.diverge("hdc-pipeline:" + case["mode"], case, d)


def process_reshape(ck, rng, n_cases):
    """(D) numpy's reshape + broadcasting of a (len(cond), len(dist)) matrix into the n-D grid vs the model's
    C-order offset `flatUpTo`: which matrix entry does cell I read?"""
    lines, meta = [], []
    for _ in range(n_cases):
        n = int(rng.integers(2, 6))
        a, b = sorted(rng.choice(n, 2, replace=False).tolist())
        if rng.integers(0, 3) == 0:
            a, b = b, a  # conditioning axis after the distribution axis (non-hierarchical placement)
        la, lb = int(rng.integers(2, 7)), int(rng.integers(2, 7))
        shape = [1] * n
        shape[a], shape[b] = la, lb
        full = [int(rng.integers(2, 5)) for _ in range(n)]
        full[a], full[b] = la, lb
        I = [int(rng.integers(0, full[k])) for k in range(n)]
        # the code: fbar (la x lb, first index = conditioning value) .reshape(shape), then broadcast in the product
        M = np.arange(la * lb).reshape(la, lb)
        got = int(np.broadcast_to(M.reshape(shape), full)[tuple(I)])
        lines.append(" ".join(["RUN", "flat", str(n), str(a), str(la), str(b), str(lb)] + [str(v) for v in I]))
        meta.append({"part": "D", "n": n, "cond_axis": a, "len_cond": la, "dist_axis": b, "len_dist": lb, "index": I, "offset": got})
    for case, ans in zip(meta, ck.driver.run(lines)):
        ck.case(case, nontrivial=True, sample=False)
        ck.count("part=D")
        ck.count("D_cond_axis_first" if case["cond_axis"] < case["dist_axis"] else "D_cond_axis_later")
        t = ans.split()
        if t[0] != "OK" or int(t[1]) != case["offset"]:
            ck.diverge("reshape-broadcast-offset", case, f"numpy reads flat entry {case['offset']}, model {ans}")
        if case["cond_axis"] < case["dist_axis"] and case["offset"] != case["index"][case["cond_axis"]] * case["len_dist"] + case["index"][case["dist_axis"]]:
            ck.fail({"entry": "numpy.reshape", "predicate": "conditional_matrix_on_right_axes"}, case, "hierarchical placement reads the wrong entry")


def main(ck):
    rng = np.random.default_rng(ck.seed)
    thorough = ck.tier == "thorough"
    process_reshape(ck, rng, 3000 if thorough else 400)
    ck.rule = ("(A) random arrays 1-D..3-D (ties, zeros, tiny values; limits equal to / one ulp above / far above the total, "
               "below the largest value) through cumsum_biggest_until; (C) HighestDensityContour on random 2-D/3-D "
               "hierarchical models (rational doubles and shipped families), alpha in [1e-6,0.3], explicit limits, scalar "
               "and per-dimension deltas; non-trivial = array with >= 3 cells and >= 2 distinct values / model with a "
               "dependent parameter; distinct by SHA1")
    ck.partial = {
        "cell probabilities >= 0 (hypothesis hnn of cumsum_biggest_until_spec / hdr_region_spec)": "counted when violated (C_negative_cell_prob); the "
        "selection facts are evaluated directly on the recorded arrays in any case",
        "cell probabilities are the CDF differences": "recomputed independently per run, tolerance relative to each cell + rounding bound of the differences",
        "float rounding of the cumulative sum": "facts checked with an n*eps band",
        "values of the default limits / deltas": "not judged (the property quantifies over them); the grid realised by the default path is judged like an explicit one",
        "whole-grid fallback after the warning": "the reported contour is compared with the outer layer of the grid (correspondence with fallback_all_cells)",
    }
    ck.assumptions = ["cell probabilities are non-negative (leaf cdf monotone): counted when violated",
                      "table mode: leaf cdf values enter the model as TABLE lines from constructed template instances"]
    arrays = list(gen_arrays(rng, 10000 if thorough else 1500))
    for k in range(0, len(arrays), 250):  # bounded batches: the protocol text of one batch stays small
        process_arrays(ck, arrays[k:k + 250])
    for case in gen_hdc_cases(rng, 1200 if thorough else 140, thorough):
        process_hdc(ck, case)
    for case in gen_default_cases(rng, 24 if thorough else 6):
        process_hdc(ck, case)
    for case in gen_nan_cases(rng, 6 if thorough else 2):
        process_hdc(ck, case)
    for case in gen_int_grid_cases(rng, 60 if thorough else 8):
        process_hdc(ck, case)


def replay(ck, payload):
    case = payload["case"]
    ck2 = ck
    if case.get("part") == "A":
        process_arrays(ck2, [case])
    else:
        process_hdc(ck2, case)
    for s, c, d in ck2.failures:
        print("oracle:", s, d)
    for op, c, d in ck2.divergences:
        print("correspondence:", op, d)
    return not ck2.failures
